#!/usr/bin/env python
"""Byte-for-byte comparison of the generator's output before / after the W03 refactoring.

Usage:  /venv/bin/python demo.py <path-to-a-checkout-with-the-change>

* "old" tree  = pristine export of the checkout's HEAD (git archive | tar -x)
* "new" tree  = the checkout's working tree (HEAD + the uncommitted change)

Each API is rendered twice per tree: as shipped, and with the generator's
whitespace post-processing (``formatter.fix_whitespace``, which collapses runs
of blank lines and could mask whitespace-only differences) replaced by the
identity, so the raw template output is compared too ("raw-render/..." names).

Several API descriptions are built in Python (no protoc), serialized to a
pickle file, and rendered by one worker subprocess per tree.  The worker puts
its tree first on sys.path, removes the editable install of /repo from the
import machinery and asserts that every ``gapic.*`` module and the template
directory come from its own tree.  Every output file (name and content) is
compared.
"""
import os
import pickle
import shutil
import subprocess
import sys
import tempfile
import textwrap

from google.protobuf import descriptor_pb2 as dpb
from google.protobuf import descriptor_pool

# Importing registers the files in the default descriptor pool.
from google.api import annotations_pb2, client_pb2, field_behavior_pb2  # noqa: F401
from google.api import resource_pb2  # noqa: F401
from google.cloud import extended_operations_pb2 as ex_ops_pb2
from google.iam.v1 import iam_policy_pb2, policy_pb2  # noqa: F401
from google.longrunning import operations_pb2
from google.protobuf import empty_pb2, struct_pb2, any_pb2  # noqa: F401

F = dpb.FieldDescriptorProto


# --------------------------------------------------------------------------
# Worker (runs in a subprocess, once per tree).
# --------------------------------------------------------------------------
WORKER = r'''
import os, pickle, sys

tree, in_path, out_path = sys.argv[1:4]
tree = os.path.realpath(tree)

# 1. Drop the editable install (meta path finder + path hook + placeholder).
sys.meta_path[:] = [f for f in sys.meta_path
                    if "__editable__" not in (getattr(f, "__module__", "") or "")]
sys.path_hooks[:] = [h for h in sys.path_hooks
                     if "__editable__" not in (getattr(h, "__module__", "") or "")
                     and "__editable__" not in (getattr(getattr(h, "__self__", None), "__module__", "") or "")]
cleaned = []
for p in sys.path:
    if "__editable__" in p:
        continue
    rp = os.path.realpath(p or os.getcwd())
    if rp != tree and os.path.isdir(os.path.join(rp, "gapic")):
        continue
    cleaned.append(p)
sys.path[:] = [tree] + [p for p in cleaned if os.path.realpath(p or os.getcwd()) != tree]
sys.path_importer_cache.clear()
for name in [m for m in sys.modules if m == "gapic" or m.startswith("gapic.")]:
    del sys.modules[name]

# 2. pandoc is not installed: stub pypandoc.convert_text identically for both runs.
import pypandoc
def _convert_text(text, to, format=None, extra_args=(), **kw):
    return "<<" + str(format) + "|" + "|".join(extra_args) + ">> " + text
pypandoc.convert_text = _convert_text

import gapic
from gapic.schema import api as gapic_api
from gapic.generator import Generator
from gapic.utils import Options
from google.protobuf import descriptor_pb2

assert [os.path.realpath(p) for p in gapic.__path__] == [os.path.join(tree, "gapic")], list(gapic.__path__)

with open(in_path, "rb") as fh:
    cases = pickle.load(fh)

from gapic.generator import formatter as gapic_formatter
_real_fix_whitespace = gapic_formatter.fix_whitespace

results = {}
# Two passes: the generator as shipped, and the generator with its whitespace
# post-processing (which collapses runs of blank lines) switched off, so that
# the raw template output is compared as well.
for raw in (False, True):
  gapic_formatter.fix_whitespace = (lambda code: code) if raw else _real_fix_whitespace
  for case in cases:
    fdps = []
    for blob in case["files"]:
        fdp = descriptor_pb2.FileDescriptorProto()
        fdp.ParseFromString(blob)
        fdps.append(fdp)
    opts = Options.build(case["opts"])
    for tdir in opts.templates:
        assert os.path.realpath(tdir).startswith(os.path.join(tree, "gapic") + os.sep), tdir
    api = gapic_api.API.build(fdps, package=case["package"], opts=opts)
    response = Generator(opts).get_response(api, opts)
    files = results.setdefault(case["name"], {})
    prefix = "raw-render/" if raw else ""
    assert response.file, case["name"]
    for f in response.file:
        assert prefix + f.name not in files, ("duplicate output file", f.name)
        files[prefix + f.name] = f.content
gapic_formatter.fix_whitespace = _real_fix_whitespace

for name, mod in sorted(sys.modules.items()):
    if name == "gapic" or name.startswith("gapic."):
        origin = getattr(mod, "__file__", None)
        if origin is None:
            locs = [os.path.realpath(p) for p in mod.__path__]
            assert locs and all(l.startswith(os.path.join(tree, "gapic")) for l in locs), (name, locs)
        else:
            assert os.path.realpath(origin).startswith(os.path.join(tree, "gapic") + os.sep), (name, origin)

with open(out_path, "wb") as fh:
    pickle.dump(results, fh)
'''


# --------------------------------------------------------------------------
# Descriptor building helpers.
# --------------------------------------------------------------------------
def field(name, number, type_, *, label=F.LABEL_OPTIONAL, type_name=None,
          required=False, proto3_optional=False, oneof_index=None, json_name=None):
    f = F(name=name, number=number, type=type_, label=label)
    if type_name:
        f.type_name = type_name
    if required:
        f.options.Extensions[field_behavior_pb2.field_behavior].append(
            field_behavior_pb2.REQUIRED)
    if proto3_optional:
        f.proto3_optional = True
    if oneof_index is not None:
        f.oneof_index = oneof_index
    if json_name:
        f.json_name = json_name
    return f


def string(name, number, **kw):
    return field(name, number, F.TYPE_STRING, **kw)


def int32(name, number, **kw):
    return field(name, number, F.TYPE_INT32, **kw)


def msg_field(name, number, type_name, **kw):
    return field(name, number, F.TYPE_MESSAGE, type_name=type_name, **kw)


def message(name, *fields, nested=(), oneofs=(), enums=()):
    m = dpb.DescriptorProto(name=name)
    m.field.extend(fields)
    m.nested_type.extend(nested)
    for o in oneofs:
        m.oneof_decl.add(name=o)
    m.enum_type.extend(enums)
    return m


def map_field(owner, name, number, value_type=F.TYPE_STRING, value_type_name=None):
    """Add a map<string, X> field (and its synthetic entry message) to ``owner``."""
    entry_name = "".join(p.capitalize() for p in name.split("_")) + "Entry"
    entry = dpb.DescriptorProto(name=entry_name)
    entry.options.map_entry = True
    entry.field.append(string("key", 1))
    entry.field.append(field("value", 2, value_type, type_name=value_type_name))
    owner.nested_type.append(entry)
    return entry_name


def method(name, input_type, output_type, *, client_streaming=False,
           server_streaming=False, signatures=(), http=None, lro=None,
           deprecated=False, op_service=None, polling=False):
    m = dpb.MethodDescriptorProto(
        name=name, input_type=input_type, output_type=output_type,
        client_streaming=client_streaming, server_streaming=server_streaming)
    for sig in signatures:
        m.options.Extensions[client_pb2.method_signature].append(sig)
    if http:
        verb, uri, body = http
        rule = m.options.Extensions[annotations_pb2.http]
        setattr(rule, verb, uri)
        if body:
            rule.body = body
    if lro:
        info = m.options.Extensions[operations_pb2.operation_info]
        info.response_type, info.metadata_type = lro
    if deprecated:
        m.options.deprecated = True
    if op_service:
        m.options.Extensions[ex_ops_pb2.operation_service] = op_service
    if polling:
        m.options.Extensions[ex_ops_pb2.operation_polling_method] = True
    return m


def service(name, host, *methods, scopes=None):
    s = dpb.ServiceDescriptorProto(name=name)
    s.options.Extensions[client_pb2.default_host] = host
    if scopes:
        s.options.Extensions[client_pb2.oauth_scopes] = scopes
    s.method.extend(methods)
    return s


def proto_file(name, package, deps, messages=(), services=(), enums=(), comments=None):
    fd = dpb.FileDescriptorProto(name=name, package=package, syntax="proto3")
    fd.dependency.extend(deps)
    fd.message_type.extend(messages)
    fd.service.extend(services)
    fd.enum_type.extend(enums)
    # Leading comments: path -> text.
    for path, text in (comments or {}).items():
        loc = fd.source_code_info.location.add()
        loc.path.extend(path)
        loc.leading_comments = text
    return fd


def with_dependencies(*files):
    """Return serialized descriptors: transitive well-known deps first, then ``files``."""
    pool = descriptor_pool.Default()
    own = {f.name for f in files}
    ordered, seen = [], set()

    def visit(dep_name):
        if dep_name in seen or dep_name in own:
            return
        seen.add(dep_name)
        fdp = dpb.FileDescriptorProto()
        pool.FindFileByName(dep_name).CopyToProto(fdp)
        for d in fdp.dependency:
            visit(d)
        ordered.append(fdp)

    for f in files:
        for d in f.dependency:
            visit(d)
    return [f.SerializeToString() for f in ordered + list(files)]


COMMON_DEPS = [
    "google/api/annotations.proto",
    "google/api/client.proto",
    "google/api/field_behavior.proto",
    "google/api/resource.proto",
    "google/longrunning/operations.proto",
    "google/protobuf/empty.proto",
    "google/protobuf/struct.proto",
]


# --------------------------------------------------------------------------
# Case 1: a "library" API, gRPC only: unary / paged / void / LRO / raw
# Operation / all streaming arities / reserved and transport-unsafe names /
# flattened scalars, messages, repeated fields and maps.
# --------------------------------------------------------------------------
def library_files(package="acme.library.v1", fname="acme/library/v1/library.proto"):
    P = "." + package
    book = message("Book", string("name", 1), string("title", 2),
                   field("tags", 3, F.TYPE_STRING, label=F.LABEL_REPEATED))
    entry = map_field(book, "labels", 4)
    book.field.append(msg_field("labels", 4, f"{P}.Book.{entry}", label=F.LABEL_REPEATED))
    book.options.Extensions[resource_pb2.resource].type = "library.example.com/Book"
    book.options.Extensions[resource_pb2.resource].pattern.append("shelves/{shelf}/books/{book}")

    create_req = message(
        "CreateBookRequest", string("parent", 1, required=True),
        msg_field("book", 2, f"{P}.Book", required=True),
        field("tags", 3, F.TYPE_STRING, label=F.LABEL_REPEATED),
        string("class", 5), string("from", 6))
    entry = map_field(create_req, "labels", 4)
    create_req.field.append(
        msg_field("labels", 4, f"{P}.CreateBookRequest.{entry}", label=F.LABEL_REPEATED))

    value_holder = message(
        "AnnotateBookRequest", string("name", 1),
        msg_field("values", 2, ".google.protobuf.Value", label=F.LABEL_REPEATED),
        msg_field("extra", 3, ".google.protobuf.Value"))

    messages = [
        book,
        message("GetBookRequest", string("name", 1, required=True)),
        message("ListBooksRequest", string("parent", 1, required=True),
                int32("page_size", 2), string("page_token", 3)),
        message("ListBooksResponse",
                msg_field("books", 1, f"{P}.Book", label=F.LABEL_REPEATED),
                string("next_page_token", 2)),
        message("DeleteBookRequest", string("name", 1, required=True)),
        create_req,
        message("CreateBookMetadata", string("progress", 1)),
        value_holder,
        message("WatchBooksRequest", string("parent", 1)),
        message("UploadSummary", int32("count", 1)),
        message("ChatMessage", string("text", 1),
                string("kind_a", 2, oneof_index=0), int32("kind_b", 3, oneof_index=0),
                oneofs=("kind",)),
        message("ImportRequest", string("source", 1),
                string("note", 2, proto3_optional=True, oneof_index=0),
                oneofs=("_note",)),
    ]
    methods = [
        method("GetBook", f"{P}.GetBookRequest", f"{P}.Book",
               signatures=["name"], http=("get", "/v1/{name=shelves/*/books/*}", None)),
        method("ListBooks", f"{P}.ListBooksRequest", f"{P}.ListBooksResponse",
               signatures=["parent"], http=("get", "/v1/{parent=shelves/*}/books", None)),
        method("DeleteBook", f"{P}.DeleteBookRequest", ".google.protobuf.Empty",
               signatures=["name"], http=("delete", "/v1/{name=shelves/*/books/*}", None)),
        method("CreateBook", f"{P}.CreateBookRequest", ".google.longrunning.Operation",
               signatures=["parent,book,tags,labels", "parent,class,from"],
               http=("post", "/v1/{parent=shelves/*}/books", "book"),
               lro=("Book", "CreateBookMetadata")),
        method("PurgeBooks", f"{P}.WatchBooksRequest", ".google.longrunning.Operation",
               http=("post", "/v1/{parent=shelves/*}/books:purge", "*"),
               lro=("google.protobuf.Empty", "CreateBookMetadata")),
        method("AnnotateBook", f"{P}.AnnotateBookRequest", f"{P}.Book",
               signatures=["name,values,extra"],
               http=("post", "/v1/{name=shelves/*/books/*}:annotate", "*")),
        method("GetRawOperation", f"{P}.GetBookRequest", ".google.longrunning.Operation",
               http=("get", "/v1/{name=rawops/*}", None)),
        method("WatchBooks", f"{P}.WatchBooksRequest", f"{P}.Book", server_streaming=True,
               signatures=["parent"], http=("get", "/v1/{parent=shelves/*}/books:watch", None)),
        method("DrainBooks", f"{P}.WatchBooksRequest", ".google.protobuf.Empty",
               server_streaming=True),
        method("UploadBooks", f"{P}.Book", f"{P}.UploadSummary", client_streaming=True),
        method("Chat", f"{P}.ChatMessage", f"{P}.ChatMessage",
               client_streaming=True, server_streaming=True),
        method("Import", f"{P}.ImportRequest", f"{P}.UploadSummary",
               signatures=["source,note"], http=("post", "/v1/books:import", "*")),
        method("Class", f"{P}.ImportRequest", ".google.protobuf.Empty", deprecated=True,
               http=("post", "/v1/books:class", "*")),
        method("CreateChannel", f"{P}.ImportRequest", f"{P}.UploadSummary",
               http=("post", "/v1/books:createChannel", "*")),
        method("GrpcChannel", f"{P}.ImportRequest", f"{P}.UploadSummary",
               http=("post", "/v1/books:grpcChannel", "*")),
        method("OperationsClient", f"{P}.ImportRequest", f"{P}.UploadSummary",
               http=("post", "/v1/books:operationsClient", "*")),
        method("None", f"{P}.ImportRequest", f"{P}.UploadSummary",
               http=("post", "/v1/books:none", "*")),
        method("Match", f"{P}.ImportRequest", f"{P}.UploadSummary",
               http=("post", "/v1/books:match", "*")),
    ]
    svc = service("Library", "library.example.com", *methods,
                  scopes="https://www.googleapis.com/auth/cloud-platform")
    comments = {
        (6, 0): " The `Library` service; manages *books* on [shelves][].\n",
        (6, 0, 2, 0): " Gets a book. Use `name` to say which one.\n",
        (6, 0, 2, 1): " Lists books on a shelf.\n",
        (6, 0, 2, 3): " Creates a book, and returns an operation.\n",
        (4, 0): " A single book in the library.\n",
        (4, 1): " Request for `GetBook`.\n",
    }
    return [proto_file(fname, package, COMMON_DEPS, messages, [svc], comments=comments)]


# --------------------------------------------------------------------------
# Case 2: requests and replies from dependency packages (pb2 types), with
# flattened scalar / repeated / map fields on them; mixins through a service
# yaml; gRPC + REST with numeric enums; snippets disabled.
# --------------------------------------------------------------------------
def deps_files(raw_operation=True):
    package = "acme.deps.v1alpha2"
    P = "." + package
    deps = COMMON_DEPS + ["google/iam/v1/iam_policy.proto", "google/iam/v1/policy.proto"]
    messages = [
        message("Thing", string("name", 1)),
        message("GetThingRequest", string("name", 1)),
    ]
    methods = [
        method("Ping", ".google.protobuf.Empty", ".google.protobuf.Empty",
               http=("post", "/v1alpha2/ping", "*")),
        method("ApplyPolicy", ".google.iam.v1.SetIamPolicyRequest", ".google.iam.v1.Policy",
               signatures=["resource,policy"],
               http=("post", "/v1alpha2/{resource=things/*}:applyPolicy", "*")),
        method("ProbePermissions", ".google.iam.v1.TestIamPermissionsRequest",
               ".google.iam.v1.TestIamPermissionsResponse",
               signatures=["resource,permissions"],
               http=("post", "/v1alpha2/{resource=things/*}:probe", "*")),
        method("EchoStruct", ".google.protobuf.Struct", ".google.protobuf.Struct",
               signatures=["fields"], http=("post", "/v1alpha2/echo", "*")),
        method("EchoList", ".google.protobuf.ListValue", ".google.protobuf.Value",
               signatures=["values"], http=("post", "/v1alpha2/echoList", "*")),
        method("GetThing", f"{P}.GetThingRequest", f"{P}.Thing", signatures=["name"],
               http=("get", "/v1alpha2/{name=things/*}", None)),
        method("StreamPolicies", ".google.iam.v1.GetIamPolicyRequest", ".google.iam.v1.Policy",
               server_streaming=True,
               http=("get", "/v1alpha2/{resource=things/*}:streamPolicies", None)),
    ]
    if raw_operation:
        # Returns a bare Operation (no operation_info): not an LRO for the generator.
        methods.append(
            method("PollThing", f"{P}.GetThingRequest", ".google.longrunning.Operation",
                   http=("get", "/v1alpha2/{name=things/*}:poll", None)))
    svc = service("Deps", "deps.example.com", *methods)
    return [proto_file("acme/deps/v1alpha2/deps.proto", package, deps, messages, [svc])]


DEPS_SERVICE_YAML = textwrap.dedent("""\
    type: google.api.Service
    config_version: 3
    name: deps.example.com
    title: Deps API
    apis:
    - name: acme.deps.v1alpha2.Deps
    - name: google.cloud.location.Locations
    - name: google.iam.v1.IAMPolicy
    - name: google.longrunning.Operations
    http:
      rules:
      - selector: google.cloud.location.Locations.GetLocation
        get: '/v1alpha2/{name=projects/*/locations/*}'
      - selector: google.cloud.location.Locations.ListLocations
        get: '/v1alpha2/{name=projects/*}/locations'
      - selector: google.iam.v1.IAMPolicy.GetIamPolicy
        get: '/v1alpha2/{resource=things/*}:getIamPolicy'
      - selector: google.iam.v1.IAMPolicy.SetIamPolicy
        post: '/v1alpha2/{resource=things/*}:setIamPolicy'
        body: '*'
      - selector: google.iam.v1.IAMPolicy.TestIamPermissions
        post: '/v1alpha2/{resource=things/*}:testIamPermissions'
        body: '*'
      - selector: google.longrunning.Operations.CancelOperation
        post: '/v1alpha2/{name=operations/*}:cancel'
        body: '*'
      - selector: google.longrunning.Operations.DeleteOperation
        delete: '/v1alpha2/{name=operations/*}'
      - selector: google.longrunning.Operations.GetOperation
        get: '/v1alpha2/{name=operations/*}'
      - selector: google.longrunning.Operations.ListOperations
        get: '/v1alpha2/{name=operations}'
    """)


# --------------------------------------------------------------------------
# Case 3: compute-style extended operations (operation service + polling
# method, differently named operation fields), gRPC + REST.
# --------------------------------------------------------------------------
def compute_files():
    package = "acme.compute.v1"
    P = "." + package
    deps = COMMON_DEPS + ["google/cloud/extended_operations.proto"]

    def op_field(f, code):
        f.options.Extensions[ex_ops_pb2.operation_field] = code
        return f

    status_enum = dpb.EnumDescriptorProto(name="Status")
    status_enum.value.add(name="UNDEFINED_STATUS", number=0)
    status_enum.value.add(name="DONE", number=1)
    operation = message(
        "Operation",
        op_field(string("name", 1, proto3_optional=True, oneof_index=0), ex_ops_pb2.NAME),
        op_field(string("http_error_message", 2, proto3_optional=True, oneof_index=1),
                 ex_ops_pb2.ERROR_MESSAGE),
        op_field(int32("http_error_status_code", 3, proto3_optional=True, oneof_index=2),
                 ex_ops_pb2.ERROR_CODE),
        op_field(field("status", 4, F.TYPE_ENUM, type_name=f"{P}.Operation.Status",
                       proto3_optional=True, oneof_index=3), ex_ops_pb2.STATUS),
        oneofs=("_name", "_http_error_message", "_http_error_status_code", "_status"),
        enums=(status_enum,))

    get_op = message("GetRegionOperationRequest",
                     string("operation", 1, required=True),
                     string("project", 2, required=True),
                     string("region", 3, required=True))
    get_op.field[0].options.Extensions[ex_ops_pb2.operation_response_field] = "name"
    insert = message("InsertAddressRequest",
                     msg_field("address_resource", 1, f"{P}.Address"),
                     string("project", 2), string("region", 3))
    insert.field[1].options.Extensions[ex_ops_pb2.operation_request_field] = "project"
    insert.field[2].options.Extensions[ex_ops_pb2.operation_request_field] = "region"
    messages = [
        operation, get_op, insert,
        message("Address", string("address", 1, proto3_optional=True, oneof_index=0),
                oneofs=("_address",)),
        message("ListAddressesRequest", string("project", 1), string("region", 2),
                int32("max_results", 3), string("page_token", 4)),
        message("AddressList", msg_field("items", 1, f"{P}.Address", label=F.LABEL_REPEATED),
                string("next_page_token", 2)),
    ]
    region_ops = service(
        "RegionOperations", "compute.example.com",
        method("Get", f"{P}.GetRegionOperationRequest", f"{P}.Operation",
               signatures=["project,region,operation"], polling=True,
               http=("get", "/compute/v1/projects/{project}/regions/{region}/operations/{operation}", None)))
    addresses = service(
        "Addresses", "compute.example.com",
        method("Insert", f"{P}.InsertAddressRequest", f"{P}.Operation",
               signatures=["project,region,address_resource"], op_service="RegionOperations",
               http=("post", "/compute/v1/projects/{project}/regions/{region}/addresses",
                     "address_resource")),
        method("List", f"{P}.ListAddressesRequest", f"{P}.AddressList",
               signatures=["project,region"],
               http=("get", "/compute/v1/projects/{project}/regions/{region}/addresses", None)))
    return [proto_file("acme/compute/v1/compute.proto", package, deps, messages,
                       [region_ops, addresses])]


# --------------------------------------------------------------------------
# Case 4: several services over two files, one of them in a sub-package whose
# requests come from the parent package; add-iam-methods; explicit naming.
# --------------------------------------------------------------------------
def multi_files():
    package = "acme.multi.v2"
    P = "." + package
    core_msgs = [
        message("Widget", string("name", 1), string("global", 2)),
        message("GetWidgetRequest", string("name", 1)),
        message("MakeWidgetRequest", string("parent", 1), msg_field("widget", 2, f"{P}.Widget")),
        message("MakeWidgetMetadata"),
    ]
    widgets = service(
        "Widgets", "multi.example.com",
        method("GetWidget", f"{P}.GetWidgetRequest", f"{P}.Widget", signatures=["name"]),
        method("MakeWidget", f"{P}.MakeWidgetRequest", ".google.longrunning.Operation",
               signatures=["parent,widget"], lro=("Widget", "MakeWidgetMetadata")),
        method("Await", f"{P}.GetWidgetRequest", ".google.protobuf.Empty"),
    )
    plain = service(
        "Plain", "multi.example.com",
        method("Echo", f"{P}.Widget", f"{P}.Widget"),
        method("Return", f"{P}.Widget", f"{P}.Widget", client_streaming=True),
    )
    core = proto_file("acme/multi/v2/core.proto", package, COMMON_DEPS, core_msgs,
                      [widgets, plain])

    sub_package = package + ".admin"
    S = "." + sub_package
    admin_msgs = [
        message("AuditRequest", string("name", 1),
                field("scopes", 2, F.TYPE_STRING, label=F.LABEL_REPEATED)),
        message("AuditReply", string("verdict", 1)),
    ]
    admin = service(
        "Admin", "multi.example.com",
        method("Audit", f"{S}.AuditRequest", f"{S}.AuditReply", signatures=["name,scopes"]),
        method("AuditWidget", f"{P}.GetWidgetRequest", f"{P}.Widget", signatures=["name"]),
        method("WatchWidget", f"{P}.GetWidgetRequest", f"{P}.Widget", server_streaming=True),
    )
    sub = proto_file("acme/multi/v2/admin/admin.proto", sub_package,
                     COMMON_DEPS + ["acme/multi/v2/core.proto"], admin_msgs, [admin])
    return [core, sub]


# --------------------------------------------------------------------------
# Case 5: a service without any method, and one with only streaming methods.
# --------------------------------------------------------------------------
def sparse_files():
    package = "acme.sparse.v1beta1"
    P = "." + package
    msgs = [message("Blob", field("data", 1, F.TYPE_BYTES))]
    empty = service("Hollow", "sparse.example.com")
    streams = service(
        "Streams", "sparse.example.com",
        method("Up", f"{P}.Blob", ".google.protobuf.Empty", client_streaming=True),
        method("Down", ".google.protobuf.Empty", f"{P}.Blob", server_streaming=True),
        method("Both", f"{P}.Blob", ".google.longrunning.Operation",
               client_streaming=True, server_streaming=True),
    )
    return [proto_file("acme/sparse/v1beta1/sparse.proto", package, COMMON_DEPS, msgs,
                       [empty, streams])]


def build_cases(scratch):
    yaml_path = os.path.join(scratch, "deps_v1alpha2.yaml")
    with open(yaml_path, "w") as fh:
        fh.write(DEPS_SERVICE_YAML)
    return [
        dict(name="library-grpc", package="acme.library.v1",
             files=with_dependencies(*library_files()), opts=""),
        dict(name="library-grpc+rest-nosnippets", package="acme.library.v1",
             files=with_dependencies(*library_files()),
             opts="transport=grpc+rest,autogen-snippets=false,rest-numeric-enums"),
        dict(name="deps-mixins-grpc+rest", package="acme.deps.v1alpha2",
             files=with_dependencies(*deps_files(raw_operation=False)),
             opts=f"transport=grpc+rest,rest-numeric-enums,autogen-snippets=false,service-yaml={yaml_path}"),
        dict(name="deps-nomixins-grpc", package="acme.deps.v1alpha2",
             files=with_dependencies(*deps_files()), opts="transport=grpc"),
        dict(name="compute-extended-lro", package="acme.compute.v1",
             files=with_dependencies(*compute_files()), opts="transport=grpc+rest"),
        dict(name="multi-subpackage-iam", package="acme.multi.v2",
             files=with_dependencies(*multi_files()),
             opts="python-gapic-namespace=Acme,python-gapic-name=multi,add-iam-methods,autogen-snippets=false"),
        dict(name="sparse-streams", package="acme.sparse.v1beta1",
             files=with_dependencies(*sparse_files()), opts="transport=grpc"),
    ]


def run_worker(tree, worker_path, in_path, out_path):
    env = {k: v for k, v in os.environ.items() if k not in ("PYTHONPATH", "PYTHONSTARTUP")}
    env["PYTHONHASHSEED"] = "0"
    env["PYTHONDONTWRITEBYTECODE"] = "1"
    proc = subprocess.run(
        [sys.executable, worker_path, tree, in_path, out_path],
        cwd=os.path.dirname(in_path), env=env, capture_output=True, text=True)
    if proc.returncode != 0:
        sys.stderr.write(proc.stdout[-4000:])
        sys.stderr.write(proc.stderr[-8000:])
        raise SystemExit(f"worker failed for tree {tree}")
    with open(out_path, "rb") as fh:
        return pickle.load(fh)


def main(argv):
    if len(argv) != 2:
        print(__doc__)
        return 2
    checkout = os.path.realpath(argv[1])
    scratch = tempfile.mkdtemp(prefix="twin-demo-W03-")
    try:
        old_tree = os.path.join(scratch, "old")
        os.mkdir(old_tree)
        archive = subprocess.Popen(["git", "-C", checkout, "archive", "HEAD"],
                                   stdout=subprocess.PIPE)
        subprocess.check_call(["tar", "-x", "-C", old_tree], stdin=archive.stdout)
        archive.stdout.close()
        if archive.wait() != 0:
            raise SystemExit("git archive failed")

        cases = build_cases(scratch)
        in_path = os.path.join(scratch, "cases.pickle")
        with open(in_path, "wb") as fh:
            pickle.dump(cases, fh)
        worker_path = os.path.join(scratch, "worker.py")
        with open(worker_path, "w") as fh:
            fh.write(WORKER)

        old = run_worker(old_tree, worker_path, in_path, os.path.join(scratch, "old.pickle"))
        new = run_worker(checkout, worker_path, in_path, os.path.join(scratch, "new.pickle"))

        differences, total = [], 0
        for case in cases:
            a, b = old[case["name"]], new[case["name"]]
            for fname in sorted(set(a) | set(b)):
                total += 1
                if fname not in a:
                    differences.append(f"{case['name']}: only after the change: {fname}")
                elif fname not in b:
                    differences.append(f"{case['name']}: only before the change: {fname}")
                elif a[fname] != b[fname]:
                    differences.append(f"{case['name']}: content differs: {fname}")
        if differences:
            print(f"DIFFERENT: {len(differences)} of {total} files differ")
            for line in differences:
                print("  " + line)
            return 1
        print(f"IDENTICAL: {len(cases)} APIs, {total} generated files byte-for-byte equal "
              f"(old = HEAD export, new = {checkout})")
        return 0
    finally:
        shutil.rmtree(scratch, ignore_errors=True)


if __name__ == "__main__":
    sys.exit(main(sys.argv))
