#!/usr/bin/env python
"""Equivalence demo for the U10 refactoring (property C10, deterministic generation).

Usage:  /venv/bin/python demo.py <path-to-a-checkout-with-the-change>

The driver
  * exports the checkout's HEAD (``git archive HEAD``) into a temp dir  -> "base" tree,
  * uses the checkout's working tree itself                            -> "new" tree,
  * builds several API descriptions (FileDescriptorProtos made in Python),
  * runs the generator on every case with both trees, each in its own
    subprocess (same PYTHONHASHSEED for the two trees; two different seeds are
    tried), and
  * compares the ordered list of output file names and every file's bytes.

Exit status 0 and a one-line summary when everything is identical, 1 otherwise.
"""

import json
import os
import pickle
import shutil
import subprocess
import sys
import tempfile

HASH_SEEDS = ("0", "4242")


# ---------------------------------------------------------------------------
# Worker: runs inside a subprocess, with exactly one tree importable.
# ---------------------------------------------------------------------------
def worker(tree: str, in_path: str, out_path: str) -> int:
    tree = os.path.realpath(tree)

    # The venv has an editable install of another checkout.  Drop its meta
    # path finder, its path hook and its placeholder path entry, and every
    # path entry that could provide a `gapic` package (`gapic` is a namespace
    # package, so a second provider would be merged into `gapic.__path__`);
    # put the tree under test first.
    def _is_editable(obj) -> bool:
        names = (
            str(getattr(obj, "__module__", "")),
            str(getattr(type(obj), "__module__", "")),
            str(getattr(obj, "__qualname__", "")),
        )
        return any("__editable__" in n or "_Editable" in n for n in names)

    sys.meta_path[:] = [f for f in sys.meta_path if not _is_editable(f)]
    sys.path_hooks[:] = [h for h in sys.path_hooks if not _is_editable(h)]
    kept = []
    for entry in sys.path:
        if "__editable__" in entry or entry.endswith(".__path_hook__"):
            continue
        real = os.path.realpath(entry or os.getcwd())
        if real == tree:
            continue
        if os.path.isdir(os.path.join(real, "gapic")):
            continue
        kept.append(entry)
    sys.path[:] = [tree] + kept
    sys.path_importer_cache.clear()
    for name in [m for m in sys.modules if m == "gapic" or m.startswith("gapic.")]:
        del sys.modules[name]
    for name in [m for m in sys.modules if m.startswith("__editable__")]:
        del sys.modules[name]

    # pandoc is not installed: stub the conversion identically for both runs.
    import pypandoc  # type: ignore

    def fake_convert_text(text, to=None, format=None, extra_args=(), **kwargs):
        return "[[rst:" + " ".join(str(a) for a in extra_args) + "]]\n" + str(text)

    pypandoc.convert_text = fake_convert_text

    import warnings

    warnings.simplefilter("ignore")

    from google.protobuf import descriptor_pb2

    import gapic
    from gapic.generator import generator
    from gapic.schema import api
    from gapic.utils import Options

    with open(in_path, "rb") as f:
        cases = pickle.load(f)

    results = {}
    for case in cases:
        fds = [descriptor_pb2.FileDescriptorProto.FromString(b) for b in case["fds"]]
        opts = Options.build(case["opts"])
        for tpl_dir in opts.templates:
            assert os.path.realpath(tpl_dir).startswith(tree + os.sep), (tpl_dir, tree)
        api_schema = api.API.build(fds, opts=opts, package=case["package"])
        res = generator.Generator(opts).get_response(api_schema, opts)
        results[case["name"]] = {
            "order": [f.name for f in res.file],
            "files": {f.name: f.content for f in res.file},
            "features": res.supported_features,
            "serialized": res.SerializeToString(deterministic=True),
        }

    # Every gapic module, and the templates, must come from the tree under test.
    loaded = 0
    for name, mod in list(sys.modules.items()):
        if name == "gapic" or name.startswith("gapic."):
            origin = getattr(mod, "__file__", None)
            if origin is None:
                paths = [os.path.realpath(p) for p in getattr(mod, "__path__", [])]
                assert paths and all(p.startswith(tree + os.sep) for p in paths), (
                    name,
                    paths,
                )
            else:
                assert os.path.realpath(origin).startswith(tree + os.sep), (
                    name,
                    origin,
                )
            loaded += 1
    assert loaded > 10, loaded
    assert [os.path.realpath(p) for p in gapic.__path__] == [
        os.path.join(tree, "gapic")
    ], list(gapic.__path__)

    with open(out_path, "wb") as f:
        pickle.dump(results, f)
    return 0


# ---------------------------------------------------------------------------
# Driver helpers: build FileDescriptorProtos in Python.
# ---------------------------------------------------------------------------
def _closure(*pb2_modules):
    """FileDescriptorProtos of the given generated modules and of all their
    transitive dependencies, dependencies first."""
    from google.protobuf import descriptor_pb2

    seen = {}

    def visit(fd):
        if fd.name in seen:
            return
        for dep in fd.dependencies:
            visit(dep)
        proto = descriptor_pb2.FileDescriptorProto()
        fd.CopyToProto(proto)
        seen[fd.name] = proto

    for mod in pb2_modules:
        visit(mod.DESCRIPTOR)
    return list(seen.values())


def _build_cases(scratch: str):
    from google.api import annotations_pb2, client_pb2, field_behavior_pb2
    from google.api import resource_pb2
    from google.longrunning import operations_pb2
    from google.protobuf import descriptor_pb2 as d
    from google.protobuf import duration_pb2, empty_pb2, field_mask_pb2
    from google.protobuf import timestamp_pb2

    F = d.FieldDescriptorProto
    SCALARS = {
        "string": F.TYPE_STRING,
        "int32": F.TYPE_INT32,
        "int64": F.TYPE_INT64,
        "bool": F.TYPE_BOOL,
        "double": F.TYPE_DOUBLE,
        "bytes": F.TYPE_BYTES,
    }

    def field(
        name,
        number,
        typ,
        *,
        repeated=False,
        enum=False,
        oneof=None,
        optional=False,
        required=False,
        reference=None,
        child_reference=None,
    ):
        fd = F(name=name, number=number)
        fd.label = F.LABEL_REPEATED if repeated else F.LABEL_OPTIONAL
        if typ in SCALARS:
            fd.type = SCALARS[typ]
        else:
            fd.type = F.TYPE_ENUM if enum else F.TYPE_MESSAGE
            fd.type_name = typ
        if oneof is not None:
            fd.oneof_index = oneof
        if optional:
            fd.proto3_optional = True
        if required:
            fd.options.Extensions[field_behavior_pb2.field_behavior].append(
                field_behavior_pb2.REQUIRED
            )
        if reference:
            fd.options.Extensions[resource_pb2.resource_reference].type = reference
        if child_reference:
            fd.options.Extensions[resource_pb2.resource_reference].child_type = (
                child_reference
            )
        return fd

    def message(name, fields, *, oneofs=(), nested=(), enums=(), resource=None):
        m = d.DescriptorProto(name=name)
        m.field.extend(fields)
        for o in oneofs:
            m.oneof_decl.add(name=o)
        # proto3 optional fields need synthetic oneofs (after the real ones).
        for f in m.field:
            if f.proto3_optional:
                f.oneof_index = len(m.oneof_decl)
                m.oneof_decl.add(name="_" + f.name)
        m.nested_type.extend(nested)
        m.enum_type.extend(enums)
        if resource:
            r = m.options.Extensions[resource_pb2.resource]
            r.type = resource[0]
            r.pattern.extend(resource[1:])
        return m

    def map_entry(name, key_type, value_type, value_is_enum=False):
        m = d.DescriptorProto(name=name)
        m.field.append(field("key", 1, key_type))
        m.field.append(field("value", 2, value_type, enum=value_is_enum))
        m.options.map_entry = True
        return m

    def enum(name, *values):
        e = d.EnumDescriptorProto(name=name)
        for i, v in enumerate(values):
            e.value.add(name=v, number=i)
        return e

    def method(
        name,
        inp,
        out,
        *,
        http=None,
        body=None,
        extra_http=(),
        signatures=(),
        client_streaming=False,
        server_streaming=False,
        lro=None,
    ):
        m = d.MethodDescriptorProto(
            name=name,
            input_type=inp,
            output_type=out,
            client_streaming=client_streaming,
            server_streaming=server_streaming,
        )
        if http:
            rule = m.options.Extensions[annotations_pb2.http]
            setattr(rule, http[0], http[1])
            if body:
                rule.body = body
            for verb, path, extra_body in extra_http:
                add = rule.additional_bindings.add()
                setattr(add, verb, path)
                if extra_body:
                    add.body = extra_body
        for sig in signatures:
            m.options.Extensions[client_pb2.method_signature].append(sig)
        if lro:
            info = m.options.Extensions[operations_pb2.operation_info]
            info.response_type, info.metadata_type = lro
        return m

    def service(name, methods, *, host="example.googleapis.com", scopes=()):
        s = d.ServiceDescriptorProto(name=name)
        s.method.extend(methods)
        if host:
            s.options.Extensions[client_pb2.default_host] = host
        if scopes:
            s.options.Extensions[client_pb2.oauth_scopes] = ",".join(scopes)
        return s

    def file(name, package, *, deps=(), messages=(), enums=(), services=()):
        fd = d.FileDescriptorProto(name=name, package=package, syntax="proto3")
        fd.dependency.extend(deps)
        fd.message_type.extend(messages)
        fd.enum_type.extend(enums)
        fd.service.extend(services)
        return fd

    common = _closure(
        annotations_pb2,
        client_pb2,
        field_behavior_pb2,
        resource_pb2,
        operations_pb2,
        duration_pb2,
        empty_pb2,
        field_mask_pb2,
        timestamp_pb2,
    )
    std_deps = [
        "google/api/annotations.proto",
        "google/api/client.proto",
        "google/api/field_behavior.proto",
        "google/api/resource.proto",
        "google/longrunning/operations.proto",
        "google/protobuf/duration.proto",
        "google/protobuf/empty.proto",
        "google/protobuf/field_mask.proto",
        "google/protobuf/timestamp.proto",
    ]

    def serialize(fds):
        return [fd.SerializeToString(deterministic=True) for fd in common + fds]

    # ------------------------------------------------------------------ library
    P = "google.example.library.v1"
    Q = "." + P
    book = message(
        "Book",
        [
            field("name", 1, "string"),
            field("author", 2, "string"),
            field("class", 3, "string"),  # reserved word
            field("from", 4, "int32"),  # reserved word
            field("genre", 5, Q + ".Genre", enum=True),
            field("labels", 6, Q + ".Book.LabelsEntry", repeated=True),
            field("chapters", 7, Q + ".Book.Chapter", repeated=True),
            field("isbn", 8, "string", oneof=0),
            field("shelf_mark", 9, "int64", oneof=0),
            field("rating", 10, "double", optional=True),
            field("published", 11, ".google.protobuf.Timestamp"),
            field("shelf", 12, "string", reference="library.example.com/Shelf"),
            field("condition", 13, Q + ".Book.Condition", enum=True),
            field("genre_counts", 14, Q + ".Book.GenreCountsEntry", repeated=True),
        ],
        oneofs=["identifier"],
        nested=[
            map_entry("LabelsEntry", "string", "string"),
            map_entry("GenreCountsEntry", "string", Q + ".Genre", value_is_enum=True),
            message(
                "Chapter",
                [
                    field("title", 1, "string"),
                    field("pages", 2, "int32"),
                    field("footnotes", 3, Q + ".Book.Chapter.Footnote", repeated=True),
                ],
                nested=[message("Footnote", [field("text", 1, "string")])],
            ),
        ],
        enums=[enum("Condition", "CONDITION_UNSPECIFIED", "NEW", "USED")],
        resource=(
            "library.example.com/Book",
            "shelves/{shelf}/books/{book}",
            "archives/{archive}/books/{book}",
        ),
    )
    shelf = message(
        "Shelf",
        [
            field("name", 1, "string"),
            field("theme", 2, "string"),
            field("featured", 3, Q + ".Book"),
        ],
        resource=("library.example.com/Shelf", "shelves/{shelf}"),
    )
    # Two resources whose type name is the same ("Item") under different
    # domains: equal first sort key for `resource_messages|sort(...)`.
    item_a = message(
        "StoreItem",
        [field("name", 1, "string")],
        resource=("store.example.com/Item", "stores/{store}/items/{item}"),
    )
    item_b = message(
        "DepotItem",
        [field("name", 1, "string")],
        resource=("depot.example.com/Item", "depots/{depot}/items/{item}"),
    )
    library_types = file(
        "google/example/library/v1/resources.proto",
        P,
        deps=std_deps,
        messages=[book, shelf, item_a, item_b],
        enums=[enum("Genre", "GENRE_UNSPECIFIED", "FICTION", "SCIENCE")],
    )
    library_svc = file(
        "google/example/library/v1/library.proto",
        P,
        deps=std_deps + ["google/example/library/v1/resources.proto"],
        messages=[
            message(
                "GetBookRequest",
                [
                    field(
                        "name",
                        1,
                        "string",
                        required=True,
                        reference="library.example.com/Book",
                    )
                ],
            ),
            message(
                "ListBooksRequest",
                [
                    field(
                        "parent",
                        1,
                        "string",
                        required=True,
                        child_reference="library.example.com/Book",
                    ),
                    field("page_size", 2, "int32"),
                    field("page_token", 3, "string"),
                    field("filter", 4, "string"),
                ],
            ),
            message(
                "ListBooksResponse",
                [
                    field("books", 1, Q + ".Book", repeated=True),
                    field("next_page_token", 2, "string"),
                ],
            ),
            message(
                "CreateBookRequest",
                [
                    field(
                        "parent",
                        1,
                        "string",
                        required=True,
                        reference="library.example.com/Shelf",
                    ),
                    field("book", 2, Q + ".Book", required=True),
                    field("book_id", 3, "string"),
                ],
            ),
            message(
                "UpdateBookRequest",
                [
                    field("book", 1, Q + ".Book", required=True),
                    field("update_mask", 2, ".google.protobuf.FieldMask"),
                ],
            ),
            message(
                "DeleteBookRequest",
                [
                    field(
                        "name",
                        1,
                        "string",
                        required=True,
                        reference="library.example.com/Book",
                    )
                ],
            ),
            message(
                "MoveItemsRequest",
                [
                    field(
                        "source", 1, "string", reference="store.example.com/Item"
                    ),
                    field(
                        "destination", 2, "string", reference="depot.example.com/Item"
                    ),
                    field("ttl", 3, ".google.protobuf.Duration"),
                ],
            ),
            message("MoveItemsResponse", [field("moved", 1, "int32")]),
            message("MoveItemsMetadata", [field("progress", 1, "int32")]),
            message(
                "StreamBooksRequest",
                [field("shelf", 1, "string", reference="library.example.com/Shelf")],
            ),
            message(
                "GetShelfRequest",
                [
                    field(
                        "name",
                        1,
                        "string",
                        required=True,
                        reference="library.example.com/Shelf",
                    )
                ],
            ),
            message("DiscussRequest", [field("text", 1, "string")]),
            message("DiscussResponse", [field("text", 1, "string")]),
        ],
        services=[
            service(
                "Library",
                [
                    method(
                        "GetBook",
                        Q + ".GetBookRequest",
                        Q + ".Book",
                        http=("get", "/v1/{name=shelves/*/books/*}"),
                        extra_http=[("get", "/v1/{name=archives/*/books/*}", None)],
                        signatures=["name"],
                    ),
                    method(
                        "ListBooks",
                        Q + ".ListBooksRequest",
                        Q + ".ListBooksResponse",
                        http=("get", "/v1/{parent=shelves/*}/books"),
                        signatures=["parent"],
                    ),
                    method(
                        "CreateBook",
                        Q + ".CreateBookRequest",
                        Q + ".Book",
                        http=("post", "/v1/{parent=shelves/*}/books"),
                        body="book",
                        signatures=["parent,book,book_id", "parent,book"],
                    ),
                    method(
                        "UpdateBook",
                        Q + ".UpdateBookRequest",
                        Q + ".Book",
                        http=("patch", "/v1/{book.name=shelves/*/books/*}"),
                        body="book",
                        signatures=["book,update_mask"],
                    ),
                    method(
                        "DeleteBook",
                        Q + ".DeleteBookRequest",
                        ".google.protobuf.Empty",
                        http=("delete", "/v1/{name=shelves/*/books/*}"),
                        signatures=["name"],
                    ),
                    method(
                        "MoveItems",
                        Q + ".MoveItemsRequest",
                        ".google.longrunning.Operation",
                        http=("post", "/v1/{source=stores/*/items/*}:move"),
                        body="*",
                        lro=("MoveItemsResponse", "MoveItemsMetadata"),
                    ),
                    method(
                        "StreamBooks",
                        Q + ".StreamBooksRequest",
                        Q + ".Book",
                        http=("get", "/v1/{shelf=shelves/*}:stream"),
                        server_streaming=True,
                    ),
                    method(
                        "UploadBooks",
                        Q + ".Book",
                        Q + ".ListBooksResponse",
                        client_streaming=True,
                    ),
                    method(
                        "Discuss",
                        Q + ".DiscussRequest",
                        Q + ".DiscussResponse",
                        client_streaming=True,
                        server_streaming=True,
                    ),
                ],
                host="library.example.com",
                scopes=[
                    "https://www.googleapis.com/auth/cloud-platform",
                    "https://www.googleapis.com/auth/books",
                ],
            ),
            service(
                "Shelves",
                [
                    method(
                        "GetShelf",
                        Q + ".GetShelfRequest",
                        Q + ".Shelf",
                        http=("get", "/v1/{name=shelves/*}"),
                        signatures=["name"],
                    ),
                ],
                host="library.example.com:8443",
            ),
        ],
    )
    library = serialize([library_types, library_svc])

    retry_path = os.path.join(scratch, "library_grpc_service_config.json")
    with open(retry_path, "w") as f:
        json.dump(
            {
                "methodConfig": [
                    {
                        # (a selector must name the method to be honoured)
                        "name": [{"service": P + ".Library"}]
                        + [
                            {"service": P + ".Library", "method": m}
                            for m in ("ListBooks", "CreateBook", "MoveItems", "StreamBooks")
                        ],
                        "timeout": "60s",
                        "retryPolicy": {
                            "maxAttempts": 5,
                            "initialBackoff": "0.1s",
                            "maxBackoff": "60s",
                            "backoffMultiplier": 1.3,
                            "retryableStatusCodes": [
                                "UNAVAILABLE",
                                "DEADLINE_EXCEEDED",
                                "ABORTED",
                                "INTERNAL",
                                "RESOURCE_EXHAUSTED",
                            ],
                        },
                    },
                    {
                        "name": [{"service": P + ".Library", "method": "GetBook"}],
                        "timeout": "10s",
                        "retryPolicy": {
                            "initialBackoff": "1s",
                            "retryableStatusCodes": ["UNKNOWN", "UNAVAILABLE"],
                        },
                    },
                    {
                        # a retry policy without any retryable code
                        "name": [{"service": P + ".Library", "method": "DeleteBook"}],
                        "retryPolicy": {"maxBackoff": "2.5s"},
                    },
                    {
                        "name": [{"service": P + ".Shelves", "method": "GetShelf"}],
                        "timeout": "5s",
                    },
                ]
            },
            f,
        )

    mixin_yaml = os.path.join(scratch, "library_v1.yaml")
    with open(mixin_yaml, "w") as f:
        f.write(
            "type: google.api.Service\n"
            "config_version: 3\n"
            "name: library.example.com\n"
            "apis:\n"
            "- name: google.example.library.v1.Library\n"
            "- name: google.cloud.location.Locations\n"
            "- name: google.iam.v1.IAMPolicy\n"
            "- name: google.longrunning.Operations\n"
            "publishing:\n"
            "  library_settings:\n"
            "  - version: google.example.library.v1\n"
            "    python_settings:\n"
            "      experimental_features:\n"
            "        rest_async_io_enabled: true\n"
        )
    unversioned_yaml = os.path.join(scratch, "library_v1_unversioned.yaml")
    with open(unversioned_yaml, "w") as f:
        f.write(
            "type: google.api.Service\n"
            "config_version: 3\n"
            "name: library.example.com\n"
            "publishing:\n"
            "  library_settings:\n"
            "  - version: google.example.library.v1\n"
            "    python_settings:\n"
            "      experimental_features:\n"
            "        unversioned_package_disabled: true\n"
            "  - version: google.example.library.v2\n"
            "    python_settings:\n"
            "      experimental_features:\n"
            "        rest_async_io_enabled: true\n"
        )

    # --------------------------------------------------------------- sub-packages
    M = "google.example.multi.v1"
    multi_root = file(
        "google/example/multi/v1/root.proto",
        M,
        deps=std_deps,
        messages=[
            message(
                "Thing",
                [field("name", 1, "string"), field("kind", 2, ".%s.Kind" % M, enum=True)],
                resource=("multi.example.com/Thing", "things/{thing}"),
            ),
            message("GetThingRequest", [field("name", 1, "string")]),
        ],
        enums=[enum("Kind", "KIND_UNSPECIFIED", "BIG", "SMALL")],
        services=[
            service(
                "Things",
                [
                    method(
                        "GetThing",
                        ".%s.GetThingRequest" % M,
                        ".%s.Thing" % M,
                        http=("get", "/v1/{name=things/*}"),
                        signatures=["name"],
                    )
                ],
                host="multi.example.com",
            )
        ],
    )
    multi_only_enums = file(
        "google/example/multi/v1/only_enums.proto",
        M,
        enums=[enum("Colour", "COLOUR_UNSPECIFIED", "RED")],
    )
    multi_empty = file("google/example/multi/v1/nothing.proto", M)
    multi_sub = file(
        "google/example/multi/v1/admin/admin.proto",
        M + ".admin",
        deps=std_deps + ["google/example/multi/v1/root.proto"],
        messages=[
            message(
                "Audit",
                [
                    field("name", 1, "string"),
                    field("thing", 2, ".%s.Thing" % M),
                    field("kinds", 3, ".%s.Kind" % M, repeated=True, enum=True),
                ],
                resource=("multi.example.com/Audit", "audits/{audit}"),
            ),
            message(
                "ListAuditsRequest",
                [
                    field("parent", 1, "string"),
                    field("page_size", 2, "int32"),
                    field("page_token", 3, "string"),
                ],
            ),
            message(
                "ListAuditsResponse",
                [
                    field("audits", 1, ".%s.admin.Audit" % M, repeated=True),
                    field("next_page_token", 2, "string"),
                ],
            ),
        ],
        enums=[enum("Severity", "SEVERITY_UNSPECIFIED", "HIGH")],
        services=[
            service(
                "Auditor",
                [
                    method(
                        "ListAudits",
                        ".%s.admin.ListAuditsRequest" % M,
                        ".%s.admin.ListAuditsResponse" % M,
                        http=("get", "/v1/audits"),
                    ),
                    method(
                        "InspectThing",
                        ".%s.Thing" % M,
                        ".%s.admin.Audit" % M,
                        http=("post", "/v1/things:inspect"),
                        body="*",
                    ),
                ],
                host="multi.example.com",
            ),
            service("Idle", [], host="multi.example.com"),
        ],
    )
    multi_sub2 = file(
        "google/example/multi/v1/billing/billing.proto",
        M + ".billing",
        deps=std_deps,
        messages=[message("Invoice", [field("total", 1, "double")])],
    )
    multi = serialize(
        [multi_root, multi_only_enums, multi_empty, multi_sub, multi_sub2]
    )

    # ---------------------------------------------------- module-name collisions
    C = "google.example.clash.v1"
    other_a = file(
        "google/example/alpha/common.proto",
        "google.example.alpha",
        messages=[message("Alpha", [field("value", 1, "string")])],
    )
    other_b = file(
        "google/example/beta/common.proto",
        "google.example.beta",
        messages=[
            message(
                "Beta",
                [field("value", 1, "string"), field("alpha", 2, ".google.example.alpha.Alpha")],
            )
        ],
        enums=[enum("Level", "LEVEL_UNSPECIFIED", "LOW")],
        deps=["google/example/alpha/common.proto"],
    )
    clash = file(
        "google/example/clash/v1/clash.proto",
        C,
        deps=std_deps
        + ["google/example/alpha/common.proto", "google/example/beta/common.proto"],
        messages=[
            message(
                "Mix",
                [
                    field("alpha", 1, ".google.example.alpha.Alpha"),
                    field("beta", 2, ".google.example.beta.Beta"),
                    field("level", 3, ".google.example.beta.Level", enum=True),
                    field("import", 4, "string"),  # reserved word
                    field("clash", 5, "string"),  # same as the module name
                ],
            ),
            message("Import", [field("mix", 1, ".%s.Mix" % C)]),
        ],
        services=[
            service(
                "Clash",
                [
                    method(
                        "Mix",
                        ".google.example.alpha.Alpha",
                        ".%s.Mix" % C,
                        http=("post", "/v1/mix"),
                        body="*",
                    ),
                    method(
                        "Common",
                        ".google.example.beta.Beta",
                        ".google.example.alpha.Alpha",
                        http=("post", "/v1/common"),
                        body="*",
                    ),
                    method(
                        "Import",
                        ".%s.Import" % C,
                        ".google.protobuf.Empty",
                        http=("post", "/v1/import"),
                        body="*",
                    ),
                ],
                host="",
            ),
            service(
                "Plain",
                [method("Ping", ".google.protobuf.Empty", ".google.protobuf.Empty")],
                host="clash.example.com",
            ),
        ],
    )
    clash_fds = serialize([other_a, other_b, clash])

    # ------------------------------------------------------------- types only
    T = "google.example.bare.v1"
    bare = serialize(
        [
            file(
                "google/example/bare/v1/bare.proto",
                T,
                messages=[
                    message(
                        "Node",
                        [
                            field("children", 1, ".%s.Node" % T, repeated=True),
                            field("parent", 2, ".%s.Node" % T),
                        ],
                    )
                ],
            )
        ]
    )

    return [
        dict(
            name="library/grpc+retry+metadata",
            fds=library,
            package=P,
            opts="metadata,retry-config=" + retry_path,
        ),
        dict(
            name="library/rest+numeric-enums,no-snippets",
            fds=library,
            package=P,
            opts="transport=rest,rest-numeric-enums,autogen-snippets=false,retry-config="
            + retry_path,
        ),
        dict(
            name="library/grpc+rest,mixins,async-rest,iam",
            fds=library,
            package=P,
            opts="transport=grpc+rest,add-iam-methods,metadata,service-yaml="
            + mixin_yaml
            + ",retry-config="
            + retry_path,
        ),
        dict(
            name="library/rest,unversioned-package-disabled",
            fds=library,
            package=P,
            opts="transport=rest,service-yaml=" + unversioned_yaml,
        ),
        dict(
            name="multi/sub-packages,grpc+rest",
            fds=multi,
            package=M,
            # (autogenerated snippets crash, in both trees, for services that
            # live in a sub-package - unrelated to this change)
            opts="transport=grpc+rest,metadata,autogen-snippets=false",
        ),
        dict(
            name="multi/sub-packages,rest-only",
            fds=multi,
            package=M,
            opts="transport=rest,autogen-snippets=false",
        ),
        dict(name="clash/collisions,grpc", fds=clash_fds, package=C, opts=""),
        dict(
            name="clash/collisions,lazy-import",
            fds=clash_fds,
            package=C,
            opts="lazy-import,transport=grpc+rest,python-gapic-name=clashing,"
            "python-gapic-namespace=acme",
        ),
        dict(name="bare/types-only", fds=bare, package=T, opts="metadata"),
    ]


# ---------------------------------------------------------------------------
# Driver
# ---------------------------------------------------------------------------
def main(argv) -> int:
    if len(argv) >= 2 and argv[1] == "--worker":
        return worker(*argv[2:5])
    if len(argv) != 2:
        print(__doc__)
        return 2

    checkout = os.path.realpath(argv[1])
    scratch = tempfile.mkdtemp(prefix="twin-demo-U10-")
    try:
        base = os.path.join(scratch, "base")
        os.mkdir(base)
        archive = subprocess.Popen(
            ["git", "-C", checkout, "archive", "HEAD"], stdout=subprocess.PIPE
        )
        subprocess.run(["tar", "-x", "-C", base], stdin=archive.stdout, check=True)
        archive.stdout.close()
        if archive.wait() != 0:
            print("git archive failed")
            return 1

        cases = _build_cases(scratch)
        in_path = os.path.join(scratch, "cases.pickle")
        with open(in_path, "wb") as f:
            pickle.dump(cases, f)

        procs = []
        for seed in HASH_SEEDS:
            for label, tree in (("base", base), ("new", checkout)):
                out_path = os.path.join(scratch, "out-%s-%s.pickle" % (label, seed))
                env = {
                    k: v
                    for k, v in os.environ.items()
                    if k not in ("PYTHONPATH", "PYTHONSTARTUP")
                    and not k.startswith("COVERAGE")
                }
                env["PYTHONHASHSEED"] = seed
                env["PYTHONDONTWRITEBYTECODE"] = "1"
                p = subprocess.Popen(
                    [
                        sys.executable,
                        os.path.abspath(__file__),
                        "--worker",
                        tree,
                        in_path,
                        out_path,
                    ],
                    cwd=scratch,
                    env=env,
                )
                procs.append((seed, label, out_path, p))

        failed = False
        for seed, label, out_path, p in procs:
            if p.wait() != 0:
                print("worker failed: tree=%s seed=%s" % (label, seed))
                failed = True
        if failed:
            return 1

        differences = []
        n_files = 0
        for seed in HASH_SEEDS:
            loaded = {}
            for s, label, out_path, _ in procs:
                if s == seed:
                    with open(out_path, "rb") as f:
                        loaded[label] = pickle.load(f)
            base_res, new_res = loaded["base"], loaded["new"]
            assert list(base_res) == list(new_res) == [c["name"] for c in cases]
            for case in base_res:
                b, n = base_res[case], new_res[case]
                assert len(b["files"]) > 5, (case, len(b["files"]))
                tag = "[seed %s] %s" % (seed, case)
                if b["order"] != n["order"]:
                    if sorted(b["order"]) == sorted(n["order"]):
                        differences.append(tag + ": same files, different ORDER")
                    for name in sorted(set(b["order"]) - set(n["order"])):
                        differences.append(tag + ": only in base: " + name)
                    for name in sorted(set(n["order"]) - set(b["order"])):
                        differences.append(tag + ": only in new: " + name)
                for name in b["files"]:
                    n_files += 1
                    if name in n["files"] and b["files"][name] != n["files"][name]:
                        differences.append(tag + ": content differs: " + name)
                if b["features"] != n["features"]:
                    differences.append(tag + ": supported_features differ")
                if not differences and b["serialized"] != n["serialized"]:
                    differences.append(tag + ": serialized response differs")

        if differences:
            print("DIFFERENT: %d difference(s)" % len(differences))
            for line in differences:
                print("  " + line)
            return 1
        print(
            "IDENTICAL: %d cases x %d hash seeds, %d output files compared byte for "
            "byte (names, order, contents, serialized response)"
            % (len(cases), len(HASH_SEEDS), n_files)
        )
        return 0
    finally:
        shutil.rmtree(scratch, ignore_errors=True)


if __name__ == "__main__":
    sys.exit(main(sys.argv))
