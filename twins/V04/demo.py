#!/usr/bin/env python
"""Equivalence demo for the V04 (property C04) refactoring.

Usage:  /venv/bin/python demo.py <path-to-a-checkout-with-the-change>

* exports the pristine HEAD of the checkout (`git archive HEAD | tar -x`),
* builds several API descriptions (in Python, no protoc) that exercise the
  REST transcoding templates and `Method.http_opt/query_params/body_fields`,
* runs the generator on each description with BOTH trees (one sub-process per
  tree, so the two copies of the `gapic` package never mix),
* compares every generated file byte for byte.

Exit code 0 + one summary line when identical, 1 (listing the files) otherwise.
"""
import hashlib
import os
import pickle
import shutil
import subprocess
import sys
import tempfile

PYTHON = sys.executable

# --------------------------------------------------------------------------
# Worker: runs inside a sub-process, for ONE tree.
# --------------------------------------------------------------------------


def _isolate_gapic(tree):
    """Make `import gapic` resolve to <tree>/gapic and nothing else."""
    import importlib.machinery

    tree = os.path.realpath(tree)

    # 1. Drop sys.path entries that could provide another `gapic` (including
    #    the path hook entry of the editable install and the script dir / cwd).
    kept = []
    for entry in sys.path:
        if entry == "" or "__editable__" in entry:
            continue
        real = os.path.realpath(entry)
        if real != tree and os.path.isdir(os.path.join(real, "gapic")):
            continue
        kept.append(entry)
    sys.path[:] = [tree] + [e for e in kept if os.path.realpath(e) != tree]

    # 2. Drop every non-standard meta path finder that resolves `gapic`
    #    somewhere else (e.g. the `__editable__...finder._EditableFinder`).
    for finder in list(sys.meta_path):
        if finder is importlib.machinery.PathFinder:
            continue
        name = getattr(finder, "__module__", "") + "." + getattr(
            finder, "__name__", type(finder).__name__
        )
        if "__editable__" in name:
            sys.meta_path.remove(finder)
            continue
        find_spec = getattr(finder, "find_spec", None)
        if find_spec is None:
            continue
        try:
            spec = find_spec("gapic", None)
        except Exception:
            spec = None
        if spec is not None:
            sys.meta_path.remove(finder)
    sys.path_importer_cache.clear()
    for mod in [m for m in sys.modules if m == "gapic" or m.startswith("gapic.")]:
        del sys.modules[mod]


def _assert_from_tree(tree, opts):
    tree = os.path.realpath(tree) + os.sep
    bad = []
    for name, mod in sorted(sys.modules.items()):
        if name == "gapic" or name.startswith("gapic."):
            origin = getattr(mod, "__file__", None)
            if origin is None:
                paths = list(getattr(mod, "__path__", []))
                if not paths or not all(
                    os.path.realpath(p).startswith(tree) for p in paths
                ):
                    bad.append((name, paths))
            elif not os.path.realpath(origin).startswith(tree):
                bad.append((name, origin))
    assert not bad, f"gapic modules loaded from outside {tree}: {bad}"
    for tpl in opts.templates:
        assert os.path.realpath(tpl).startswith(tree), (tpl, tree)


def worker(tree, cases_path, out_path):
    _isolate_gapic(tree)

    import pypandoc  # noqa: E402

    # pandoc is not installed here: stub identically for both runs.
    def _convert_text(text, to, format=None, extra_args=None, **kw):
        return text

    pypandoc.convert_text = _convert_text

    from google.protobuf import descriptor_pb2
    from gapic.schema.api import API
    from gapic.generator import Generator
    from gapic.utils import Options

    with open(cases_path, "rb") as f:
        cases = pickle.load(f)

    results = {}
    for case in cases:
        fdps = []
        for blob in case["files"]:
            fdp = descriptor_pb2.FileDescriptorProto()
            fdp.ParseFromString(blob)
            fdps.append(fdp)
        opts = Options.build(case["opts"])
        api = API.build(fdps, package=case["package"], opts=opts)
        response = Generator(opts).get_response(api, opts)
        _assert_from_tree(tree, opts)
        files = {}
        for out in response.file:
            assert out.name not in files, out.name
            files[out.name] = out.content
        results[case["name"]] = files

    import gapic

    # `gapic` is a namespace package (no __init__.py): check its search path.
    gapic_paths = [os.path.realpath(p) for p in gapic.__path__]
    assert gapic_paths == [os.path.join(os.path.realpath(tree), "gapic")], gapic_paths
    with open(out_path, "wb") as f:
        pickle.dump(results, f)


# --------------------------------------------------------------------------
# API descriptions
# --------------------------------------------------------------------------


def _dep(module):
    from google.protobuf import descriptor_pb2

    fdp = descriptor_pb2.FileDescriptorProto()
    module.DESCRIPTOR.CopyToProto(fdp)
    return fdp


def _common_deps():
    from google.api import annotations_pb2, client_pb2, field_behavior_pb2
    from google.api import http_pb2, launch_stage_pb2, resource_pb2
    from google.longrunning import operations_pb2
    from google.protobuf import any_pb2, descriptor_pb2, duration_pb2
    from google.protobuf import empty_pb2, field_mask_pb2
    from google.rpc import status_pb2

    mods = [
        descriptor_pb2,
        any_pb2,
        duration_pb2,
        empty_pb2,
        field_mask_pb2,
        http_pb2,
        annotations_pb2,
        launch_stage_pb2,
        client_pb2,
        field_behavior_pb2,
        resource_pb2,
        status_pb2,
        operations_pb2,
    ]
    return [_dep(m) for m in mods]


def _mixin_deps():
    from google.cloud.location import locations_pb2
    from google.iam.v1 import iam_policy_pb2, options_pb2, policy_pb2
    from google.type import expr_pb2

    return [_dep(m) for m in (expr_pb2, options_pb2, policy_pb2, iam_policy_pb2, locations_pb2)]


T = None  # FieldDescriptorProto, bound in build_cases()


def _field(msg, name, number, ftype, *, label=None, type_name=None, required=False,
           oneof_index=None, proto3_optional=False, default=None):
    from google.api import field_behavior_pb2

    f = msg.field.add()
    f.name = name
    f.number = number
    f.type = ftype
    f.label = label or T.LABEL_OPTIONAL
    if type_name:
        f.type_name = type_name
    if required:
        f.options.Extensions[field_behavior_pb2.field_behavior].append(
            field_behavior_pb2.REQUIRED
        )
    if oneof_index is not None:
        f.oneof_index = oneof_index
    if proto3_optional:
        f.proto3_optional = True
    if default is not None:
        f.default_value = default
    return f


def _method(svc, name, inp, out, *, http=None, additional=(), client_streaming=False,
            server_streaming=False, signature=None, lro=None):
    from google.api import annotations_pb2, client_pb2
    from google.longrunning import operations_pb2

    m = svc.method.add()
    m.name = name
    m.input_type = inp
    m.output_type = out
    m.client_streaming = client_streaming
    m.server_streaming = server_streaming
    if http is not None:
        rule = m.options.Extensions[annotations_pb2.http]
        _fill_rule(rule, http)
        for extra in additional:
            _fill_rule(rule.additional_bindings.add(), extra)
    if signature is not None:
        m.options.Extensions[client_pb2.method_signature].append(signature)
    if lro is not None:
        info = m.options.Extensions[operations_pb2.operation_info]
        info.response_type, info.metadata_type = lro
    return m


def _fill_rule(rule, spec):
    for key, value in spec.items():
        if key == "custom":
            rule.custom.kind, rule.custom.path = value
        else:
            setattr(rule, key, value)


def _service(fdp, name, host="library.googleapis.com", scopes="https://www.googleapis.com/auth/cloud-platform"):
    from google.api import client_pb2

    svc = fdp.service.add()
    svc.name = name
    if host:
        svc.options.Extensions[client_pb2.default_host] = host
    if scopes:
        svc.options.Extensions[client_pb2.oauth_scopes] = scopes
    return svc


def library_proto(package="google.example.library.v1", filename="google/example/library/v1/library.proto"):
    """Every binding shape: get/put/post/delete/patch, additional bindings,
    nested path variables, `*` / field / absent body, required fields of
    every scalar kind, paging, LRO, streaming, custom verb, no binding."""
    from google.protobuf import descriptor_pb2

    P = "." + package
    fdp = descriptor_pb2.FileDescriptorProto()
    fdp.name = filename
    fdp.package = package
    fdp.syntax = "proto3"
    fdp.dependency.extend(
        [
            "google/api/annotations.proto",
            "google/api/client.proto",
            "google/api/field_behavior.proto",
            "google/longrunning/operations.proto",
            "google/protobuf/empty.proto",
            "google/protobuf/field_mask.proto",
        ]
    )

    enum = fdp.enum_type.add()
    enum.name = "Genre"
    for i, n in enumerate(["GENRE_UNSPECIFIED", "FICTION", "POETRY"]):
        v = enum.value.add()
        v.name, v.number = n, i

    book = fdp.message_type.add()
    book.name = "Book"
    _field(book, "name", 1, T.TYPE_STRING)
    _field(book, "title", 2, T.TYPE_STRING, required=True)
    _field(book, "genre", 3, T.TYPE_ENUM, type_name=P + ".Genre")
    _field(book, "tags", 4, T.TYPE_STRING, label=T.LABEL_REPEATED)
    entry = book.nested_type.add()
    entry.name = "LabelsEntry"
    entry.options.map_entry = True
    _field(entry, "key", 1, T.TYPE_STRING)
    _field(entry, "value", 2, T.TYPE_STRING)
    _field(book, "labels", 5, T.TYPE_MESSAGE, label=T.LABEL_REPEATED,
           type_name=P + ".Book.LabelsEntry")
    book.oneof_decl.add().name = "format"
    _field(book, "isbn", 6, T.TYPE_STRING, oneof_index=0)
    _field(book, "pages", 7, T.TYPE_INT32, oneof_index=0)

    get = fdp.message_type.add()
    get.name = "GetBookRequest"
    _field(get, "name", 1, T.TYPE_STRING, required=True)
    _field(get, "view", 2, T.TYPE_ENUM, type_name=P + ".Genre")

    create = fdp.message_type.add()
    create.name = "CreateBookRequest"
    _field(create, "parent", 1, T.TYPE_STRING, required=True)
    _field(create, "book", 2, T.TYPE_MESSAGE, type_name=P + ".Book", required=True)
    _field(create, "book_id", 3, T.TYPE_STRING, required=True)
    _field(create, "copies", 4, T.TYPE_INT32, required=True)
    _field(create, "big_copies", 5, T.TYPE_INT64, required=True)
    _field(create, "weight", 6, T.TYPE_DOUBLE, required=True)
    _field(create, "ratio", 7, T.TYPE_FLOAT, required=True)
    _field(create, "validate_only", 8, T.TYPE_BOOL, required=True)
    _field(create, "cover", 9, T.TYPE_BYTES, required=True)
    _field(create, "genre", 10, T.TYPE_ENUM, type_name=P + ".Genre", required=True)
    _field(create, "mask", 11, T.TYPE_MESSAGE, type_name=".google.protobuf.FieldMask", required=True)
    _field(create, "count_u32", 12, T.TYPE_UINT32, required=True)
    _field(create, "count_u64", 13, T.TYPE_UINT64, required=True)
    _field(create, "count_s32", 14, T.TYPE_SINT32, required=True)
    _field(create, "count_f64", 15, T.TYPE_FIXED64, required=True)
    _field(create, "count_sf32", 16, T.TYPE_SFIXED32, required=True)
    _field(create, "request_id", 17, T.TYPE_STRING, proto3_optional=True, oneof_index=0)
    create.oneof_decl.add().name = "_request_id"
    _field(create, "aliases", 18, T.TYPE_STRING, label=T.LABEL_REPEATED, required=True)

    update = fdp.message_type.add()
    update.name = "UpdateBookRequest"
    _field(update, "book", 1, T.TYPE_MESSAGE, type_name=P + ".Book", required=True)
    _field(update, "update_mask", 2, T.TYPE_MESSAGE, type_name=".google.protobuf.FieldMask", required=True)
    _field(update, "allow_missing", 3, T.TYPE_BOOL, required=True)

    delete = fdp.message_type.add()
    delete.name = "DeleteBookRequest"
    _field(delete, "name", 1, T.TYPE_STRING, required=True)
    _field(delete, "force", 2, T.TYPE_BOOL)
    _field(delete, "etag", 3, T.TYPE_STRING, required=True)

    lst = fdp.message_type.add()
    lst.name = "ListBooksRequest"
    _field(lst, "parent", 1, T.TYPE_STRING, required=True)
    _field(lst, "page_size", 2, T.TYPE_INT32)
    _field(lst, "page_token", 3, T.TYPE_STRING)
    _field(lst, "filter", 4, T.TYPE_STRING)

    lstr = fdp.message_type.add()
    lstr.name = "ListBooksResponse"
    _field(lstr, "books", 1, T.TYPE_MESSAGE, label=T.LABEL_REPEATED, type_name=P + ".Book")
    _field(lstr, "next_page_token", 2, T.TYPE_STRING)

    move = fdp.message_type.add()
    move.name = "MoveBookRequest"
    _field(move, "name", 1, T.TYPE_STRING, required=True)
    _field(move, "other_shelf", 2, T.TYPE_STRING, required=True)
    _field(move, "priority", 3, T.TYPE_INT32, required=True)

    meta = fdp.message_type.add()
    meta.name = "MoveMetadata"
    _field(meta, "progress", 1, T.TYPE_INT32)

    svc = _service(fdp, "LibraryService")
    _method(svc, "GetBook", P + ".GetBookRequest", P + ".Book",
            http={"get": "/v1/{name=shelves/*/books/*}"},
            additional=[{"get": "/v1/{name=archives/*/books/**}"}], signature="name")
    _method(svc, "CreateBook", P + ".CreateBookRequest", P + ".Book",
            http={"post": "/v1/{parent=shelves/*}/books", "body": "book"},
            additional=[{"post": "/v1/{parent=archives/*}/books", "body": "*"},
                        {"put": "/v1/{parent=drafts/*}/books"}],
            signature="parent,book,book_id")
    _method(svc, "UpdateBook", P + ".UpdateBookRequest", P + ".Book",
            http={"patch": "/v1/{book.name=shelves/*/books/*}", "body": "*"},
            signature="book,update_mask")
    _method(svc, "ReplaceBook", P + ".UpdateBookRequest", P + ".Book",
            http={"put": "/v1/{book.name=shelves/*/books/*}", "body": "book"})
    _method(svc, "DeleteBook", P + ".DeleteBookRequest", ".google.protobuf.Empty",
            http={"delete": "/v1/{name=shelves/*/books/*}"}, signature="name")
    _method(svc, "ListBooks", P + ".ListBooksRequest", P + ".ListBooksResponse",
            http={"get": "/v1/{parent=shelves/*}/books"}, signature="parent")
    _method(svc, "MoveBook", P + ".MoveBookRequest", ".google.longrunning.Operation",
            http={"post": "/v1/{name=shelves/*/books/*}:move", "body": "*"},
            lro=("Book", "MoveMetadata"))
    _method(svc, "StreamBooks", P + ".ListBooksRequest", P + ".Book",
            http={"get": "/v1/{parent=shelves/*}/books:stream"}, server_streaming=True)
    _method(svc, "UploadBooks", P + ".CreateBookRequest", P + ".ListBooksResponse",
            http={"post": "/v1/{parent=shelves/*}/books:upload", "body": "*"},
            client_streaming=True)
    _method(svc, "ChatBooks", P + ".GetBookRequest", P + ".Book",
            client_streaming=True, server_streaming=True)
    _method(svc, "PeekBook", P + ".GetBookRequest", P + ".Book")  # no binding at all
    _method(svc, "HeadBook", P + ".DeleteBookRequest", P + ".Book",
            http={"custom": ("HEAD", "/v1/{name=shelves/*/books/*}"), "body": "*"})
    _method(svc, "Ping", ".google.protobuf.Empty", ".google.protobuf.Empty",
            http={"get": "/v1/ping"})
    return fdp


def reserved_proto():
    """Reserved words as path variables / body / required query fields, nested
    path variables, a sub-package, two services, a service without host."""
    from google.protobuf import descriptor_pb2

    package = "google.example.keywords.v1beta1"
    P = "." + package
    common = descriptor_pb2.FileDescriptorProto()
    common.name = "google/example/keywords/v1beta1/common/types.proto"
    common.package = package + ".common"
    common.syntax = "proto3"
    inner = common.message_type.add()
    inner.name = "Scope"
    _field(inner, "class", 1, T.TYPE_STRING)
    _field(inner, "global", 2, T.TYPE_STRING)
    _field(inner, "id", 3, T.TYPE_INT64)

    fdp = descriptor_pb2.FileDescriptorProto()
    fdp.name = "google/example/keywords/v1beta1/keywords.proto"
    fdp.package = package
    fdp.syntax = "proto3"
    fdp.dependency.extend(
        [
            "google/api/annotations.proto",
            "google/api/client.proto",
            "google/api/field_behavior.proto",
            "google/protobuf/empty.proto",
            "google/example/keywords/v1beta1/common/types.proto",
        ]
    )
    thing = fdp.message_type.add()
    thing.name = "Thing"
    _field(thing, "name", 1, T.TYPE_STRING)
    _field(thing, "not", 2, T.TYPE_BOOL)

    req = fdp.message_type.add()
    req.name = "KeywordRequest"
    _field(req, "from", 1, T.TYPE_STRING, required=True)
    _field(req, "class", 2, T.TYPE_STRING, required=True)
    _field(req, "import", 3, T.TYPE_MESSAGE, type_name=P + ".Thing", required=True)
    _field(req, "scope", 4, T.TYPE_MESSAGE, type_name=P + ".common.Scope", required=True)
    _field(req, "in", 5, T.TYPE_INT32, required=True)
    _field(req, "lambda", 6, T.TYPE_DOUBLE, required=True)
    _field(req, "return", 7, T.TYPE_BOOL)
    _field(req, "license", 8, T.TYPE_STRING, required=True, default="apache")
    _field(req, "retries", 9, T.TYPE_INT32, required=True, default="3")

    svc = _service(fdp, "KeywordService", host="keywords.googleapis.com:8443")
    _method(svc, "Import", P + ".KeywordRequest", P + ".Thing",
            http={"post": "/v1beta1/{from=froms/*}/classes/{class}:import", "body": "import"},
            additional=[{"patch": "/v1beta1/{scope.class=classes/*}/globals/{scope.global}", "body": "*"}],
            signature="from,class,import")
    _method(svc, "Lookup", P + ".KeywordRequest", P + ".Thing",
            http={"get": "/v1beta1/{scope.class=classes/*}/ids/{scope.id}"})
    _method(svc, "Drop", P + ".KeywordRequest", ".google.protobuf.Empty",
            http={"delete": "/v1beta1/{from=froms/**}"})
    _method(svc, "Yield", P + ".KeywordRequest", P + ".Thing",
            http={"put": "/v1beta1/{class}", "body": "scope"}, server_streaming=True)

    svc2 = _service(fdp, "Global", host="", scopes="")
    _method(svc2, "Pass", P + ".Thing", P + ".Thing",
            http={"post": "/v1beta1/{name}:pass", "body": "*"})
    _method(svc2, "Raise", P + ".Thing", P + ".Thing")
    return [common, fdp]


MIXIN_YAML = """\
type: google.api.Service
config_version: 3
name: library.googleapis.com
title: Example Library API
apis:
- name: google.cloud.location.Locations
- name: google.iam.v1.IAMPolicy
- name: google.example.mixed.v1.LibraryService
- name: google.longrunning.Operations
http:
  rules:
  - selector: google.cloud.location.Locations.GetLocation
    get: '/v1/{name=projects/*/locations/*}'
  - selector: google.cloud.location.Locations.ListLocations
    get: '/v1/{name=projects/*}/locations'
  - selector: google.iam.v1.IAMPolicy.GetIamPolicy
    get: '/v1/{resource=shelves/*}:getIamPolicy'
    additional_bindings:
    - post: '/v1/{resource=shelves/*/books/*}:getIamPolicy'
      body: '*'
  - selector: google.iam.v1.IAMPolicy.SetIamPolicy
    post: '/v1/{resource=shelves/*}:setIamPolicy'
    body: '*'
  - selector: google.iam.v1.IAMPolicy.TestIamPermissions
    post: '/v1/{resource=shelves/*}:testIamPermissions'
    body: '*'
  - selector: google.longrunning.Operations.CancelOperation
    post: '/v1/{name=operations/**}:cancel'
    body: '*'
  - selector: google.longrunning.Operations.DeleteOperation
    delete: '/v1/{name=operations/**}'
  - selector: google.longrunning.Operations.GetOperation
    get: '/v1/{name=operations/**}'
  - selector: google.longrunning.Operations.ListOperations
    get: '/v1/{name=operations}'
  - selector: google.longrunning.Operations.WaitOperation
    post: '/v1/{name=operations/**}:wait'
    body: '*'
publishing:
  library_settings:
  - version: 'google.example.mixed.v1'
    python_settings:
      experimental_features:
        rest_async_io_enabled: true
"""


def build_cases(tmpdir):
    global T
    from google.protobuf import descriptor_pb2

    T = descriptor_pb2.FieldDescriptorProto

    deps = _common_deps()
    cases = []

    def add(name, package, files, opts):
        cases.append(
            {
                "name": name,
                "package": package,
                "files": [f.SerializeToString(deterministic=True) for f in files],
                "opts": opts,
            }
        )

    lib = library_proto()
    add("library-grpc+rest", "google.example.library.v1", deps + [lib], "transport=grpc+rest")
    add("library-rest-numeric-enums", "google.example.library.v1", deps + [lib],
        "transport=rest,rest-numeric-enums")
    add("library-rest-nosnippets", "google.example.library.v1", deps + [lib],
        "transport=rest,autogen-snippets=false")
    add("library-grpc-only", "google.example.library.v1", deps + [lib],
        "autogen-snippets=false")

    add("keywords-grpc+rest", "google.example.keywords.v1beta1", deps + reserved_proto(),
        "transport=grpc+rest")
    add("keywords-rest-numeric-enums-old-naming", "google.example.keywords.v1beta1",
        deps + reserved_proto(), "transport=rest,rest-numeric-enums,old-naming,autogen-snippets=false")

    yaml_path = os.path.join(tmpdir, "mixed_v1.yaml")
    with open(yaml_path, "w") as f:
        f.write(MIXIN_YAML)
    mixed = library_proto("google.example.mixed.v1", "google/example/mixed/v1/library.proto")
    add("mixins-async-rest", "google.example.mixed.v1", deps + _mixin_deps() + [mixed],
        f"transport=grpc+rest,service-yaml={yaml_path},autogen-snippets=false")
    add("mixins-async-rest-numeric-enums-iam", "google.example.mixed.v1",
        deps + _mixin_deps() + [mixed],
        f"transport=rest,rest-numeric-enums,add-iam-methods,service-yaml={yaml_path},autogen-snippets=false")
    return cases


# --------------------------------------------------------------------------
# Driver
# --------------------------------------------------------------------------


def main(argv):
    if len(argv) >= 2 and argv[1] == "--worker":
        worker(argv[2], argv[3], argv[4])
        return 0
    if len(argv) != 2:
        print(__doc__)
        return 2

    checkout = os.path.realpath(argv[1])
    tmpdir = tempfile.mkdtemp(prefix="twin-demo-V04-")
    try:
        base = os.path.join(tmpdir, "base")
        os.mkdir(base)
        archive = subprocess.Popen(
            ["git", "-C", checkout, "archive", "HEAD"], stdout=subprocess.PIPE
        )
        subprocess.check_call(["tar", "-x", "-C", base], stdin=archive.stdout)
        archive.stdout.close()
        if archive.wait() != 0:
            raise RuntimeError("git archive failed")

        cases = build_cases(tmpdir)
        cases_path = os.path.join(tmpdir, "cases.pkl")
        with open(cases_path, "wb") as f:
            pickle.dump(cases, f)

        env = dict(os.environ)
        env.pop("PYTHONPATH", None)
        env["PYTHONHASHSEED"] = "0"
        env["PYTHONDONTWRITEBYTECODE"] = "1"
        procs = {}
        for label, tree in (("base", base), ("changed", checkout)):
            out_path = os.path.join(tmpdir, f"out-{label}.pkl")
            procs[label] = (
                subprocess.Popen(
                    [PYTHON, os.path.abspath(__file__), "--worker", tree, cases_path, out_path],
                    cwd=tmpdir,
                    env=env,
                ),
                out_path,
            )
        outputs = {}
        for label, (proc, out_path) in procs.items():
            if proc.wait() != 0:
                print(f"FAIL: generator run on the {label} tree exited with {proc.returncode}")
                return 1
            with open(out_path, "rb") as f:
                outputs[label] = pickle.load(f)

        diffs = []
        total = 0
        digest = hashlib.sha256()
        for case in cases:
            name = case["name"]
            a, b = outputs["base"][name], outputs["changed"][name]
            for fname in sorted(set(a) | set(b)):
                total += 1
                if fname not in a:
                    diffs.append(f"{name}: {fname} only generated by the changed tree")
                elif fname not in b:
                    diffs.append(f"{name}: {fname} only generated by the pristine tree")
                elif a[fname] != b[fname]:
                    diffs.append(f"{name}: {fname} differs")
                else:
                    digest.update(fname.encode() + b"\0" + a[fname].encode() + b"\0")
        rest_files = sum(
            1
            for case in cases
            for fname in outputs["base"][case["name"]]
            if "/transports/rest" in fname
        )
        if diffs:
            print(f"DIFFERENT: {len(diffs)} of {total} files differ")
            for d in diffs:
                print("  " + d)
            return 1
        print(
            f"IDENTICAL: {len(cases)} API descriptions, {total} generated files "
            f"({rest_files} REST transport modules) byte-identical; sha256={digest.hexdigest()[:16]}"
        )
        return 0
    finally:
        shutil.rmtree(tmpdir, ignore_errors=True)


if __name__ == "__main__":
    sys.exit(main(sys.argv))
