#!/usr/bin/env python
"""Differential demo for the U06 refactoring (property C06, routing headers).

Usage:  /venv/bin/python demo.py <path-to-a-checkout-with-the-change>

* exports the checkout's HEAD (`git archive HEAD`) into a temp dir  -> BASE tree
* uses the checkout's working tree (with the uncommitted change)    -> TEST tree
* builds several API descriptions in Python (no protoc), runs the generator on
  each of them with both trees (one subprocess per tree, so that the two copies
  of the `gapic` package never mix) and compares all output files byte for byte.

Exit code 0 and a one-line summary if everything is identical, 1 otherwise.
"""
import os
import pickle
import shutil
import subprocess
import sys
import tempfile

# --------------------------------------------------------------------------- #
# Worker: runs inside a subprocess, for ONE tree.
# --------------------------------------------------------------------------- #


def _isolate(tree):
    """Make `tree` the only provider of the `gapic` package."""
    import importlib

    tree = os.path.realpath(tree)
    # Drop editable-install finders / path hooks (the venv has an editable
    # install of another checkout).
    sys.meta_path[:] = [
        f
        for f in sys.meta_path
        if "editable" not in (getattr(f, "__module__", "") or "").lower()
        and "editable" not in getattr(f, "__name__", type(f).__name__).lower()
    ]
    sys.path_hooks[:] = [
        h
        for h in sys.path_hooks
        if "editable" not in (getattr(h, "__module__", "") or "").lower()
        and "editable" not in getattr(h, "__qualname__", "").lower()
    ]
    kept = []
    for entry in sys.path:
        if "__editable__" in entry:
            continue
        real = os.path.realpath(entry or os.getcwd())
        if real != tree and os.path.isdir(os.path.join(real, "gapic")):
            continue
        if real == tree:
            continue
        kept.append(entry)
    sys.path[:] = [tree] + kept
    sys.path_importer_cache.clear()
    importlib.invalidate_caches()
    for name in list(sys.modules):
        if name == "gapic" or name.startswith("gapic."):
            del sys.modules[name]
    return tree


def _check_isolation(tree, opts):
    prefix = tree + os.sep
    seen = 0
    for name, mod in list(sys.modules.items()):
        if not (name == "gapic" or name.startswith("gapic.")):
            continue
        seen += 1
        locations = []
        if getattr(mod, "__file__", None):
            locations.append(mod.__file__)
        locations.extend(list(getattr(mod, "__path__", []) or []))
        assert locations, f"module {name} has no location"
        for loc in locations:
            assert os.path.realpath(loc).startswith(prefix), (
                f"module {name} loaded from {loc}, not from {tree}"
            )
    assert seen > 10, "gapic modules were not loaded?"
    for tdir in opts.templates:
        assert os.path.realpath(tdir).startswith(prefix), (
            f"template dir {tdir} is not in {tree}"
        )


def worker(tree, cases_path, out_path):
    tree = _isolate(tree)

    # pandoc is not installed: stub the conversion identically for both runs.
    import pypandoc

    def _convert_text(text, to, format=None, extra_args=(), **kw):
        return f"{text}"

    pypandoc.convert_text = _convert_text

    from google.protobuf import descriptor_pb2
    from gapic.schema import api as gapic_api
    from gapic.generator import generator as gapic_generator
    from gapic.utils import Options

    with open(cases_path, "rb") as f:
        cases = pickle.load(f)

    results = {}
    for case in cases:
        fdps = [descriptor_pb2.FileDescriptorProto.FromString(b) for b in case["files"]]
        try:
            opts = Options.build(case["opts"])
            api_schema = gapic_api.API.build(fdps, package=case["package"], opts=opts)
            res = gapic_generator.Generator(opts).get_response(api_schema, opts)
            files = {}
            for out_file in res.file:
                assert out_file.name not in files, out_file.name
                files[out_file.name] = out_file.content
            results[case["name"]] = {"files": files}
            _check_isolation(tree, opts)
        except AssertionError:
            raise
        except Exception as exc:  # expected for the "broken annotation" cases
            if not case.get("may_fail"):
                raise
            results[case["name"]] = {
                "error": (type(exc).__name__, str(exc).replace(tree, "<TREE>"))
            }
    with open(out_path, "wb") as f:
        pickle.dump(results, f)


# --------------------------------------------------------------------------- #
# API descriptions
# --------------------------------------------------------------------------- #


def _deps():
    """Serialized descriptors of the well-known dependencies, in dependency order."""
    from google.protobuf import descriptor_pb2
    from google.api import annotations_pb2, client_pb2, field_behavior_pb2  # noqa
    from google.api import resource_pb2, routing_pb2, http_pb2  # noqa
    from google.longrunning import operations_pb2
    from google.protobuf import empty_pb2, field_mask_pb2, timestamp_pb2  # noqa

    ordered, seen = [], set()

    def visit(fd):
        if fd.name in seen:
            return
        seen.add(fd.name)
        for dep in fd.dependencies:
            visit(dep)
        fdp = descriptor_pb2.FileDescriptorProto()
        fd.CopyToProto(fdp)
        ordered.append(fdp)

    for mod in (
        annotations_pb2,
        client_pb2,
        field_behavior_pb2,
        resource_pb2,
        routing_pb2,
        operations_pb2,
        empty_pb2,
        field_mask_pb2,
        timestamp_pb2,
    ):
        visit(mod.DESCRIPTOR)
    return ordered


def _field(name, number, type_, label=None, type_name=None, **kw):
    from google.protobuf import descriptor_pb2 as d

    F = d.FieldDescriptorProto
    fld = F(
        name=name,
        number=number,
        type=getattr(F, "TYPE_" + type_.upper()),
        label=label or F.LABEL_OPTIONAL,
        json_name=kw.pop("json_name", ""),
        **kw,
    )
    if type_name:
        fld.type_name = type_name
    return fld


def _method(
    name,
    inp,
    out,
    *,
    http=None,
    routing=None,
    signatures=(),
    client_streaming=False,
    server_streaming=False,
    lro=None,
):
    """http: dict(verb=..., path=..., body=..., additional=[dict,...]) or None
    routing: list of (field, path_template) or None."""
    from google.protobuf import descriptor_pb2 as d
    from google.api import annotations_pb2, client_pb2, routing_pb2
    from google.longrunning import operations_pb2

    m = d.MethodDescriptorProto(
        name=name,
        input_type=inp,
        output_type=out,
        client_streaming=client_streaming,
        server_streaming=server_streaming,
    )
    if http is not None:
        rule = m.options.Extensions[annotations_pb2.http]

        def fill(r, spec):
            verb = spec["verb"]
            if verb == "custom":
                r.custom.kind = spec.get("kind", "fetch")
                r.custom.path = spec["path"]
            else:
                setattr(r, verb, spec["path"])
            if spec.get("body"):
                r.body = spec["body"]

        fill(rule, http)
        for extra in http.get("additional", ()):
            fill(rule.additional_bindings.add(), extra)
    if routing is not None:
        rr = m.options.Extensions[routing_pb2.routing]
        rr.SetInParent()
        for fld, tmpl in routing:
            rr.routing_parameters.add(field=fld, path_template=tmpl)
    for sig in signatures:
        m.options.Extensions[client_pb2.method_signature].append(sig)
    if lro:
        info = m.options.Extensions[operations_pb2.operation_info]
        info.response_type, info.metadata_type = lro
    return m


def _service(name, host, methods):
    from google.protobuf import descriptor_pb2 as d
    from google.api import client_pb2

    s = d.ServiceDescriptorProto(name=name)
    s.method.extend(methods)
    s.options.Extensions[client_pb2.default_host] = host
    s.options.Extensions[client_pb2.oauth_scopes] = (
        "https://www.googleapis.com/auth/cloud-platform"
    )
    return s


def _common_messages(pkg):
    """Messages shared by the demo APIs (package `pkg`)."""
    from google.protobuf import descriptor_pb2 as d

    F = d.FieldDescriptorProto
    book = d.DescriptorProto(name="Book")
    book.field.extend(
        [
            _field("name", 1, "string"),
            _field("class", 2, "string"),
            _field("from", 3, "string"),
            _field("shelf", 4, "message", type_name=f".{pkg}.Shelf"),
        ]
    )
    shelf = d.DescriptorProto(name="Shelf")
    shelf.field.extend([_field("name", 1, "string"), _field("in", 2, "string")])

    req = d.DescriptorProto(name="RouteRequest")
    req.field.extend(
        [
            _field("name", 1, "string"),
            _field("parent", 2, "string"),
            _field("class", 3, "string"),
            _field("from", 4, "string"),
            _field("book", 5, "message", type_name=f".{pkg}.Book"),
            _field("table_name", 6, "string"),
            _field("app_profile_id", 7, "string"),
            _field("tags", 8, "string", label=F.LABEL_REPEATED),
            _field(
                "labels",
                9,
                "message",
                label=F.LABEL_REPEATED,
                type_name=f".{pkg}.RouteRequest.LabelsEntry",
            ),
            _field("by_id", 10, "int64", oneof_index=0),
            _field("by_alias", 11, "string", oneof_index=0),
            _field("kind", 12, "enum", type_name=f".{pkg}.Kind"),
        ]
    )
    req.oneof_decl.add(name="selector")
    entry = req.nested_type.add(name="LabelsEntry")
    entry.options.map_entry = True
    entry.field.extend([_field("key", 1, "string"), _field("value", 2, "string")])

    resp = d.DescriptorProto(name="RouteResponse")
    resp.field.extend([_field("name", 1, "string"), _field("value", 2, "string")])

    list_req = d.DescriptorProto(name="ListBooksRequest")
    list_req.field.extend(
        [
            _field("parent", 1, "string"),
            _field("page_size", 2, "int32"),
            _field("page_token", 3, "string"),
            _field("filter", 4, "string"),
        ]
    )
    list_resp = d.DescriptorProto(name="ListBooksResponse")
    list_resp.field.extend(
        [
            _field(
                "books", 1, "message", label=F.LABEL_REPEATED, type_name=f".{pkg}.Book"
            ),
            _field("next_page_token", 2, "string"),
        ]
    )
    meta = d.DescriptorProto(name="OperationMetadata")
    meta.field.extend([_field("progress", 1, "int32")])

    kind = d.EnumDescriptorProto(name="Kind")
    kind.value.add(name="KIND_UNSPECIFIED", number=0)
    kind.value.add(name="HARDCOVER", number=1)
    return [book, shelf, req, resp, list_req, list_resp, meta], [kind]


_DEP_NAMES = [
    "google/api/annotations.proto",
    "google/api/client.proto",
    "google/api/routing.proto",
    "google/longrunning/operations.proto",
    "google/protobuf/empty.proto",
]


def _file(name, pkg, services, with_messages=True, extra_deps=()):
    from google.protobuf import descriptor_pb2 as d

    f = d.FileDescriptorProto(name=name, package=pkg, syntax="proto3")
    f.dependency.extend(_DEP_NAMES)
    f.dependency.extend(extra_deps)
    if with_messages:
        msgs, enums = _common_messages(pkg)
        f.message_type.extend(msgs)
        f.enum_type.extend(enums)
    f.service.extend(services)
    return f


def build_cases():
    deps = _deps()
    dep_bytes = [d.SerializeToString() for d in deps]
    OP = ".google.longrunning.Operation"
    EMPTY = ".google.protobuf.Empty"
    cases = []

    # ---- 1. explicit routing, all shapes, gRPC + REST ---------------------- #
    pkg = "google.routing.v1"
    R, S = f".{pkg}.RouteRequest", f".{pkg}.RouteResponse"
    methods = [
        _method("NoTemplate", R, S, routing=[("app_profile_id", "")],
                http=dict(verb="get", path="/v1/{name=projects/*}")),
        _method("ReservedNoTemplate", R, S, routing=[("class", ""), ("from", "")],
                http=dict(verb="post", path="/v1/{class}:reserved", body="*")),
        _method("SingleStar", R, S, routing=[("name", "{routing_id=*}")],
                signatures=["name"]),
        _method("DoubleStar", R, S, routing=[("name", "{name=**}")],
                signatures=["name,parent", "name"]),
        _method("LiteralPrefixSuffix", R, S,
                routing=[("table_name", "projects/*/{table_location=instances/*}/tables/*"),
                         ("table_name", "{routing_id=projects/*}/**"),
                         ("table_name", "regions/{region=*}/foo")],
                http=dict(verb="get", path="/v1/{table_name=projects/*/instances/*/tables/*}")),
        _method("SharedKey", R, S,
                routing=[("name", ""), ("name", "{name=projects/*/**}"),
                         ("parent", "{name=organizations/*}/**"),
                         ("book.name", "{name=shelves/*/books/*}"),
                         ("app_profile_id", "{name=*}")]),
        _method("NestedReserved", R, S,
                routing=[("book.class", ""), ("book.shelf.in", "{shelf_in=shelves/*}"),
                         ("book.from", "{from=**}"), ("class", "{class=classes/*}")],
                http=dict(verb="patch", path="/v1/{book.name=shelves/*/books/*}", body="book")),
        _method("ServerStream", R, S, server_streaming=True,
                routing=[("name", "{name=projects/*}/**"), ("parent", "")],
                http=dict(verb="get", path="/v1/{name=projects/*}:stream")),
        _method("ClientStream", R, S, client_streaming=True,
                routing=[("name", "{name=projects/*}/**")]),
        _method("BidiStream", R, S, client_streaming=True, server_streaming=True,
                routing=[("parent", ""), ("name", "{x=*}")]),
        _method("RoutedLro", R, OP, lro=(f"{pkg}.RouteResponse", f"{pkg}.OperationMetadata"),
                routing=[("parent", "{project=projects/*}/**")],
                http=dict(verb="post", path="/v1/{parent=projects/*}/books:lro", body="*")),
        _method("RoutedList", f".{pkg}.ListBooksRequest", f".{pkg}.ListBooksResponse",
                routing=[("parent", "{shelf=shelves/*}")],
                http=dict(verb="get", path="/v1/{parent=shelves/*}/books"),
                signatures=["parent"]),
        _method("RoutedVoid", R, EMPTY, routing=[("name", "zones/*/{zone_item=items/*}")],
                http=dict(verb="delete", path="/v1/{name=zones/*/items/*}")),
    ]
    f1 = _file("google/routing/v1/routing.proto", pkg,
               [_service("RoutingService", "routing.googleapis.com", methods)])
    cases.append(dict(name="explicit_grpc_rest", package=pkg, opts="transport=grpc+rest",
                      files=dep_bytes + [f1.SerializeToString()]))
    # same API, REST only + numeric enums, no snippets
    cases.append(dict(name="explicit_rest_numeric", package=pkg,
                      opts="transport=rest,rest-numeric-enums,autogen-snippets=false",
                      files=dep_bytes + [f1.SerializeToString()]))

    # ---- 2. implicit routing (http path variables only) -------------------- #
    pkg = "google.implicit.v1beta1"
    R, S = f".{pkg}.RouteRequest", f".{pkg}.RouteResponse"
    methods = [
        _method("GetThing", R, S, http=dict(verb="get", path="/v1beta1/{name=projects/*/things/*}"),
                signatures=["name"]),
        _method("PutThing", R, S, http=dict(verb="put", path="/v1beta1/{parent}/things/{app_profile_id}", body="*")),
        _method("Dotted", R, S, http=dict(verb="patch", path="/v1beta1/{book.name=shelves/*/books/*}", body="book"),
                signatures=["book"]),
        _method("DottedReserved", R, S,
                http=dict(verb="post", path="/v1beta1/{book.class=classes/*}/{from}/{book.shelf.in}:go", body="*")),
        _method("ReservedTop", R, S, http=dict(verb="delete", path="/v1beta1/{class=classes/*}")),
        _method("Custom", R, S, http=dict(verb="custom", kind="fetch", path="/v1beta1/{table_name=tables/*}:fetch")),
        _method("Additional", R, S,
                http=dict(verb="get", path="/v1beta1/{name=projects/*}",
                          additional=[dict(verb="get", path="/v1beta1/{parent=folders/*}/x")])),
        _method("NoVars", R, S, http=dict(verb="post", path="/v1beta1/things:search", body="*")),
        _method("NoHttp", R, S),
        _method("ImplicitServerStream", R, S, server_streaming=True,
                http=dict(verb="get", path="/v1beta1/{name=projects/*}:watch")),
        _method("ImplicitClientStream", R, S, client_streaming=True,
                http=dict(verb="post", path="/v1beta1/{name=projects/*}:upload", body="*")),
        _method("ImplicitBidi", R, S, client_streaming=True, server_streaming=True),
        _method("ImplicitLro", R, OP, lro=(f"{pkg}.RouteResponse", f"{pkg}.OperationMetadata"),
                http=dict(verb="post", path="/v1beta1/{parent=projects/*}/things:import", body="*")),
        _method("ListBooks", f".{pkg}.ListBooksRequest", f".{pkg}.ListBooksResponse",
                http=dict(verb="get", path="/v1beta1/{parent=shelves/*}/books"), signatures=["parent"]),
        _method("Drop", R, EMPTY, http=dict(verb="delete", path="/v1beta1/{name=projects/*/things/*}")),
    ]
    f2 = _file("google/implicit/v1beta1/implicit.proto", pkg,
               [_service("ImplicitService", "implicit.googleapis.com", methods)])
    cases.append(dict(name="implicit_grpc_rest", package=pkg, opts="transport=grpc+rest",
                      files=dep_bytes + [f2.SerializeToString()]))
    cases.append(dict(name="implicit_grpc_only_nosnippets", package=pkg,
                      opts="transport=grpc,autogen-snippets=false",
                      files=dep_bytes + [f2.SerializeToString()]))

    # ---- 3. several services, sub-package, mixed explicit / implicit ------- #
    pkg = "acme.library.v2"
    sub = "acme.library.v2.admin"
    R, S = f".{pkg}.RouteRequest", f".{pkg}.RouteResponse"
    svc_a = _service("Catalog", "library.example.com", [
        _method("Lookup", R, S, http=dict(verb="get", path="/v2/{name=books/*}"),
                routing=[("name", "{book_id=books/*}")]),
        _method("Plain", R, S, http=dict(verb="get", path="/v2/{name=books/*}/plain")),
        _method("Unrouted", R, S),
    ])
    svc_b = _service("Lending", "library.example.com", [
        _method("Borrow", R, OP, lro=(f"{pkg}.RouteResponse", f"{pkg}.OperationMetadata"),
                http=dict(verb="post", path="/v2/{book.name=books/*}:borrow", body="*")),
        _method("Return", R, EMPTY, routing=[("from", ""), ("book.from", "{from=**}")]),
    ])
    f3a = _file("acme/library/v2/library.proto", pkg, [svc_a, svc_b])
    svc_c = _service("AdminService", "admin.library.example.com", [
        _method("Purge", R, EMPTY, http=dict(verb="delete", path="/v2/{parent=shelves/*}/books:purge"),
                routing=[("parent", "{shelf=shelves/*}"), ("class", "")]),
        _method("Audit", f".{pkg}.ListBooksRequest", f".{pkg}.ListBooksResponse",
                http=dict(verb="get", path="/v2/{parent=shelves/*}/audit")),
        _method("Tail", R, S, server_streaming=True, routing=[("table_name", "{t=tables/*}/**")]),
    ])
    f3b = _file("acme/library/v2/admin/admin.proto", sub, [svc_c], with_messages=False,
                extra_deps=["acme/library/v2/library.proto"])
    cases.append(dict(name="multi_service_subpackage", package=pkg,
                      # (snippet generation at HEAD cannot cope with services in a sub-package: disabled here)
                      opts="transport=grpc+rest,rest-numeric-enums,metadata,autogen-snippets=false",
                      files=dep_bytes + [f3a.SerializeToString(), f3b.SerializeToString()]))

    # ---- 4. broken annotations: both trees must fail the same way ---------- #
    pkg = "google.broken.v1"
    R, S = f".{pkg}.RouteRequest", f".{pkg}.RouteResponse"
    f4 = _file("google/broken/v1/broken.proto", pkg, [_service("Broken", "broken.googleapis.com", [
        _method("TwoNamed", R, S, routing=[("name", "{a=*}/{b=*}")]),
    ])])
    cases.append(dict(name="broken_two_named_segments", package=pkg, opts="transport=grpc",
                      may_fail=True, files=dep_bytes + [f4.SerializeToString()]))
    f5 = _file("google/broken/v1/broken.proto", pkg, [_service("Broken", "broken.googleapis.com", [
        _method("EmptyRule", R, S, routing=[]),
    ])])
    cases.append(dict(name="broken_empty_routing_rule", package=pkg, opts="transport=grpc",
                      may_fail=True, files=dep_bytes + [f5.SerializeToString()]))
    # `{key}` without `=`: the unit-test template's sample builder cannot handle it at HEAD
    # (pre-existing), so this is only compared as an "identical outcome" case.
    f6 = _file("google/broken/v1/broken.proto", pkg, [_service("Broken", "broken.googleapis.com", [
        _method("BareKey", R, S, routing=[("name", "regions/{region}/foo"), ("parent", "{parent}")]),
    ])])
    cases.append(dict(name="bare_key_template", package=pkg, opts="transport=grpc",
                      may_fail=True, files=dep_bytes + [f6.SerializeToString()]))
    return cases


# --------------------------------------------------------------------------- #
# Driver
# --------------------------------------------------------------------------- #


def main(argv):
    if len(argv) == 5 and argv[1] == "--worker":
        worker(argv[2], argv[3], argv[4])
        return 0
    if len(argv) != 2:
        print(__doc__)
        return 2
    checkout = os.path.realpath(argv[1])
    tmp = tempfile.mkdtemp(prefix="twin-demo-U06-")
    try:
        base = os.path.join(tmp, "base")
        os.mkdir(base)
        archive = subprocess.run(
            ["git", "-C", checkout, "archive", "HEAD"], check=True, stdout=subprocess.PIPE
        ).stdout
        subprocess.run(["tar", "-x", "-C", base], input=archive, check=True)

        cases = build_cases()
        cases_path = os.path.join(tmp, "cases.pkl")
        with open(cases_path, "wb") as f:
            pickle.dump(cases, f)

        outputs = {}
        env = dict(os.environ, PYTHONDONTWRITEBYTECODE="1", PYTHONHASHSEED="0")
        env.pop("PYTHONPATH", None)
        workdir = os.path.join(tmp, "cwd")
        os.mkdir(workdir)
        for label, tree in (("base", base), ("test", checkout)):
            out_path = os.path.join(tmp, f"out-{label}.pkl")
            subprocess.run(
                [sys.executable, os.path.abspath(__file__), "--worker", tree, cases_path, out_path],
                check=True, cwd=workdir, env=env,
            )
            with open(out_path, "rb") as f:
                outputs[label] = pickle.load(f)

        problems = []
        n_files = n_errors = 0
        for case in cases:
            name = case["name"]
            b, t = outputs["base"][name], outputs["test"][name]
            if "error" in b or "error" in t:
                n_errors += 1
                if b != t:
                    problems.append(f"{name}: outcomes differ: base={b.get('error')} test={t.get('error')}")
                continue
            bf, tf = b["files"], t["files"]
            if not bf:
                problems.append(f"{name}: no output files")
            for fname in sorted(set(bf) | set(tf)):
                n_files += 1
                if fname not in bf:
                    problems.append(f"{name}: only in test: {fname}")
                elif fname not in tf:
                    problems.append(f"{name}: only in base: {fname}")
                elif bf[fname] != tf[fname]:
                    problems.append(f"{name}: differs: {fname}")
        # sanity: the routing code must really have been exercised
        blob = "\n".join(outputs["test"]["explicit_grpc_rest"]["files"].values())
        for needle in ("header_params[\"routing_id\"]", "routing_param_regex = re.compile(",
                       "request.book.class_", "if request.from_:"):
            if needle not in blob:
                problems.append(f"sanity: {needle!r} not found in the explicit-routing output")
        blob = "\n".join(outputs["test"]["implicit_grpc_rest"]["files"].values())
        for needle in ('("book.class", request.book.class_),', '("from", request.from_),'):
            if needle not in blob:
                problems.append(f"sanity: {needle!r} not found in the implicit-routing output")

        if problems:
            print("DIFFERENCES FOUND:")
            for p in problems:
                print("  " + p)
            return 1
        print(
            f"OK: {len(cases)} API descriptions, {n_files} generated files byte-identical "
            f"between HEAD and the working tree ({n_errors} expected-failure cases failed identically)"
        )
        return 0
    finally:
        shutil.rmtree(tmp, ignore_errors=True)


if __name__ == "__main__":
    sys.exit(main(sys.argv))
