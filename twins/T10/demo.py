#!/venv/bin/python
"""Differential check for the T10 (property C10) refactoring.

Usage:  /venv/bin/python demo.py <path-to-a-checkout-with-the-change>

The checkout's HEAD is exported to a temporary directory (the pristine tree);
the checkout's working tree carries the refactoring.  A handful of API
descriptions is generated with BOTH trees (each in its own subprocess, so the
two copies of the ``gapic`` package never mix) and every output file is
compared byte for byte, as is the order of the files in the response.

Exit status 0 and a one-line summary when everything is identical, 1 and a
list of the differing files otherwise.
"""
import json
import os
import pickle
import shutil
import subprocess
import sys
import tempfile

HASH_SEEDS = ("0", "4242")


# ---------------------------------------------------------------------------
# Worker: runs inside a subprocess with exactly one tree on sys.path.
# ---------------------------------------------------------------------------
def worker(tree: str, cases_path: str, out_path: str) -> None:
    sys.path.insert(0, tree)

    # pandoc (the binary) is not installed: stub the conversion identically
    # for both trees.
    import pypandoc

    def fake_convert_text(text, to, format=None, extra_args=(), **kwargs):
        return "PANDOC<" + text.replace("\r", "") + ">"

    pypandoc.convert_text = fake_convert_text

    def check_modules_come_from_tree():
        # ``gapic`` is a namespace package and an editable install of another
        # checkout may be visible too: insist that every gapic module that
        # was loaded lives in *this* tree.
        root = os.path.realpath(tree) + os.sep
        for mod_name, mod in list(sys.modules.items()):
            if mod_name == "gapic" or mod_name.startswith("gapic."):
                mod_file = getattr(mod, "__file__", None)
                if mod_file is not None:
                    assert os.path.realpath(mod_file).startswith(root), (
                        mod_name, mod_file, tree)

    from google.protobuf import descriptor_pb2
    from gapic.generator import Generator
    from gapic.schema.api import API
    from gapic.utils import Options
    from gapic.utils import sort_lines

    with open(cases_path, "rb") as f:
        cases = pickle.load(f)

    results = {}
    for name, case in cases.items():
        fds = [
            descriptor_pb2.FileDescriptorProto.FromString(b) for b in case["files"]
        ]
        opts = Options.build(case["options"])
        api = API.build(fds, package=case["package"], opts=opts)
        res = Generator(opts).get_response(api, opts)
        results[name] = {
            "order": [f.name for f in res.file],
            "files": {f.name: f.content for f in res.file},
            "raw": res.SerializeToString(deterministic=True),
        }

    # Direct probes of the refactored pure helper.
    probes = [
        "",
        "\n",
        "\n\n",
        "b\na\n",
        "\nb\na\nb\n",
        "  x\n\n \t \nx\n  x\n",
        "import b\nimport a\nimport b",
        "z\r\ny\r\nz",
        " \n",
        "\n  lead\ntrail  \n\n",
    ]
    results["__sort_lines__"] = {
        "order": [],
        "files": {
            f"probe{i}-{d}": repr(sort_lines(p, dedupe=d))
            for i, p in enumerate(probes)
            for d in (True, False)
        },
        "raw": b"",
    }

    check_modules_come_from_tree()
    assert os.path.realpath(Options.build("").templates[0]).startswith(
        os.path.realpath(tree) + os.sep
    )

    with open(out_path, "wb") as f:
        pickle.dump(results, f)


# ---------------------------------------------------------------------------
# Descriptor construction helpers (parent process).
# ---------------------------------------------------------------------------
def build_cases(scratch: str):
    from google.api import annotations_pb2, client_pb2, field_behavior_pb2
    from google.api import resource_pb2
    from google.longrunning import operations_pb2
    from google.protobuf import descriptor_pb2 as dp
    from google.protobuf import empty_pb2, field_mask_pb2, timestamp_pb2

    F = dp.FieldDescriptorProto

    def closure(*modules):
        """Serialized FileDescriptorProtos of the modules and their deps."""
        seen, out = set(), []

        def visit(fd):
            if fd.name in seen:
                return
            seen.add(fd.name)
            for dep in fd.dependencies:
                visit(dep)
            out.append(fd.serialized_pb)

        for m in modules:
            visit(m.DESCRIPTOR)
        return out

    def field(name, number, type_=F.TYPE_STRING, type_name=None, label=None,
              oneof=None, required=False, ref=None, child_ref=None,
              proto3_optional=False):
        f = F(name=name, number=number, type=type_,
              label=label or F.LABEL_OPTIONAL, json_name=name)
        if type_name:
            f.type_name = type_name
        if oneof is not None:
            f.oneof_index = oneof
        if proto3_optional:
            f.proto3_optional = True
        if required:
            f.options.Extensions[field_behavior_pb2.field_behavior].append(
                field_behavior_pb2.REQUIRED
            )
        if ref:
            f.options.Extensions[resource_pb2.resource_reference].type = ref
        if child_ref:
            f.options.Extensions[resource_pb2.resource_reference].child_type = (
                child_ref
            )
        return f

    def message(name, fields, resource=None, oneofs=(), nested=(), enums=()):
        m = dp.DescriptorProto(name=name, field=fields)
        for o in oneofs:
            m.oneof_decl.add(name=o)
        m.nested_type.extend(nested)
        m.enum_type.extend(enums)
        if resource:
            type_, patterns = resource
            r = m.options.Extensions[resource_pb2.resource]
            r.type = type_
            r.pattern.extend(patterns)
        return m

    def map_entry(name, value_type=F.TYPE_STRING, value_type_name=None):
        e = dp.DescriptorProto(
            name=name,
            field=[
                field("key", 1),
                field("value", 2, value_type, value_type_name),
            ],
        )
        e.options.map_entry = True
        return e

    def enum(name, *values):
        return dp.EnumDescriptorProto(
            name=name,
            value=[
                dp.EnumValueDescriptorProto(name=v, number=i)
                for i, v in enumerate(values)
            ],
        )

    def method(name, inp, out, http=None, signatures=(), lro=None,
               client_streaming=False, server_streaming=False):
        m = dp.MethodDescriptorProto(
            name=name, input_type=inp, output_type=out,
            client_streaming=client_streaming, server_streaming=server_streaming,
        )
        if http:
            verb, path, body = http
            rule = m.options.Extensions[annotations_pb2.http]
            setattr(rule, verb, path)
            if body:
                rule.body = body
        for s in signatures:
            m.options.Extensions[client_pb2.method_signature].append(s)
        if lro:
            info = m.options.Extensions[operations_pb2.operation_info]
            info.response_type, info.metadata_type = lro
        return m

    def service(name, methods, host=None, scopes=None):
        s = dp.ServiceDescriptorProto(name=name, method=methods)
        if host:
            s.options.Extensions[client_pb2.default_host] = host
        if scopes:
            s.options.Extensions[client_pb2.oauth_scopes] = scopes
        return s

    def with_comments(fd):
        """Give every message / service / method / field a leading comment."""
        def add(path, text):
            fd.source_code_info.location.add(path=path, leading_comments=text)

        for mi, m in enumerate(fd.message_type):
            add([4, mi], f" The {m.name} message.\n It has *several* fields.\n")
            for fi, f in enumerate(m.field):
                add([4, mi, 2, fi], f" The {f.name} field of {m.name}.\n")
        for si, s in enumerate(fd.service):
            add([6, si], f" The {s.name} service.\n\n - item one\n - item two\n")
            for mi, m in enumerate(s.method):
                add([6, si, 2, mi], f" Calls {m.name}.\n See `{m.input_type}`.\n")
        return fd

    common = closure(
        annotations_pb2, client_pb2, field_behavior_pb2, resource_pb2,
        operations_pb2, empty_pb2, field_mask_pb2, timestamp_pb2,
    )

    # ---------------------------------------------------------------- library
    P = ".google.example.library.v1"
    resources_fd = dp.FileDescriptorProto(
        name="google/example/library/v1/resources.proto",
        package="google.example.library.v1",
        syntax="proto3",
        dependency=[
            "google/api/resource.proto",
            "google/api/field_behavior.proto",
            "google/protobuf/timestamp.proto",
        ],
        message_type=[
            message(
                "Shelf",
                [field("name", 1), field("theme", 2),
                 field("labels", 3, F.TYPE_MESSAGE, P + ".Shelf.LabelsEntry",
                       F.LABEL_REPEATED)],
                resource=("library.googleapis.com/Shelf", ["shelves/{shelf}"]),
                nested=[map_entry("LabelsEntry")],
            ),
            message(
                "Book",
                [field("name", 1), field("author", 2),
                 field("class", 3), field("from", 4),
                 field("genre", 5, F.TYPE_ENUM, P + ".Book.Genre"),
                 field("published", 6, F.TYPE_MESSAGE,
                       ".google.protobuf.Timestamp"),
                 field("isbn", 7, oneof=0), field("issn", 8, F.TYPE_INT64,
                                                    oneof=0),
                 field("subtitle", 9, oneof=1, proto3_optional=True),
                 field("publisher", 10, ref="library.googleapis.com/Publisher"),
                 field("chapters", 11, F.TYPE_MESSAGE, P + ".Book.Chapter",
                       F.LABEL_REPEATED)],
                resource=(
                    "library.googleapis.com/Book",
                    ["shelves/{shelf}/books/{book}",
                     "publishers/{publisher}/books/{book}"],
                ),
                oneofs=["identifier", "_subtitle"],
                nested=[
                    message("Chapter", [field("title", 1),
                                        field("pages", 2, F.TYPE_INT32)]),
                ],
                enums=[enum("Genre", "GENRE_UNSPECIFIED", "FICTION", "None")],
            ),
            # Same trailing resource name as the previous one, different
            # domain: equal primary sort key in the templates.
            message(
                "ArchivedBook",
                [field("name", 1), field("original", 2,
                                         ref="library.googleapis.com/Book")],
                resource=("archive.googleapis.com/Book",
                          ["archives/{archive}/books/{book}"]),
            ),
            message("Vault", [field("name", 1)],
                    resource=("library.googleapis.com/Vault",
                              ["archives/{archive}/vaults/{vault}"])),
            message(
                "Publisher",
                [field("name", 1)],
                resource=("library.googleapis.com/Publisher",
                          ["publishers/{publisher}", "*"]),
            ),
        ],
    )
    rd = resources_fd.options.Extensions[resource_pb2.resource_definition].add()
    rd.type = "library.googleapis.com/Branch"
    rd.pattern.append("regions/{region}/branches/{branch}")
    rd = resources_fd.options.Extensions[resource_pb2.resource_definition].add()
    rd.type = "library.googleapis.com/Wing"
    rd.pattern.append("branches/{branch}/wings/{wing}")
    rd = resources_fd.options.Extensions[resource_pb2.resource_definition].add()
    rd.type = "cloudresourcemanager.googleapis.com/Project"
    rd.pattern.append("projects/{project}")

    library_fd = dp.FileDescriptorProto(
        name="google/example/library/v1/library.proto",
        package="google.example.library.v1",
        syntax="proto3",
        dependency=[
            "google/api/annotations.proto",
            "google/api/client.proto",
            "google/api/field_behavior.proto",
            "google/api/resource.proto",
            "google/longrunning/operations.proto",
            "google/protobuf/empty.proto",
            "google/protobuf/field_mask.proto",
            "google/example/library/v1/resources.proto",
        ],
        message_type=[
            message("GetBookRequest",
                    [field("name", 1, required=True,
                           ref="library.googleapis.com/Book")]),
            message("ListBooksRequest",
                    [field("parent", 1, required=True,
                           child_ref="library.googleapis.com/Book"),
                     field("page_size", 2, F.TYPE_INT32),
                     field("page_token", 3),
                     field("branch", 4, ref="library.googleapis.com/Branch"),
                     field("anything", 5, ref="*")]),
            message("ListBooksResponse",
                    [field("books", 1, F.TYPE_MESSAGE, P + ".Book",
                           F.LABEL_REPEATED),
                     field("next_page_token", 2),
                     # Resource that is only reachable through a reference
                     # in a (plain) response.
                     field("wing", 3, ref="library.googleapis.com/Wing")]),
            message("CreateBookRequest",
                    [field("parent", 1, required=True,
                           ref="library.googleapis.com/Shelf"),
                     field("book", 2, F.TYPE_MESSAGE, P + ".Book",
                           required=True),
                     field("book_id", 3)]),
            message("UpdateBookRequest",
                    [field("book", 1, F.TYPE_MESSAGE, P + ".Book"),
                     field("update_mask", 2, F.TYPE_MESSAGE,
                           ".google.protobuf.FieldMask")]),
            message("DeleteBookRequest",
                    [field("name", 1, ref="library.googleapis.com/Book")]),
            message("ArchiveBooksRequest",
                    [field("source", 1, ref="library.googleapis.com/Shelf"),
                     field("project", 2,
                           ref="cloudresourcemanager.googleapis.com/Project")]),
            message("ArchiveBooksResponse",
                    [field("archived", 1, F.TYPE_MESSAGE, P + ".ArchivedBook",
                           F.LABEL_REPEATED),
                     # Only reachable through a reference in an LRO result.
                     field("vault", 2, ref="library.googleapis.com/Vault")]),
            message("ArchiveBooksMetadata", [field("progress", 1,
                                                   F.TYPE_INT32)]),
            message("GetShelfRequest",
                    [field("name", 1, ref="library.googleapis.com/Shelf")]),
            message("StreamShelvesRequest", [field("filter", 1)]),
            message("MergeShelvesRequest",
                    [field("name", 1, ref="library.googleapis.com/Shelf"),
                     field("other_shelf", 2,
                           ref="library.googleapis.com/Shelf")]),
        ],
        service=[
            service(
                "LibraryService",
                [
                    method("GetBook", P + ".GetBookRequest", P + ".Book",
                           http=("get", "/v1/{name=shelves/*/books/*}", None),
                           signatures=["name"]),
                    method("ListBooks", P + ".ListBooksRequest",
                           P + ".ListBooksResponse",
                           http=("get", "/v1/{parent=shelves/*}/books", None),
                           signatures=["parent"]),
                    method("CreateBook", P + ".CreateBookRequest", P + ".Book",
                           http=("post", "/v1/{parent=shelves/*}/books", "book"),
                           signatures=["parent,book,book_id", "parent,book"]),
                    method("UpdateBook", P + ".UpdateBookRequest", P + ".Book",
                           http=("patch", "/v1/{book.name=shelves/*/books/*}",
                                 "book"),
                           signatures=["book,update_mask"]),
                    method("DeleteBook", P + ".DeleteBookRequest",
                           ".google.protobuf.Empty",
                           http=("delete", "/v1/{name=shelves/*/books/*}",
                                 None)),
                    method("ArchiveBooks", P + ".ArchiveBooksRequest",
                           ".google.longrunning.Operation",
                           http=("post", "/v1/{source=shelves/*}:archive", "*"),
                           lro=("ArchiveBooksResponse",
                                "ArchiveBooksMetadata")),
                ],
                host="library.googleapis.com",
                scopes="https://www.googleapis.com/auth/cloud-platform,"
                       "https://www.googleapis.com/auth/books",
            ),
            service(
                "ShelfService",
                [
                    method("GetShelf", P + ".GetShelfRequest", P + ".Shelf",
                           http=("get", "/v1/{name=shelves/*}", None),
                           signatures=["name"]),
                    method("StreamShelves", P + ".StreamShelvesRequest",
                           P + ".Shelf", server_streaming=True,
                           http=("get", "/v1/shelves:stream", None)),
                    method("MergeShelves", P + ".MergeShelvesRequest",
                           P + ".Shelf",
                           http=("post", "/v1/{name=shelves/*}:merge", "*"),
                           signatures=["name,other_shelf"]),
                    method("UploadShelves", P + ".Shelf", P + ".Shelf",
                           client_streaming=True),
                    method("ChatShelves", P + ".Shelf", P + ".Shelf",
                           client_streaming=True, server_streaming=True),
                ],
                host="library.googleapis.com:443",
            ),
        ],
    )
    with_comments(resources_fd)
    with_comments(library_fd)
    library_files = common + [
        resources_fd.SerializeToString(), library_fd.SerializeToString(),
    ]

    retry_path = os.path.join(scratch, "library_grpc_service_config.json")
    with open(retry_path, "w") as f:
        json.dump(
            {
                "methodConfig": [
                    {
                        "name": [
                            {"service": "google.example.library.v1.LibraryService"},
                            {"service": "google.example.library.v1.ShelfService",
                             "method": "GetShelf"},
                        ],
                        "timeout": "60s",
                        "retryPolicy": {
                            "maxAttempts": 5,
                            "initialBackoff": "0.1s",
                            "maxBackoff": "60s",
                            "backoffMultiplier": 1.3,
                            "retryableStatusCodes": [
                                "UNAVAILABLE", "DEADLINE_EXCEEDED", "ABORTED",
                                "INTERNAL", "UNKNOWN", "RESOURCE_EXHAUSTED",
                            ],
                        },
                    }
                ]
            },
            f,
        )

    # ------------------------------------------------------------ sub-packages
    Q = ".acme.depot.v2"
    depot_common_fd = dp.FileDescriptorProto(
        name="acme/depot/v2/common/types.proto",
        package="acme.depot.v2.common",
        syntax="proto3",
        dependency=["google/api/resource.proto"],
        message_type=[
            message("Crate", [field("name", 1), field("weight", 2,
                                                      F.TYPE_DOUBLE)],
                    resource=("depot.acme.example/Crate",
                              ["depots/{depot}/crates/{crate}"])),
            message("Pallet", [field("name", 1),
                               field("crates", 2, F.TYPE_MESSAGE,
                                     Q + ".common.Crate", F.LABEL_REPEATED)],
                    resource=("depot.acme.example/Pallet",
                              ["depots/{depot}/pallets/{pallet}"])),
        ],
        enum_type=[enum("Kind", "KIND_UNSPECIFIED", "WOOD", "PLASTIC")],
    )
    depot_admin_fd = dp.FileDescriptorProto(
        name="acme/depot/v2/admin/admin.proto",
        package="acme.depot.v2.admin",
        syntax="proto3",
        dependency=[
            "google/api/annotations.proto", "google/api/client.proto",
            "google/api/resource.proto",
            "acme/depot/v2/common/types.proto",
        ],
        message_type=[
            message("PurgeRequest",
                    [field("pallet", 1, ref="depot.acme.example/Pallet"),
                     field("kind", 2, F.TYPE_ENUM, Q + ".common.Kind")]),
            message("PurgeResponse",
                    [field("purged", 1, F.TYPE_MESSAGE, Q + ".common.Crate",
                           F.LABEL_REPEATED)]),
        ],
        service=[
            service("Admin",
                    [method("Purge", Q + ".admin.PurgeRequest",
                            Q + ".admin.PurgeResponse",
                            http=("post", "/v2/{pallet=depots/*/pallets/*}:purge",
                                  "*"),
                            signatures=["pallet"])],
                    host="depot.acme.example"),
        ],
    )
    depot_fd = dp.FileDescriptorProto(
        name="acme/depot/v2/depot.proto",
        package="acme.depot.v2",
        syntax="proto3",
        dependency=[
            "google/api/annotations.proto", "google/api/client.proto",
            "google/api/resource.proto", "google/api/field_behavior.proto",
            "acme/depot/v2/common/types.proto",
        ],
        message_type=[
            message("Depot", [field("name", 1),
                              field("pallets", 2, F.TYPE_MESSAGE,
                                    Q + ".Depot.PalletsEntry",
                                    F.LABEL_REPEATED)],
                    resource=("depot.acme.example/Depot", ["depots/{depot}"]),
                    nested=[map_entry("PalletsEntry", F.TYPE_MESSAGE,
                                      Q + ".common.Pallet")]),
            message("GetDepotRequest",
                    [field("name", 1, required=True,
                           ref="depot.acme.example/Depot")]),
            message("ListCratesRequest",
                    [field("parent", 1, child_ref="depot.acme.example/Crate"),
                     field("page_size", 2, F.TYPE_INT32),
                     field("page_token", 3)]),
            message("ListCratesResponse",
                    [field("crates", 1, F.TYPE_MESSAGE, Q + ".common.Crate",
                           F.LABEL_REPEATED),
                     field("next_page_token", 2)]),
        ],
        service=[
            service("Depots",
                    [method("GetDepot", Q + ".GetDepotRequest", Q + ".Depot",
                            http=("get", "/v2/{name=depots/*}", None),
                            signatures=["name"]),
                     method("ListCrates", Q + ".ListCratesRequest",
                            Q + ".ListCratesResponse",
                            http=("get", "/v2/{parent=depots/*}/crates", None),
                            signatures=["parent"])],
                    host="depot.acme.example"),
        ],
    )
    depot_files = common + [
        with_comments(depot_common_fd).SerializeToString(),
        with_comments(depot_admin_fd).SerializeToString(),
        with_comments(depot_fd).SerializeToString(),
    ]

    # ------------------------------------------------- bare, no annotations
    R = ".bare.v1"
    bare_other_fd = dp.FileDescriptorProto(
        name="other/v1/import.proto",
        package="other.v1",
        syntax="proto3",
        message_type=[message("Thing", [field("id", 1)])],
    )
    bare_fd = dp.FileDescriptorProto(
        name="bare/v1/import.proto",
        package="bare.v1",
        syntax="proto3",
        dependency=["other/v1/import.proto"],
        message_type=[
            message("Ping",
                    [field("in", 1), field("lambda", 2, F.TYPE_BOOL),
                     field("request", 3), field("retry", 4, F.TYPE_INT32),
                     field("thing", 5, F.TYPE_MESSAGE, ".other.v1.Thing"),
                     field("things", 6, F.TYPE_MESSAGE, ".other.v1.Thing",
                           F.LABEL_REPEATED),
                     field("self_ref", 7, F.TYPE_MESSAGE, R + ".Ping")]),
            message("Pong", [field("data", 1, F.TYPE_BYTES),
                             field("ping", 2, F.TYPE_MESSAGE, R + ".Ping")]),
        ],
        service=[
            service("Echo",
                    [method("Ping", R + ".Ping", R + ".Pong"),
                     method("Import", R + ".Ping", R + ".Pong",
                            server_streaming=True),
                     method("Stream", R + ".Ping", R + ".Pong",
                            client_streaming=True, server_streaming=True)]),
            service("Empty", []),
        ],
    )
    bare_files = [bare_other_fd.SerializeToString(),
                  bare_fd.SerializeToString()]

    cases = {
        "library-default": {
            "files": library_files,
            "package": "google.example.library.v1",
            "options": f"metadata,retry-config={retry_path}",
        },
        "library-rest-numeric": {
            "files": library_files,
            "package": "google.example.library.v1",
            "options": "transport=rest,rest-numeric-enums,autogen-snippets=false",
        },
        "library-grpc+rest": {
            "files": library_files,
            "package": "google.example.library.v1",
            "options": "transport=grpc+rest,metadata,"
                       "python-gapic-namespace=google.example,"
                       "python-gapic-name=bookshop,"
                       "warehouse-package-name=google-example-bookshop",
        },
        "depot-subpackages": {
            "files": depot_files,
            "package": "acme.depot.v2",
            # (autogenerated snippets are off here: the pristine generator
            # cannot produce them for services that live in a sub-package.)
            "options": "transport=grpc+rest,metadata,autogen-snippets=false",
        },
        "depot-oldnaming-grpc": {
            "files": depot_files,
            "package": "acme.depot.v2",
            "options": "autogen-snippets=false,old-naming",
        },
        "bare-no-annotations": {
            "files": bare_files,
            "package": "bare.v1",
            "options": "metadata,lazy-import",
        },
    }
    return cases


# ---------------------------------------------------------------------------
# Parent: orchestrate both trees and compare.
# ---------------------------------------------------------------------------
def run_tree(tree, cases_path, out_path, seed):
    env = dict(os.environ)
    env["PYTHONHASHSEED"] = seed
    env["PYTHONDONTWRITEBYTECODE"] = "1"
    env.pop("PYTHONPATH", None)
    proc = subprocess.run(
        [sys.executable, os.path.abspath(__file__), "--worker", tree,
         cases_path, out_path],
        env=env,
        cwd=os.path.dirname(cases_path),
        stdout=subprocess.PIPE,
        stderr=subprocess.STDOUT,
        text=True,
    )
    if proc.returncode != 0:
        print(proc.stdout)
        raise SystemExit(f"generator run failed for tree {tree} (seed {seed})")
    with open(out_path, "rb") as f:
        return pickle.load(f)


def main(argv):
    if len(argv) >= 2 and argv[1] == "--worker":
        worker(argv[2], argv[3], argv[4])
        return 0
    if len(argv) != 2:
        print(__doc__)
        return 2

    checkout = os.path.abspath(argv[1])
    tmpdir = tempfile.mkdtemp(prefix="twin-T10-demo-")
    try:
        pristine = os.path.join(tmpdir, "pristine")
        os.mkdir(pristine)
        archive = subprocess.Popen(
            ["git", "-C", checkout, "archive", "HEAD"], stdout=subprocess.PIPE
        )
        subprocess.check_call(["tar", "-x", "-C", pristine], stdin=archive.stdout)
        archive.stdout.close()
        if archive.wait() != 0:
            raise SystemExit("git archive failed")

        scratch = os.path.join(tmpdir, "inputs")
        os.mkdir(scratch)
        cases = build_cases(scratch)
        cases_path = os.path.join(scratch, "cases.pkl")
        with open(cases_path, "wb") as f:
            pickle.dump(cases, f)

        differences = []
        n_files = 0
        for seed in HASH_SEEDS:
            old = run_tree(pristine, cases_path,
                           os.path.join(tmpdir, f"old-{seed}.pkl"), seed)
            new = run_tree(checkout, cases_path,
                           os.path.join(tmpdir, f"new-{seed}.pkl"), seed)
            for case in sorted(set(old) | set(new)):
                o, n = old.get(case), new.get(case)
                if o is None or n is None:
                    differences.append(f"[seed {seed}] {case}: case missing")
                    continue
                if case in cases and not o["files"]:
                    differences.append(f"[seed {seed}] {case}: no output")
                for name in sorted(set(o["files"]) | set(n["files"])):
                    n_files += 1
                    if name not in o["files"]:
                        differences.append(
                            f"[seed {seed}] {case}: {name} only in changed tree")
                    elif name not in n["files"]:
                        differences.append(
                            f"[seed {seed}] {case}: {name} only in pristine tree")
                    elif o["files"][name] != n["files"][name]:
                        differences.append(
                            f"[seed {seed}] {case}: {name} differs")
                if o["order"] != n["order"]:
                    differences.append(
                        f"[seed {seed}] {case}: order of response files differs")
                if o["raw"] != n["raw"]:
                    differences.append(
                        f"[seed {seed}] {case}: serialized response differs")

        # Make sure the refactored code was really exercised.
        probe = old["library-default"]["files"]
        client = next(v for k, v in probe.items()
                      if k.endswith("library_service/client.py"))
        aclient = next(v for k, v in probe.items()
                       if k.endswith("library_service/async_client.py"))
        for needle in ("def book_path(", "def parse_shelf_path(",
                       "def publisher_path(", "def branch_path(",
                       "def wing_path(", "def vault_path("):
            if needle not in client:
                differences.append(f"sanity: {needle!r} not rendered")
        if "parse_book_path = staticmethod(" not in aclient:
            differences.append("sanity: async resource aliases not rendered")

        if differences:
            print(f"DIFFERENT: {len(differences)} difference(s)")
            for d in differences:
                print("  " + d)
            return 1
        print(
            f"IDENTICAL: {len(cases)} APIs x {len(HASH_SEEDS)} hash seeds, "
            f"{n_files} output files compared byte for byte "
            f"(names, contents, order, serialized response)"
        )
        return 0
    finally:
        shutil.rmtree(tmpdir, ignore_errors=True)


if __name__ == "__main__":
    sys.exit(main(sys.argv))
