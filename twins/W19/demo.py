#!/usr/bin/env python
"""W19 demo: the refactoring of the resource-path code leaves the output unchanged.

    /venv/bin/python demo.py <checkout-with-the-change>

The checkout's HEAD is exported with `git archive` (pristine tree); the
checkout's working tree is the tree with the change.  Several API descriptions
are built in Python (no protoc), the generator is run on each of them with both
trees (one subprocess per tree, with only that tree's `gapic` importable) and
all emitted files are compared byte for byte.

Exit 0 + one summary line when identical, exit 1 + the differing files if not.
"""

import importlib.util
import os
import pickle
import shutil
import subprocess
import sys
import tempfile

# ---------------------------------------------------------------------------
# Worker side
# ---------------------------------------------------------------------------


def _under(path, root):
    path = os.path.realpath(path)
    return path == root or path.startswith(root + os.sep)


def _only_this_tree(tree):
    """Put `tree` first on sys.path and remove every other source of `gapic`."""
    assert not any(m == "gapic" or m.startswith("gapic.") for m in sys.modules)
    here = os.path.realpath(os.getcwd())
    kept = []
    for entry in sys.path:
        real = os.path.realpath(entry) if entry else here
        if real == tree:
            continue
        if os.path.isdir(os.path.join(real, "gapic")):
            continue  # some other checkout
        kept.append(entry)
    sys.path[:] = [tree] + kept

    # The venv has an editable install: a meta path finder (and a path hook)
    # that map `gapic` to another directory.  Drop them.
    def editable(obj):
        text = " ".join(
            str(getattr(obj, attr, "") or "")
            for attr in ("__module__", "__name__", "__qualname__")
        ) + " " + type(obj).__module__ + " " + type(obj).__name__
        return "editable" in text.lower()

    sys.meta_path[:] = [f for f in sys.meta_path if not editable(f)]
    sys.path_hooks[:] = [h for h in sys.path_hooks if not editable(h)]
    sys.path_importer_cache.clear()
    for name in list(sys.modules):
        if name.startswith("__editable__"):
            del sys.modules[name]

    # Whatever is left must not resolve `gapic` anywhere else.
    for finder in list(sys.meta_path):
        find_spec = getattr(finder, "find_spec", None)
        if find_spec is None:
            continue
        spec = find_spec("gapic", None)
        if spec is None:
            continue
        places = list(spec.submodule_search_locations or []) or [spec.origin]
        if not all(_under(p, tree) for p in places):
            sys.meta_path.remove(finder)
    spec = importlib.util.find_spec("gapic")
    assert spec is not None, "gapic is not importable"
    places = list(spec.submodule_search_locations or []) or [spec.origin]
    assert places and all(p and _under(p, tree) for p in places), spec


def _assert_provenance(tree, template_dirs):
    root = os.path.join(tree, "gapic")
    count = 0
    for name, module in list(sys.modules.items()):
        if name != "gapic" and not name.startswith("gapic."):
            continue
        count += 1
        origin = getattr(module, "__file__", None)
        places = [origin] if origin else list(module.__path__)
        for place in places:
            assert _under(place, root), f"{name} comes from {place}, not {root}"
    assert count >= 10, f"only {count} gapic modules loaded"
    assert template_dirs, "no template directory seen"
    for directory in template_dirs:
        assert _under(directory, os.path.join(root, "templates")), (
            f"templates come from {directory}"
        )
    return count


def worker(tree, job_path, result_path):
    tree = os.path.realpath(tree)
    _only_this_tree(tree)

    import pypandoc

    def convert_text(source, to, format=None, extra_args=(), **kwargs):
        # pandoc is not installed; same deterministic stand-in for both trees.
        return " ".join(str(source).split())

    pypandoc.convert_text = convert_text

    from google.protobuf import descriptor_pb2

    from gapic.generator import Generator
    from gapic.schema.api import API
    from gapic.utils import Options

    with open(job_path, "rb") as fh:
        cases = pickle.load(fh)

    outputs = {}
    template_dirs = set()
    for case in cases:
        fds = [descriptor_pb2.FileDescriptorProto.FromString(b) for b in case["files"]]
        opts = Options.build(case["options"])
        api = API.build(fds, package=case["package"], opts=opts)
        generator = Generator(opts)
        template_dirs.update(opts.templates)
        template_dirs.update(generator._env.loader.searchpath)
        response = generator.get_response(api, opts)
        files = {}
        for out in response.file:
            assert out.name not in files, out.name
            files[out.name] = out.content.encode("utf-8")
        outputs[case["name"]] = files

    modules = _assert_provenance(tree, template_dirs)
    with open(result_path, "wb") as fh:
        pickle.dump({"outputs": outputs, "modules": modules}, fh)


# ---------------------------------------------------------------------------
# API descriptions
# ---------------------------------------------------------------------------


def build_cases():
    from google.api import annotations_pb2, client_pb2, resource_pb2
    from google.longrunning import operations_pb2
    from google.protobuf import descriptor_pb2 as pb

    F = pb.FieldDescriptorProto
    STRING, INT32, MESSAGE, BOOL = F.TYPE_STRING, F.TYPE_INT32, F.TYPE_MESSAGE, F.TYPE_BOOL

    def field(name, number, type_=STRING, type_name=None, repeated=False,
              ref=None, child=None, oneof=None):
        f = F(name=name, number=number, type=type_,
              label=F.LABEL_REPEATED if repeated else F.LABEL_OPTIONAL)
        if type_name:
            f.type_name = type_name
        if oneof is not None:
            f.oneof_index = oneof
        if ref:
            f.options.Extensions[resource_pb2.resource_reference].type = ref
        if child:
            f.options.Extensions[resource_pb2.resource_reference].child_type = child
        return f

    def message(name, fields, resource=None, nested=(), oneofs=(), map_entry=False):
        m = pb.DescriptorProto(name=name, field=fields, nested_type=list(nested))
        for oneof in oneofs:
            m.oneof_decl.add(name=oneof)
        if map_entry:
            m.options.map_entry = True
        if resource:
            res = m.options.Extensions[resource_pb2.resource]
            res.type = resource[0]
            res.pattern.extend(resource[1])
        return m

    def map_entry(name, value_type=STRING, value_type_name=None):
        return message(
            name,
            [field("key", 1), field("value", 2, value_type, value_type_name)],
            map_entry=True,
        )

    def method(name, input_, output, http=None, body=None, lro=None,
               client_streaming=False, server_streaming=False, signature=None):
        m = pb.MethodDescriptorProto(
            name=name, input_type=input_, output_type=output,
            client_streaming=client_streaming, server_streaming=server_streaming,
        )
        if http:
            verb, uri = http
            rule = m.options.Extensions[annotations_pb2.http]
            setattr(rule, verb, uri)
            if body:
                rule.body = body
        if lro:
            info = m.options.Extensions[operations_pb2.operation_info]
            info.response_type, info.metadata_type = lro
        if signature is not None:
            m.options.Extensions[client_pb2.method_signature].append(signature)
        return m

    def service(name, host, methods):
        s = pb.ServiceDescriptorProto(name=name, method=methods)
        s.options.Extensions[client_pb2.default_host] = host
        return s

    def file_(name, package, messages=(), services=(), deps=(), definitions=()):
        fd = pb.FileDescriptorProto(
            name=name, package=package, syntax="proto3",
            message_type=list(messages), service=list(services), dependency=list(deps),
        )
        for type_, patterns in definitions:
            d = fd.options.Extensions[resource_pb2.resource_definition].add()
            d.type = type_
            d.pattern.extend(patterns)
        return fd

    def closure(*descriptors):
        """FileDescriptorProtos of well-known files and all their imports."""
        seen, ordered = set(), []

        def visit(desc):
            if desc.name in seen:
                return
            seen.add(desc.name)
            for dep in desc.dependencies:
                visit(dep)
            fd = pb.FileDescriptorProto()
            desc.CopyToProto(fd)
            ordered.append(fd)

        for desc in descriptors:
            visit(desc)
        return ordered

    common_deps = closure(
        annotations_pb2.DESCRIPTOR, client_pb2.DESCRIPTOR, resource_pb2.DESCRIPTOR,
        operations_pb2.DESCRIPTOR,
    )
    dep_names = [
        "google/api/annotations.proto", "google/api/client.proto",
        "google/api/resource.proto", "google/longrunning/operations.proto",
    ]
    OPERATION = ".google.longrunning.Operation"
    cases = []

    def add(name, package, options, files):
        cases.append({
            "name": name, "package": package, "options": options,
            "files": [fd.SerializeToString() for fd in common_deps + files],
        })

    # 1. Library: multi-pattern resources, `=**`, non-slash separators, a
    #    singleton suffix, references by type and by child_type, a file-level
    #    definition, paging, LRO, method signatures.  Default transports.
    P = "google.example.library.v1"
    lib = file_(
        "google/example/library/v1/library.proto", P, deps=dep_names,
        definitions=[
            ("library.googleapis.com/Publisher",
             ["publishers/{publisher}", "organizations/{organization}/publishers/{publisher}"]),
            ("library.googleapis.com/Unused", ["unused/{unused}"]),
        ],
        messages=[
            message("Shelf", [field("name", 1), field("theme", 2)],
                    resource=("library.googleapis.com/Shelf",
                              ["projects/{project}/shelves/{shelf}", "shelves/{shelf}"])),
            message("Book",
                    [field("name", 1),
                     field("publisher", 2, ref="library.googleapis.com/Publisher"),
                     field("blob", 3, ref="library.googleapis.com/Blob")],
                    resource=("library.googleapis.com/Book",
                              ["shelves/{shelf}/books/{book_id}~{edition}.{printing}"])),
            message("Blob", [field("name", 1)],
                    resource=("library.googleapis.com/Blob",
                              ["buckets/{bucket}/objects/{object_path=**}"])),
            message("Settings", [field("name", 1)],
                    resource=("library.googleapis.com/Settings",
                              ["projects/{project}/shelves/{shelf}/settings"])),
            message("GetBookRequest",
                    [field("name", 1, ref="library.googleapis.com/Book")]),
            message("ListBooksRequest",
                    [field("parent", 1, child="library.googleapis.com/Book"),
                     field("page_size", 2, INT32), field("page_token", 3)]),
            message("ListBooksResponse",
                    [field("books", 1, MESSAGE, f".{P}.Book", repeated=True),
                     field("next_page_token", 2)]),
            message("MoveBookRequest",
                    [field("name", 1, ref="library.googleapis.com/Book"),
                     field("other_shelf", 2, ref="library.googleapis.com/Shelf"),
                     field("project", 3, ref="cloudresourcemanager.googleapis.com/Project"),
                     field("anything", 4, ref="*")]),
            message("MoveBookMetadata", [field("settings", 1, MESSAGE, f".{P}.Settings")]),
        ],
        services=[service("LibraryService", "library.googleapis.com", [
            method("GetBook", f".{P}.GetBookRequest", f".{P}.Book",
                   http=("get", "/v1/{name=shelves/*/books/*}"), signature="name"),
            method("ListBooks", f".{P}.ListBooksRequest", f".{P}.ListBooksResponse",
                   http=("get", "/v1/{parent=shelves/*}/books"), signature="parent"),
            method("MoveBook", f".{P}.MoveBookRequest", OPERATION,
                   http=("post", "/v1/{name=shelves/*/books/*}:move"), body="*",
                   lro=("Book", "MoveBookMetadata")),
        ])],
    )
    add("library-default", P, "", [lib])

    # 2. REST only with numeric enums: the wildcard pattern, reserved-word and
    #    odd-case resource names, a resource without patterns, a type without
    #    a slash, a message that shadows a common resource type.
    P = "google.example.zoo.v1beta1"
    zoo = file_(
        "google/example/zoo/v1beta1/zoo.proto", P, deps=dep_names,
        messages=[
            message("Class", [field("name", 1), field("import", 2)],
                    resource=("zoo.googleapis.com/Class", ["classes/{class}"])),
            message("Anything", [field("name", 1)],
                    resource=("zoo.googleapis.com/Anything", ["*"])),
            message("Patternless", [field("name", 1)],
                    resource=("zoo.googleapis.com/Patternless", [])),
            message("Slashless", [field("name", 1)],
                    resource=("SlashlessThing", ["things/{thing}_{variant}-{x1}"])),
            message("HTTPEndpointV2", [field("name", 1)],
                    resource=("zoo.googleapis.com/HTTPEndpointV2",
                              ["regions/{region}/httpEndpoints/{http_endpoint}/rev"])),
            message("Location", [field("name", 1)],
                    resource=("locations.googleapis.com/Location",
                              ["projects/{project}/locations/{location}"])),
            message("aardvark", [field("name", 1)],
                    resource=("zoo.googleapis.com/aardvark", ["aardvarks/{aardvark}"])),
            message("Zebra", [field("name", 1)],
                    resource=("other.googleapis.com/Class", ["zebras/{zebra}"])),
            message("CreateRequest",
                    [field("parent", 1, ref="locations.googleapis.com/Location"),
                     field("class", 2, MESSAGE, f".{P}.Class"),
                     field("anything", 3, MESSAGE, f".{P}.Anything"),
                     field("patternless", 4, MESSAGE, f".{P}.Patternless"),
                     field("slashless", 5, MESSAGE, f".{P}.Slashless"),
                     field("endpoint", 6, MESSAGE, f".{P}.HTTPEndpointV2"),
                     field("location", 7, MESSAGE, f".{P}.Location"),
                     field("aardvark", 8, MESSAGE, f".{P}.aardvark"),
                     field("zebra", 9, MESSAGE, f".{P}.Zebra"),
                     field("missing", 10, ref="zoo.googleapis.com/DoesNotExist")]),
        ],
        services=[service("Zoo", "zoo.googleapis.com", [
            method("Create", f".{P}.CreateRequest", f".{P}.Class",
                   http=("post", "/v1beta1/{parent=projects/*/locations/*}/classes"),
                   body="class"),
        ])],
    )
    add("zoo-rest-numeric", P, "transport=rest,rest-numeric-enums", [zoo])

    # 3. Two files, a sub-package, three services: file-level definitions that
    #    only an importer refers to, references buried in nested / map /
    #    repeated / oneof fields, streaming.  No snippets.
    P = "google.example.fleet.v2"
    res = file_(
        "google/example/fleet/v2/resources.proto", P, deps=dep_names,
        definitions=[
            ("fleet.googleapis.com/Depot",
             ["projects/{project}/depots/{depot}", "depots/{depot}"]),
            ("fleet.googleapis.com/Route", ["routes/{route=**}"]),
        ],
        messages=[
            message("Vehicle",
                    [field("name", 1),
                     field("depot", 2, ref="fleet.googleapis.com/Depot"),
                     field("parts", 3, MESSAGE, f".{P}.Vehicle.PartsEntry", repeated=True),
                     field("labels", 4, MESSAGE, f".{P}.Vehicle.LabelsEntry", repeated=True)],
                    resource=("fleet.googleapis.com/Vehicle",
                              ["projects/{project}/vehicles/{vehicle}"]),
                    nested=[map_entry("PartsEntry", MESSAGE, f".{P}.Part"),
                            map_entry("LabelsEntry")]),
            message("Part",
                    [field("serial", 1),
                     field("maker", 2, ref="fleet.googleapis.com/Maker"),
                     field("history", 3, MESSAGE, f".{P}.Part.Event", repeated=True)],
                    nested=[message("Event",
                                    [field("route", 1, ref="fleet.googleapis.com/Route"),
                                     field("done", 2, BOOL)])]),
            message("Maker", [field("name", 1)],
                    resource=("fleet.googleapis.com/Maker", ["makers/{maker}"])),
        ],
    )
    SUB = P + ".telemetry"
    svc = file_(
        "google/example/fleet/v2/telemetry/service.proto", SUB,
        deps=dep_names + ["google/example/fleet/v2/resources.proto"],
        definitions=[("fleet.googleapis.com/Sensor", ["vehicles/{vehicle}/sensors/{sensor}"])],
        messages=[
            message("Ping",
                    [field("vehicle", 1, ref="fleet.googleapis.com/Vehicle"),
                     field("sensor", 2, ref="fleet.googleapis.com/Sensor", oneof=0),
                     field("part", 3, MESSAGE, f".{P}.Part", oneof=0),
                     field("folder", 4, child="cloudresourcemanager.googleapis.com/Folder")],
                    oneofs=["source"]),
            message("Pong", [field("vehicle", 1, MESSAGE, f".{P}.Vehicle")]),
            message("Plain", [field("text", 1)]),
        ],
        services=[
            service("Telemetry", "fleet.googleapis.com", [
                method("Send", f".{SUB}.Ping", f".{SUB}.Pong",
                       http=("post", "/v2/{vehicle=projects/*/vehicles/*}:ping"), body="*"),
                method("Watch", f".{SUB}.Ping", f".{SUB}.Pong", server_streaming=True,
                       http=("get", "/v2/{vehicle=projects/*/vehicles/*}:watch")),
                method("Upload", f".{SUB}.Ping", f".{SUB}.Plain", client_streaming=True),
                method("Chat", f".{SUB}.Ping", f".{SUB}.Pong",
                       client_streaming=True, server_streaming=True),
            ]),
            service("Echo", "fleet.googleapis.com", [
                method("Say", f".{SUB}.Plain", f".{SUB}.Plain",
                       http=("post", "/v2/echo:say"), body="*"),
            ]),
        ],
    )
    top = file_(
        "google/example/fleet/v2/fleet.proto", P,
        deps=dep_names + ["google/example/fleet/v2/resources.proto"],
        messages=[message("GetVehicleRequest",
                          [field("name", 1, ref="fleet.googleapis.com/Vehicle")])],
        services=[service("Fleet", "fleet.googleapis.com", [
            method("GetVehicle", f".{P}.GetVehicleRequest", f".{P}.Vehicle",
                   http=("get", "/v2/{name=projects/*/vehicles/*}"), signature="name"),
        ])],
    )
    add("fleet-multi-nosnippets", P, "autogen-snippets=false", [res, svc, top])

    # 4. No resource annotations at all (only the common helpers), gRPC only,
    #    plus an LRO whose response is the only place a resource shows up.
    P = "google.example.bare.v1"
    bare = file_(
        "google/example/bare/v1/bare.proto", P, deps=dep_names,
        messages=[
            message("Req", [field("q", 1), field("n", 2, INT32)]),
            message("Resp", [field("a", 1)]),
            message("Report", [field("name", 1)],
                    resource=("bare.googleapis.com/Report",
                              ["billingAccounts/{billing_account}/reports/{report}"])),
            message("Meta", [field("progress", 1, INT32)]),
        ],
        services=[
            service("Bare", "bare.googleapis.com", [
                method("Ask", f".{P}.Req", f".{P}.Resp"),
            ]),
            service("Reports", "bare.googleapis.com", [
                method("Build", f".{P}.Req", OPERATION,
                       lro=(f"{P}.Report", f"{P}.Meta")),
            ]),
        ],
    )
    add("bare-grpc", P, "transport=grpc", [bare])

    # 5. The library again with both transports spelled out and old naming.
    add("library-grpc-rest-oldnaming", "google.example.library.v1",
        "transport=grpc+rest,old-naming", [lib])

    return cases


# ---------------------------------------------------------------------------
# Driver
# ---------------------------------------------------------------------------


def run(tree, job_path, result_path):
    env = {k: v for k, v in os.environ.items() if k != "PYTHONPATH"}
    env["PYTHONHASHSEED"] = "0"
    env["PYTHONDONTWRITEBYTECODE"] = "1"
    proc = subprocess.run(
        [sys.executable, os.path.abspath(__file__), "--worker", tree, job_path, result_path],
        cwd=os.path.dirname(job_path), env=env,
        stdout=subprocess.PIPE, stderr=subprocess.STDOUT, text=True,
    )
    if proc.returncode != 0:
        print(proc.stdout)
        raise SystemExit(f"worker failed for {tree}")
    with open(result_path, "rb") as fh:
        return pickle.load(fh)


def main(argv):
    if len(argv) >= 2 and argv[1] == "--worker":
        worker(*argv[2:5])
        return 0
    if len(argv) != 2:
        print(__doc__)
        return 2
    checkout = os.path.realpath(argv[1])
    tmp = tempfile.mkdtemp(prefix="twin-W19-demo-")
    try:
        pristine = os.path.join(tmp, "pristine")
        os.mkdir(pristine)
        archive = subprocess.Popen(["git", "-C", checkout, "archive", "HEAD"],
                                   stdout=subprocess.PIPE)
        subprocess.check_call(["tar", "-x", "-C", pristine], stdin=archive.stdout)
        archive.stdout.close()
        assert archive.wait() == 0, "git archive failed"

        job_path = os.path.join(tmp, "job.pickle")
        with open(job_path, "wb") as fh:
            pickle.dump(build_cases(), fh)

        before = run(pristine, job_path, os.path.join(tmp, "before.pickle"))
        after = run(checkout, job_path, os.path.join(tmp, "after.pickle"))

        differences, files, helpers = [], 0, 0
        for case in sorted(set(before["outputs"]) | set(after["outputs"])):
            old = before["outputs"].get(case, {})
            new = after["outputs"].get(case, {})
            for name in sorted(set(old) | set(new)):
                files += 1
                if name not in old:
                    differences.append(f"{case}: {name} only with the change")
                elif name not in new:
                    differences.append(f"{case}: {name} only in the pristine tree")
                elif old[name] != new[name]:
                    differences.append(f"{case}: {name} differs")
                if name.endswith("/client.py") and name in new:
                    helpers += new[name].count(b"_path(path: str)")
        assert helpers > 40, f"only {helpers} parse helpers were generated"
        if differences:
            print(f"DIFFERENT: {len(differences)} of {files} files")
            for line in differences:
                print("  " + line)
            return 1
        print(f"IDENTICAL: {len(before['outputs'])} APIs, {files} files "
              f"({helpers} parse_*_path helpers), gapic modules checked: "
              f"{before['modules']}/{after['modules']}")
        return 0
    finally:
        shutil.rmtree(tmp, ignore_errors=True)


if __name__ == "__main__":
    sys.exit(main(sys.argv))
