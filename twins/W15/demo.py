#!/usr/bin/env python3
"""Differential demo for the W15 refactoring (property C15).

Usage:  /venv/bin/python demo.py <path-to-a-checkout-with-the-change>

Creates a pristine export of the checkout's HEAD, builds several API
descriptions in Python, runs the generator on each of them with the pristine
tree and with the checkout's working tree (one subprocess per tree, so that the
two copies of the ``gapic`` package never mix) and compares every output file
(names and contents) byte for byte.
"""
import os
import pickle
import shutil
import subprocess
import sys
import tempfile


# --------------------------------------------------------------------------
# API descriptions (built in the parent; handed to the workers serialized).
# --------------------------------------------------------------------------
def _deps_closure(*pb2_modules):
    """FileDescriptorProtos of the given pb2 modules and of everything they
    import, dependencies first."""
    from google.protobuf import descriptor_pb2

    seen, ordered = set(), []

    def visit(fd):
        if fd.name in seen:
            return
        seen.add(fd.name)
        for dep in fd.dependencies:
            visit(dep)
        ordered.append(descriptor_pb2.FileDescriptorProto.FromString(fd.serialized_pb))

    for mod in pb2_modules:
        visit(mod.DESCRIPTOR)
    return ordered


def _field(name, number, type_, label=1, type_name=None, required=False,
           oneof_index=None, resource_ref=None, proto3_optional=False):
    from google.api import field_behavior_pb2, resource_pb2
    from google.protobuf import descriptor_pb2

    f = descriptor_pb2.FieldDescriptorProto(
        name=name, number=number, type=type_, label=label, json_name=name
    )
    if type_name:
        f.type_name = type_name
    if required:
        f.options.Extensions[field_behavior_pb2.field_behavior].append(
            field_behavior_pb2.FieldBehavior.Value("REQUIRED")
        )
    if oneof_index is not None:
        f.oneof_index = oneof_index
    if proto3_optional:
        f.proto3_optional = True
    if resource_ref:
        f.options.Extensions[resource_pb2.resource_reference].type = resource_ref
    return f


T_STRING, T_INT32, T_BOOL, T_MESSAGE, T_ENUM, T_INT64, T_DOUBLE, T_BYTES = 9, 5, 8, 11, 14, 3, 1, 12
REPEATED = 3


def _message(name, fields=(), nested=(), oneofs=(), enums=(), map_entry=False,
             resource=None):
    from google.api import resource_pb2
    from google.protobuf import descriptor_pb2

    m = descriptor_pb2.DescriptorProto(name=name)
    m.field.extend(fields)
    m.nested_type.extend(nested)
    m.enum_type.extend(enums)
    for o in oneofs:
        m.oneof_decl.add(name=o)
    if map_entry:
        m.options.map_entry = True
    if resource:
        r = m.options.Extensions[resource_pb2.resource]
        r.type = resource[0]
        r.pattern.append(resource[1])
    return m


def _method(name, input_type, output_type, http=None, signatures=(),
            client_streaming=False, server_streaming=False, lro=None):
    from google.api import annotations_pb2, client_pb2
    from google.longrunning import operations_pb2
    from google.protobuf import descriptor_pb2

    m = descriptor_pb2.MethodDescriptorProto(
        name=name, input_type=input_type, output_type=output_type,
        client_streaming=client_streaming, server_streaming=server_streaming,
    )
    if http:
        verb, uri, body = http
        rule = m.options.Extensions[annotations_pb2.http]
        setattr(rule, verb, uri)
        if body:
            rule.body = body
    for sig in signatures:
        m.options.Extensions[client_pb2.method_signature].append(sig)
    if lro:
        info = m.options.Extensions[operations_pb2.operation_info]
        info.response_type, info.metadata_type = lro
    return m


def _service(name, methods, host=None, scopes=None):
    from google.api import client_pb2
    from google.protobuf import descriptor_pb2

    s = descriptor_pb2.ServiceDescriptorProto(name=name)
    s.method.extend(methods)
    if host:
        s.options.Extensions[client_pb2.default_host] = host
    if scopes:
        s.options.Extensions[client_pb2.oauth_scopes] = scopes
    return s


def _file(name, package, messages=(), services=(), enums=(), deps=()):
    from google.protobuf import descriptor_pb2

    fd = descriptor_pb2.FileDescriptorProto(name=name, package=package, syntax="proto3")
    fd.dependency.extend(deps)
    fd.message_type.extend(messages)
    fd.service.extend(services)
    fd.enum_type.extend(enums)
    return fd


def _enum(name, values):
    from google.protobuf import descriptor_pb2

    e = descriptor_pb2.EnumDescriptorProto(name=name)
    for i, v in enumerate(values):
        e.value.add(name=v, number=i)
    return e


def case_library():
    """Two services in two files, keyword RPC names, reserved-word fields,
    required fields declared after optional ones, map / repeated / oneof,
    paging, LRO, streaming, an RPC name shared by both services, an RPC whose
    request has no fields. Transports grpc+rest."""
    from google.api import annotations_pb2, client_pb2, field_behavior_pb2, resource_pb2
    from google.longrunning import operations_pb2
    from google.protobuf import empty_pb2, field_mask_pb2

    pkg = "google.example.library.v1"
    P = "." + pkg + "."
    deps = _deps_closure(annotations_pb2, client_pb2, field_behavior_pb2, resource_pb2,
                         operations_pb2, empty_pb2, field_mask_pb2)

    book = _message(
        "Book",
        [
            _field("name", 1, T_STRING),
            _field("title", 2, T_STRING),
            _field("class", 3, T_STRING),
            _field("genre", 4, T_ENUM, type_name=P + "Genre"),
            _field("labels", 5, T_MESSAGE, REPEATED, P + "Book.LabelsEntry"),
            _field("pages", 6, T_INT32, REPEATED),
            _field("isbn", 7, T_STRING, oneof_index=0),
            _field("serial", 8, T_INT64, oneof_index=0),
            _field("rating", 9, T_DOUBLE, oneof_index=1, proto3_optional=True),
        ],
        nested=[_message("LabelsEntry", [_field("key", 1, T_STRING), _field("value", 2, T_STRING)],
                         map_entry=True)],
        oneofs=["identifier", "_rating"],
        resource=("library.example.com/Book", "shelves/{shelf}/books/{book}"),
    )
    shelf = _message(
        "Shelf", [_field("name", 1, T_STRING), _field("theme", 2, T_STRING)],
        resource=("library.example.com/Shelf", "shelves/{shelf}"),
    )
    msgs_a = [
        book,
        shelf,
        # required fields are NOT declared first
        _message("CreateBookRequest", [
            _field("request_id", 1, T_STRING),
            _field("parent", 2, T_STRING, required=True, resource_ref="library.example.com/Shelf"),
            _field("validate_only", 3, T_BOOL),
            _field("book", 4, T_MESSAGE, type_name=P + "Book", required=True),
            _field("from", 5, T_STRING),
        ]),
        _message("GetBookRequest", [_field("name", 1, T_STRING, required=True,
                                           resource_ref="library.example.com/Book")]),
        _message("ListBooksRequest", [
            _field("page_size", 1, T_INT32),
            _field("page_token", 2, T_STRING),
            _field("filter", 3, T_STRING),
            _field("parent", 4, T_STRING, required=True),
        ]),
        _message("ListBooksResponse", [
            _field("books", 1, T_MESSAGE, REPEATED, P + "Book"),
            _field("next_page_token", 2, T_STRING),
        ]),
        _message("ImportBooksRequest", [
            _field("in", 1, T_STRING),
            _field("source", 2, T_STRING, required=True),
            _field("options", 3, T_MESSAGE, REPEATED, P + "ImportBooksRequest.OptionsEntry"),
        ], nested=[_message("OptionsEntry", [_field("key", 1, T_STRING), _field("value", 2, T_INT32)],
                            map_entry=True)]),
        _message("ImportBooksResponse", [_field("count", 1, T_INT32)]),
        _message("ImportBooksMetadata", [_field("progress", 1, T_INT32)]),
        _message("UpdateBookRequest", [
            _field("update_mask", 1, T_MESSAGE, type_name=".google.protobuf.FieldMask"),
            _field("book", 2, T_MESSAGE, type_name=P + "Book", required=True),
        ]),
        _message("PingRequest"),
        _message("StreamBooksRequest", [_field("parent", 1, T_STRING), _field("continue", 2, T_BOOL)]),
    ]
    library = _service("Library", [
        _method("CreateBook", P + "CreateBookRequest", P + "Book",
                http=("post", "/v1/{parent=shelves/*}/books", "book"), signatures=["parent,book"]),
        _method("GetBook", P + "GetBookRequest", P + "Book",
                http=("get", "/v1/{name=shelves/*/books/*}", None), signatures=["name"]),
        _method("ListBooks", P + "ListBooksRequest", P + "ListBooksResponse",
                http=("get", "/v1/{parent=shelves/*}/books", None), signatures=["parent"]),
        # lower-cased RPC name is a Python keyword
        _method("Import", P + "ImportBooksRequest", ".google.longrunning.Operation",
                http=("post", "/v1/books:import", "*"),
                lro=("ImportBooksResponse", "ImportBooksMetadata")),
        _method("UpdateBook", P + "UpdateBookRequest", P + "Book",
                http=("patch", "/v1/{book.name=shelves/*/books/*}", "book"),
                signatures=["book,update_mask"]),
        _method("Ping", P + "PingRequest", ".google.protobuf.Empty",
                http=("get", "/v1/ping", None)),
        _method("StreamBooks", P + "StreamBooksRequest", P + "Book",
                http=("get", "/v1/{parent=shelves/*}/books:stream", None), server_streaming=True),
        _method("UploadBooks", P + "Book", P + "ImportBooksResponse", client_streaming=True),
        _method("Chat", P + "Book", P + "Book", client_streaming=True, server_streaming=True),
    ], host="library.example.com", scopes="https://www.googleapis.com/auth/cloud-platform")
    fd_a = _file(
        "google/example/library/v1/library.proto", pkg, msgs_a, [library],
        enums=[_enum("Genre", ["GENRE_UNSPECIFIED", "FICTION", "SCIENCE"])],
        deps=["google/api/annotations.proto", "google/api/client.proto",
              "google/api/field_behavior.proto", "google/api/resource.proto",
              "google/longrunning/operations.proto", "google/protobuf/empty.proto",
              "google/protobuf/field_mask.proto"],
    )
    msgs_b = [
        # same RPC name "GetBook" as in Library but a different request shape
        _message("GetShelfBookRequest", [
            _field("view", 1, T_STRING),
            _field("shelf", 2, T_STRING, required=True),
            _field("book_id", 3, T_STRING, required=True),
        ]),
        _message("DeleteShelfRequest", [
            _field("force", 1, T_BOOL),
            _field("name", 2, T_STRING, required=True, resource_ref="library.example.com/Shelf"),
        ]),
        _message("MergeShelvesRequest", [
            _field("name", 1, T_STRING), _field("other_shelf", 2, T_STRING),
            _field("lambda", 3, T_STRING), _field("return", 4, T_BYTES, required=True),
        ]),
    ]
    shelves = _service("ShelfService", [
        _method("GetBook", P + "GetShelfBookRequest", P + "Book",
                http=("get", "/v1/{shelf=shelves/*}/book", None)),
        _method("DeleteShelf", P + "DeleteShelfRequest", ".google.protobuf.Empty",
                http=("delete", "/v1/{name=shelves/*}", None), signatures=["name"]),
        _method("Class", P + "MergeShelvesRequest", P + "Shelf",
                http=("post", "/v1/{name=shelves/*}:class", "*")),
        _method("Del", P + "MergeShelvesRequest", P + "Shelf",
                http=("post", "/v1/{name=shelves/*}:del", "*")),
    ], host="library.example.com")
    fd_b = _file(
        "google/example/library/v1/shelves.proto", pkg, msgs_b, [shelves],
        deps=["google/example/library/v1/library.proto", "google/protobuf/empty.proto",
              "google/api/annotations.proto", "google/api/client.proto",
              "google/api/field_behavior.proto", "google/api/resource.proto"],
    )
    return dict(name="library_grpc_rest", package=pkg, files=deps + [fd_a, fd_b],
                options="transport=grpc+rest,metadata")


def case_internal():
    """Selective GAPIC generation: omitted methods are generated as internal
    (underscore-prefixed methods, ``Base`` clients), including an internal
    keyword-named RPC; a second service stays fully public. Transport grpc
    (the default), snippets disabled."""
    from google.api import annotations_pb2, client_pb2, field_behavior_pb2

    pkg = "example.inventory.v1"
    P = "." + pkg + "."
    deps = _deps_closure(annotations_pb2, client_pb2, field_behavior_pb2)
    msgs = [
        _message("Item", [_field("name", 1, T_STRING), _field("count", 2, T_INT32)]),
        _message("GetItemRequest", [_field("name", 1, T_STRING, required=True)]),
        _message("PurgeRequest", [
            _field("dry_run", 1, T_BOOL), _field("filter", 2, T_STRING, required=True),
            _field("global", 3, T_BOOL), _field("parent", 4, T_STRING, required=True),
        ]),
        _message("CountRequest", [_field("kinds", 1, T_STRING, REPEATED)]),
    ]
    stock = _service("Stock", [
        _method("GetItem", P + "GetItemRequest", P + "Item",
                http=("get", "/v1/{name=items/*}", None), signatures=["name"]),
        _method("Purge", P + "PurgeRequest", P + "Item",
                http=("post", "/v1/{parent=stores/*}:purge", "*")),
        _method("Raise", P + "PurgeRequest", P + "Item",
                http=("post", "/v1/{parent=stores/*}:raise", "*")),
        _method("_Hidden", P + "CountRequest", P + "Item"),
    ], host="inventory.example.com")
    audit = _service("Audit", [
        _method("Count", P + "CountRequest", P + "Item", http=("post", "/v1/items:count", "*")),
    ], host="inventory.example.com")
    fd = _file("example/inventory/v1/inventory.proto", pkg, msgs, [stock, audit],
               deps=["google/api/annotations.proto", "google/api/client.proto",
                     "google/api/field_behavior.proto"])
    yaml_text = "\n".join([
        "type: google.api.Service",
        "config_version: 3",
        "name: inventory.example.com",
        "publishing:",
        "  library_settings:",
        "  - version: example.inventory.v1",
        "    python_settings:",
        "      common:",
        "        selective_gapic_generation:",
        "          methods:",
        "          - example.inventory.v1.Stock.GetItem",
        "          - example.inventory.v1.Audit.Count",
        "          generate_omitted_as_internal: true",
        "",
    ])
    return dict(name="internal_grpc", package=pkg, files=deps + [fd],
                options="metadata,autogen-snippets=false", service_yaml=yaml_text)


def case_rest_iam():
    """REST-only transport with numeric enums, IAM methods added to the
    fix-up table (``add-iam-methods``), custom namespace / name options,
    sub-package with its own service, methods with no HTTP rule."""
    from google.api import annotations_pb2, client_pb2, field_behavior_pb2

    pkg = "acme.storage.v2"
    P = "." + pkg + "."
    deps = _deps_closure(annotations_pb2, client_pb2, field_behavior_pb2)
    msgs = [
        _message("Bucket", [
            _field("name", 1, T_STRING), _field("tier", 2, T_ENUM, type_name=P + "Tier"),
            _field("tags", 3, T_STRING, REPEATED),
        ]),
        _message("CreateBucketRequest", [
            _field("bucket_id", 1, T_STRING),
            _field("bucket", 2, T_MESSAGE, type_name=P + "Bucket", required=True),
            _field("parent", 3, T_STRING, required=True),
            _field("tier", 4, T_ENUM, type_name=P + "Tier"),
        ]),
        _message("ListBucketsRequest", [
            _field("parent", 1, T_STRING), _field("page_size", 2, T_INT32),
            _field("page_token", 3, T_STRING),
        ]),
        _message("ListBucketsResponse", [
            _field("buckets", 1, T_MESSAGE, REPEATED, P + "Bucket"),
            _field("next_page_token", 2, T_STRING),
        ]),
    ]
    buckets = _service("Buckets", [
        _method("CreateBucket", P + "CreateBucketRequest", P + "Bucket",
                http=("post", "/v2/{parent=projects/*}/buckets", "bucket"),
                signatures=["parent,bucket,bucket_id"]),
        _method("ListBuckets", P + "ListBucketsRequest", P + "ListBucketsResponse",
                http=("get", "/v2/{parent=projects/*}/buckets", None)),
        _method("Yield", P + "ListBucketsRequest", P + "Bucket",
                http=("get", "/v2/{parent=projects/*}:yield", None)),
    ], host="storage.acme.example")
    fd = _file("acme/storage/v2/storage.proto", pkg, msgs, [buckets],
               enums=[_enum("Tier", ["TIER_UNSPECIFIED", "HOT", "COLD"])],
               deps=["google/api/annotations.proto", "google/api/client.proto",
                     "google/api/field_behavior.proto"])
    sub = pkg + ".admin"
    S = "." + sub + "."
    sub_msgs = [
        _message("LockRequest", [
            _field("reason", 1, T_STRING), _field("bucket", 2, T_STRING, required=True),
        ]),
        _message("LockResponse", [_field("locked", 1, T_BOOL)]),
    ]
    admin = _service("AdminService", [
        _method("Lock", S + "LockRequest", S + "LockResponse",
                http=("post", "/v2/{bucket=buckets/*}:lock", "*"), signatures=["bucket"]),
        _method("Global", S + "LockRequest", S + "LockResponse",
                http=("post", "/v2/{bucket=buckets/*}:global", "*")),
    ], host="storage.acme.example")
    fd_sub = _file("acme/storage/v2/admin/admin.proto", sub, sub_msgs, [admin],
                   deps=["google/api/annotations.proto", "google/api/client.proto",
                         "google/api/field_behavior.proto"])
    return dict(name="rest_iam_numeric", package=pkg, files=deps + [fd, fd_sub],
                options="transport=rest,metadata,rest-numeric-enums,add-iam-methods,autogen-snippets=false,"
                        "python-gapic-namespace=acme.cloud,python-gapic-name=objstore")


def case_plain():
    """No annotations at all (no required fields, no HTTP rules, no host), a
    service without methods, an empty request message, streaming RPCs, an
    un-versioned package. Transport grpc only."""
    pkg = "plain.echo"
    P = "." + pkg + "."
    msgs = [
        _message("EchoRequest", [
            _field("content", 1, T_STRING), _field("not", 2, T_BOOL),
            _field("nested", 3, T_MESSAGE, type_name=P + "EchoRequest.Inner"),
        ], nested=[_message("Inner", [_field("depth", 1, T_INT32)])]),
        _message("EchoResponse", [_field("content", 1, T_STRING)]),
        _message("Nothing"),
    ]
    echo = _service("Echo", [
        _method("Echo", P + "EchoRequest", P + "EchoResponse"),
        _method("Expand", P + "EchoRequest", P + "EchoResponse", server_streaming=True),
        _method("Collect", P + "EchoRequest", P + "EchoResponse", client_streaming=True),
        _method("Noop", P + "Nothing", P + "Nothing"),
        _method("Try", P + "Nothing", P + "EchoResponse"),
    ])
    idle = _service("Idle", [])
    fd = _file("plain/echo/echo.proto", pkg, msgs, [echo, idle])
    return dict(name="plain_grpc", package=pkg, files=[fd], options="transport=grpc,metadata")


def case_mixins_all_transports():
    """Same API as the REST case but with every transport and metadata on,
    default names, IAM methods not added."""
    spec = case_rest_iam()
    spec["name"] = "storage_all_transports"
    spec["options"] = "transport=grpc+rest,metadata,autogen-snippets=false"
    return spec


CASES = (case_library, case_internal, case_rest_iam, case_plain, case_mixins_all_transports)


# --------------------------------------------------------------------------
# Worker: run the generator of ONE tree on every case.
# --------------------------------------------------------------------------
def worker(tree, spec_path, out_path, scratch):
    tree = os.path.realpath(tree)

    def provides_gapic(entry):
        try:
            entry = os.path.realpath(entry or os.getcwd())
        except OSError:
            return False
        return entry != tree and os.path.isdir(os.path.join(entry, "gapic"))

    # The venv has an editable install of another checkout: drop its finder
    # and any path entry that provides ``gapic``; put the tree under test first.
    sys.meta_path[:] = [
        f for f in sys.meta_path
        if "__editable__" not in (getattr(f, "__module__", "") or "")
        and "__editable__" not in type(f).__module__
        and "__editable__" not in getattr(f, "__name__", "")
    ]
    def is_editable_hook(hook):
        owner = getattr(hook, "__self__", hook)
        return "__editable__" in (getattr(owner, "__module__", "") or "") or (
            "__editable__" in (getattr(hook, "__module__", "") or "")
        )

    # ``gapic`` is a namespace package: the editable install also contributes
    # a portion through a path hook triggered by a placeholder path entry.
    sys.path_hooks[:] = [h for h in sys.path_hooks if not is_editable_hook(h)]
    sys.path[:] = [tree] + [
        p for p in sys.path if "__editable__" not in p and not provides_gapic(p)
    ]
    for name in [n for n in sys.modules if n == "gapic" or n.startswith("gapic.")]:
        del sys.modules[name]
    sys.path_importer_cache.clear()

    import pypandoc

    def fake_convert_text(text, to, format=None, extra_args=(), **kwargs):
        # Deterministic stand-in for pandoc (not installed); same in both runs.
        return "\n".join(line.rstrip() for line in str(text).splitlines())

    pypandoc.convert_text = fake_convert_text

    from google.protobuf import descriptor_pb2
    from gapic.generator import Generator
    from gapic.schema.api import API
    from gapic.utils import Options

    with open(spec_path, "rb") as fh:
        specs = pickle.load(fh)

    results = {}
    for spec in specs:
        opt_string = spec["options"]
        if spec.get("service_yaml"):
            ypath = os.path.join(scratch, spec["name"] + "_service.yaml")
            with open(ypath, "w") as fh:
                fh.write(spec["service_yaml"])
            opt_string += ",service-yaml=" + ypath
        opts = Options.build(opt_string)
        for tdir in opts.templates:
            assert os.path.realpath(tdir).startswith(tree + os.sep), (tdir, tree)
        fds = [descriptor_pb2.FileDescriptorProto.FromString(b) for b in spec["files"]]
        api = API.build(fds, package=spec["package"], opts=opts)
        generator = Generator(opts)
        for sp in generator._env.loader.searchpath:
            assert os.path.realpath(sp).startswith(tree + os.sep), (sp, tree)
        response = generator.get_response(api, opts)
        files = {}
        for f in response.file:
            assert f.name not in files, "duplicate output file " + f.name
            files[f.name] = f.content
        results[spec["name"]] = files

    loaded = 0
    for name, mod in sorted(sys.modules.items()):
        if name == "gapic" or name.startswith("gapic."):
            origin = getattr(mod, "__file__", None)
            # ``gapic`` itself may be a namespace package (no __file__).
            origins = [origin] if origin else list(getattr(mod, "__path__", []))
            assert origins, name
            for origin in origins:
                assert os.path.realpath(origin).startswith(tree + os.sep), (name, origin)
            loaded += 1
    assert loaded > 10, loaded

    with open(out_path, "wb") as fh:
        pickle.dump(results, fh)


# --------------------------------------------------------------------------
# Parent: export HEAD, run both trees, compare.
# --------------------------------------------------------------------------
def main(checkout):
    checkout = os.path.realpath(checkout)
    tmp = tempfile.mkdtemp(prefix="twin-W15-demo-")
    try:
        base = os.path.join(tmp, "base")
        os.mkdir(base)
        archive = subprocess.Popen(["git", "-C", checkout, "archive", "HEAD"],
                                   stdout=subprocess.PIPE)
        subprocess.check_call(["tar", "-x", "-C", base], stdin=archive.stdout)
        archive.stdout.close()
        if archive.wait() != 0:
            raise SystemExit("git archive failed")

        specs = []
        for build in CASES:
            spec = build()
            spec["files"] = [fd.SerializeToString(deterministic=True) for fd in spec["files"]]
            specs.append(spec)
        spec_path = os.path.join(tmp, "specs.pickle")
        with open(spec_path, "wb") as fh:
            pickle.dump(specs, fh)

        outputs = {}
        for label, tree in (("base", base), ("changed", checkout)):
            out_path = os.path.join(tmp, label + ".pickle")
            scratch = os.path.join(tmp, "scratch")  # same path for both runs
            os.makedirs(scratch, exist_ok=True)
            env = dict(os.environ, PYTHONHASHSEED="0", PYTHONDONTWRITEBYTECODE="1")
            env.pop("PYTHONPATH", None)
            subprocess.check_call(
                [sys.executable, os.path.abspath(__file__), "--worker", tree, spec_path,
                 out_path, scratch],
                cwd=tmp, env=env,
            )
            with open(out_path, "rb") as fh:
                outputs[label] = pickle.load(fh)

        problems = []
        total = 0
        for spec in specs:
            a, b = outputs["base"][spec["name"]], outputs["changed"][spec["name"]]
            assert a, "no output for " + spec["name"]
            # the artefacts of the property must actually be produced
            assert any(n.endswith("gapic_metadata.json") for n in a), spec["name"]
            assert any("fixup_" in n and n.endswith("_keywords.py") for n in a), spec["name"]
            for name in sorted(set(a) | set(b)):
                total += 1
                if name not in a:
                    problems.append("%s: only in changed tree: %s" % (spec["name"], name))
                elif name not in b:
                    problems.append("%s: only in base tree: %s" % (spec["name"], name))
                elif a[name] != b[name]:
                    problems.append("%s: content differs: %s" % (spec["name"], name))
        if problems:
            print("DIFFERENT: %d of %d files differ" % (len(problems), total))
            for p in problems:
                print("  " + p)
            return 1
        print("IDENTICAL: %d cases, %d output files compared byte for byte" % (len(specs), total))
        return 0
    finally:
        shutil.rmtree(tmp, ignore_errors=True)


if __name__ == "__main__":
    if len(sys.argv) >= 2 and sys.argv[1] == "--worker":
        worker(*sys.argv[2:6])
        sys.exit(0)
    if len(sys.argv) != 2:
        sys.exit("usage: demo.py <path-to-a-checkout-with-the-change>")
    sys.exit(main(sys.argv[1]))
