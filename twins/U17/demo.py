#!/usr/bin/env python
"""Equivalence demo for the U17 refactoring (property C17: mixin RPCs).

Usage:  /venv/bin/python demo.py <path-to-a-checkout-with-the-change>

* exports the pristine HEAD of that checkout (`git archive HEAD | tar -x`),
* builds several API descriptions (FileDescriptorProtos + service YAMLs + option strings)
  that exercise the mixin selection code and the mixin templates,
* runs the generator on every case with BOTH trees (HEAD export vs. working tree), each in
  its own subprocess so that the two copies of the `gapic` package never mix,
* compares every output file (names and bytes) plus a dump of the schema-level mixin data.

Exit 0 and a one-line summary when everything is identical; exit 1 and a list of the
differing files otherwise.
"""
import json
import os
import pickle
import shutil
import subprocess
import sys
import tempfile

# --------------------------------------------------------------------------------------
# Worker: runs inside a subprocess, with exactly one tree providing `gapic`.
# --------------------------------------------------------------------------------------
WORKER = r'''
import importlib, os, pickle, sys

tree, cases_path, out_path = sys.argv[1:4]
tree = os.path.realpath(tree)

# 1. Only `tree` may provide `gapic`: drop the editable-install finder / path hook of the
#    venv and every other path entry that has a `gapic` directory.
sys.meta_path[:] = [
    f for f in sys.meta_path
    if "__editable__" not in (getattr(f, "__module__", "") or "")
    and "__editable__" not in getattr(f, "__name__", "")
    and "__editable__" not in type(f).__name__
]
sys.path_hooks[:] = [
    h for h in sys.path_hooks
    if "__editable__" not in (getattr(h, "__module__", "") or "")
    and "__editable__" not in getattr(h, "__qualname__", "")
]
kept = []
for entry in sys.path:
    if "__editable__" in entry:
        continue
    real = os.path.realpath(entry or os.getcwd())
    if real != tree and os.path.isdir(os.path.join(real, "gapic")):
        continue
    if real == tree:
        continue
    kept.append(entry)
sys.path[:] = [tree] + kept
sys.path_importer_cache.clear()
importlib.invalidate_caches()
for name in [m for m in sys.modules if m == "gapic" or m.startswith("gapic.")]:
    del sys.modules[name]

# 2. pandoc is not installed here: stub pypandoc.convert_text (identically for both trees)
#    whenever the real one cannot run.
import pypandoc
try:
    pypandoc.convert_text("probe *x*", "rst", format="commonmark")
except Exception:
    def _convert_text(source, to, format=None, extra_args=(), **kw):
        return source
    pypandoc.convert_text = _convert_text

from google.protobuf import descriptor_pb2
import gapic
from gapic.schema.api import API
from gapic.generator import Generator
from gapic.utils import Options

def check_origin(opts):
    assert [os.path.realpath(p) for p in gapic.__path__] == [os.path.join(tree, "gapic")], list(gapic.__path__)
    for name, mod in list(sys.modules.items()):
        if name == "gapic" or name.startswith("gapic."):
            f = getattr(mod, "__file__", None)
            if f is not None:
                assert os.path.realpath(f).startswith(tree + os.sep), (name, f)
            for p in getattr(mod, "__path__", []) or []:
                assert os.path.realpath(p).startswith(tree + os.sep), (name, p)
    assert opts.templates, opts
    for t in opts.templates:
        assert os.path.realpath(t).startswith(os.path.join(tree, "gapic") + os.sep), t

with open(cases_path, "rb") as fh:
    cases = pickle.load(fh)

results = {}
for case in cases:
    fds = []
    for blob in case["fds"]:
        fd = descriptor_pb2.FileDescriptorProto()
        fd.ParseFromString(blob)
        fds.append(fd)
    opts = Options.build(case["opts"])
    check_origin(opts)
    api = API.build(fds, package=case["package"], opts=opts)
    files = {}
    # Schema-level view of what the refactored Python computes (order matters).
    dump = []
    dump.append("has_location_mixin=%r has_iam_mixin=%r has_operations_mixin=%r _has_iam_overrides=%r"
                % (api.has_location_mixin, api.has_iam_mixin, api.has_operations_mixin, api._has_iam_overrides))
    for name, m in api.mixin_api_methods.items():
        dump.append("METHOD %s type=%s %s" % (name, type(m).__name__, m.SerializeToString(deterministic=True).hex()))
    for name, rules in api.mixin_http_options.items():
        dump.append("HTTP %s type=%s %r" % (name, type(rules).__name__, rules))
    for name, sig in api.mixin_api_signatures.items():
        dump.append("SIG %s %r" % (name, sig))
    from google.iam.v1 import iam_policy_pb2
    from google.longrunning import operations_pb2
    from google.cloud.location import locations_pb2
    for mod in (locations_pb2, iam_policy_pb2, operations_pb2):
        got = api._get_methods_from_service(mod)
        dump.append("RAW %s type=%s %r" % (mod.DESCRIPTOR.name, type(got).__name__,
                    [(k, v.SerializeToString(deterministic=True).hex()) for k, v in got.items()]))
    files["__schema__/mixins.txt"] = "\n".join(dump)
    resp = Generator(opts).get_response(api, opts)
    assert not resp.error, resp.error
    for f in resp.file:
        assert f.name not in files, f.name
        files[f.name] = f.content
    check_origin(opts)
    results[case["name"]] = files

with open(out_path, "wb") as fh:
    pickle.dump(results, fh)
'''

# --------------------------------------------------------------------------------------
# Descriptor building helpers (main process; never imports `gapic`).
# --------------------------------------------------------------------------------------
from google.api import annotations_pb2, client_pb2, field_behavior_pb2, resource_pb2  # noqa: E402
from google.cloud.location import locations_pb2  # noqa: E402,F401
from google.iam.v1 import iam_policy_pb2, policy_pb2  # noqa: E402,F401
from google.longrunning import operations_pb2  # noqa: E402
from google.protobuf import descriptor_pb2, empty_pb2  # noqa: E402,F401

T = descriptor_pb2.FieldDescriptorProto


def dep_closure(*modules):
    """FileDescriptorProtos of the given pb2 modules and all they import, dependencies first."""
    seen, order = set(), []

    def visit(fd):
        if fd.name in seen:
            return
        seen.add(fd.name)
        for dep in fd.dependencies:
            visit(dep)
        proto = descriptor_pb2.FileDescriptorProto()
        fd.CopyToProto(proto)
        order.append(proto)

    for mod in modules:
        visit(mod.DESCRIPTOR)
    return order


COMMON_DEPS = (annotations_pb2, client_pb2, field_behavior_pb2, resource_pb2, empty_pb2)


def field(name, number, ftype=T.TYPE_STRING, *, repeated=False, type_name=None, oneof=None,
          required=False, ref=None, child_ref=None, optional3=False):
    f = T(name=name, number=number, type=ftype,
          label=T.LABEL_REPEATED if repeated else T.LABEL_OPTIONAL)
    if type_name:
        f.type_name = type_name
    if oneof is not None:
        f.oneof_index = oneof
    if optional3:
        f.proto3_optional = True
    if required:
        f.options.Extensions[field_behavior_pb2.field_behavior].append(field_behavior_pb2.REQUIRED)
    if ref:
        f.options.Extensions[resource_pb2.resource_reference].type = ref
    if child_ref:
        f.options.Extensions[resource_pb2.resource_reference].child_type = child_ref
    return f


def message(name, fields, *, oneofs=(), nested=(), enums=(), resource=None):
    m = descriptor_pb2.DescriptorProto(name=name)
    m.field.extend(fields)
    for o in oneofs:
        m.oneof_decl.add(name=o)
    m.nested_type.extend(nested)
    m.enum_type.extend(enums)
    if resource:
        rtype, patterns = resource
        res = m.options.Extensions[resource_pb2.resource]
        res.type = rtype
        res.pattern.extend(patterns)
    return m


def map_entry(name, value_type=T.TYPE_STRING, value_type_name=None):
    e = descriptor_pb2.DescriptorProto(name=name)
    e.field.add(name="key", number=1, type=T.TYPE_STRING, label=T.LABEL_OPTIONAL)
    v = e.field.add(name="value", number=2, type=value_type, label=T.LABEL_OPTIONAL)
    if value_type_name:
        v.type_name = value_type_name
    e.options.map_entry = True
    return e


def enum(name, *values):
    e = descriptor_pb2.EnumDescriptorProto(name=name)
    for i, v in enumerate(values):
        e.value.add(name=v, number=i)
    return e


def rpc(name, inp, out, *, http=None, body=None, extra_http=(), sigs=(), client_stream=False,
        server_stream=False, lro=None):
    m = descriptor_pb2.MethodDescriptorProto(name=name, input_type=inp, output_type=out,
                                             client_streaming=client_stream,
                                             server_streaming=server_stream)
    if http:
        verb, uri = http
        rule = m.options.Extensions[annotations_pb2.http]
        setattr(rule, verb, uri)
        if body:
            rule.body = body
        for verb2, uri2, body2 in extra_http:
            b = rule.additional_bindings.add()
            setattr(b, verb2, uri2)
            if body2:
                b.body = body2
    for s in sigs:
        m.options.Extensions[client_pb2.method_signature].append(s)
    if lro:
        info = m.options.Extensions[operations_pb2.operation_info]
        info.response_type, info.metadata_type = lro
    return m


def service(name, host, methods, scopes="https://www.googleapis.com/auth/cloud-platform"):
    s = descriptor_pb2.ServiceDescriptorProto(name=name)
    s.method.extend(methods)
    if host:
        s.options.Extensions[client_pb2.default_host] = host
    if scopes:
        s.options.Extensions[client_pb2.oauth_scopes] = scopes
    return s


def proto_file(name, package, deps, messages=(), services=(), enums=()):
    fd = descriptor_pb2.FileDescriptorProto(name=name, package=package, syntax="proto3")
    fd.dependency.extend(deps)
    fd.message_type.extend(messages)
    fd.service.extend(services)
    fd.enum_type.extend(enums)
    return fd


STD_DEPS = ["google/api/annotations.proto", "google/api/client.proto",
            "google/api/field_behavior.proto", "google/api/resource.proto",
            "google/protobuf/empty.proto"]

# ---- HTTP rules of a service YAML -----------------------------------------------------
ALL_LRO_RULES = [
    {"selector": "google.longrunning.Operations.ListOperations",
     "get": "/v1/{name=projects/*/locations/*}/operations",
     "additional_bindings": [{"get": "/v1/{name=organizations/*}/operations"}]},
    {"selector": "google.longrunning.Operations.GetOperation",
     "get": "/v1/{name=projects/*/locations/*/operations/*}"},
    {"selector": "google.longrunning.Operations.DeleteOperation",
     "delete": "/v1/{name=projects/*/locations/*/operations/*}"},
    {"selector": "google.longrunning.Operations.CancelOperation",
     "post": "/v1/{name=projects/*/locations/*/operations/*}:cancel", "body": "*"},
    {"selector": "google.longrunning.Operations.WaitOperation",
     "post": "/v1/{name=projects/*/locations/*/operations/*}:wait", "body": "*"},
]
ALL_IAM_RULES = [
    {"selector": "google.iam.v1.IAMPolicy.SetIamPolicy",
     "post": "/v1/{resource=projects/*/shelves/*}:setIamPolicy", "body": "*",
     "additional_bindings": [
         {"post": "/v1/{resource=projects/*/shelves/*/books/*}:setIamPolicy", "body": "*"}]},
    {"selector": "google.iam.v1.IAMPolicy.GetIamPolicy",
     "get": "/v1/{resource=projects/*/shelves/*}:getIamPolicy",
     "additional_bindings": [
         {"post": "/v1/{resource=projects/*/shelves/*/books/*}:getIamPolicy", "body": "*"}]},
    {"selector": "google.iam.v1.IAMPolicy.TestIamPermissions",
     "post": "/v1/{resource=projects/*/shelves/*}:testIamPermissions", "body": "*"},
]
ALL_LOCATION_RULES = [
    {"selector": "google.cloud.location.Locations.ListLocations",
     "get": "/v1/{name=projects/*}/locations"},
    {"selector": "google.cloud.location.Locations.GetLocation",
     "get": "/v1/{name=projects/*/locations/*}",
     "additional_bindings": [{"get": "/v1/{name=organizations/*/locations/*}"}]},
]


def yaml_config(title, apis, rules):
    return {"type": "google.api.Service", "config_version": 3, "name": "example.googleapis.com",
            "title": title, "apis": [{"name": a} for a in apis], "http": {"rules": rules}}


# ---- API 1: a library with two services, LRO, paging, streaming, maps, oneofs ------------
def library_api(package="google.example.library.v1", with_own_iam=False):
    p = "." + package
    book = message(
        "Book",
        [field("name", 1), field("title", 2),
         field("labels", 3, T.TYPE_MESSAGE, repeated=True, type_name=p + ".Book.LabelsEntry"),
         field("tags", 4, repeated=True),
         field("isbn", 5, oneof=0), field("serial", 6, T.TYPE_INT64, oneof=0),
         field("genre", 7, T.TYPE_ENUM, type_name=p + ".Genre"),
         field("subtitle", 8, oneof=1, optional3=True)],
        oneofs=["identifier", "_subtitle"], nested=[map_entry("LabelsEntry")],
        resource=("library.googleapis.com/Book", ["projects/{project}/shelves/{shelf}/books/{book}"]))
    shelf = message(
        "Shelf", [field("name", 1), field("theme", 2)],
        resource=("library.googleapis.com/Shelf", ["projects/{project}/shelves/{shelf}"]))
    msgs = [
        book, shelf,
        message("GetBookRequest", [field("name", 1, required=True, ref="library.googleapis.com/Book")]),
        message("ListBooksRequest", [field("parent", 1, required=True, child_ref="library.googleapis.com/Book"),
                                     field("page_size", 2, T.TYPE_INT32), field("page_token", 3)]),
        message("ListBooksResponse", [field("books", 1, T.TYPE_MESSAGE, repeated=True, type_name=p + ".Book"),
                                      field("next_page_token", 2)]),
        message("CreateBookRequest", [field("parent", 1, required=True), field("book", 2, T.TYPE_MESSAGE, type_name=p + ".Book")]),
        message("WriteBookMetadata", [field("progress", 1, T.TYPE_INT32)]),
        message("GetShelfRequest", [field("name", 1, required=True, ref="library.googleapis.com/Shelf")]),
        message("DeleteShelfRequest", [field("name", 1, required=True, ref="library.googleapis.com/Shelf")]),
    ]
    lib_methods = [
        rpc("GetBook", p + ".GetBookRequest", p + ".Book",
            http=("get", "/v1/{name=projects/*/shelves/*/books/*}"), sigs=["name"]),
        rpc("ListBooks", p + ".ListBooksRequest", p + ".ListBooksResponse",
            http=("get", "/v1/{parent=projects/*/shelves/*}/books"), sigs=["parent"]),
        rpc("CreateBook", p + ".CreateBookRequest", ".google.longrunning.Operation",
            http=("post", "/v1/{parent=projects/*/shelves/*}/books"), body="book",
            sigs=["parent,book"], lro=("Book", "WriteBookMetadata")),
        rpc("StreamBooks", p + ".ListBooksRequest", p + ".Book", server_stream=True,
            http=("get", "/v1/{parent=projects/*/shelves/*}/books:stream")),
        rpc("UploadBooks", p + ".CreateBookRequest", p + ".ListBooksResponse", client_stream=True),
    ]
    shelf_methods = [
        rpc("GetShelf", p + ".GetShelfRequest", p + ".Shelf",
            http=("get", "/v1/{name=projects/*/shelves/*}"), sigs=["name"]),
        rpc("DeleteShelf", p + ".DeleteShelfRequest", ".google.protobuf.Empty",
            http=("delete", "/v1/{name=projects/*/shelves/*}"), sigs=["name"]),
    ]
    deps = STD_DEPS + ["google/longrunning/operations.proto"]
    dep_mods = list(COMMON_DEPS) + [operations_pb2]
    if with_own_iam:
        # The API itself defines RPCs named like the IAM mixin RPCs.
        target = lib_methods if with_own_iam == "library" else shelf_methods
        target += [
            rpc("SetIamPolicy", ".google.iam.v1.SetIamPolicyRequest", ".google.iam.v1.Policy",
                http=("post", "/v1/{resource=projects/*/shelves/*}:setIamPolicy"), body="*"),
            rpc("GetIamPolicy", ".google.iam.v1.GetIamPolicyRequest", ".google.iam.v1.Policy",
                http=("get", "/v1/{resource=projects/*/shelves/*}:getIamPolicy")),
        ]
        deps += ["google/iam/v1/iam_policy.proto", "google/iam/v1/policy.proto"]
        dep_mods += [iam_policy_pb2, policy_pb2]
    fd = proto_file(
        package.replace(".", "/") + "/library.proto", package, deps, msgs,
        [service("LibraryService", "library.googleapis.com", lib_methods),
         service("ShelfService", "library.googleapis.com", shelf_methods)],
        enums=[enum("Genre", "GENRE_UNSPECIFIED", "FICTION", "SCIENCE")])
    return dep_closure(*dep_mods) + [fd], package


# ---- API 2: reserved words, bidi streaming, no `google` namespace, sub-package -------------
def reserved_api():
    package = "example.reserved.v1"
    p = "." + package
    sub = package + ".sub"
    msgs = [
        message("Import", [field("class", 1), field("from", 2), field("in", 3, repeated=True),
                           field("global", 4, T.TYPE_MESSAGE, repeated=True, type_name=p + ".Import.GlobalEntry"),
                           field("name", 5), field("metadata", 6), field("retry", 7),
                           field("timeout", 8, T.TYPE_DOUBLE), field("request", 9)],
                nested=[map_entry("GlobalEntry", T.TYPE_INT32)]),
        message("Return", [field("yield", 1), field("def", 2, T.TYPE_MESSAGE, type_name=p + ".Import")]),
    ]
    fd1 = proto_file(
        "example/reserved/v1/keywords.proto", package, STD_DEPS, msgs,
        [service("Lambda", "reserved.example.com", [
            rpc("Import", p + ".Import", p + ".Return",
                http=("post", "/v1/{name=items/*}:import"), body="*", sigs=["class,from"]),
            rpc("Chat", p + ".Import", p + ".Return", client_stream=True, server_stream=True),
            rpc("Except", p + ".Import", ".google.protobuf.Empty",
                http=("delete", "/v1/{class=items/*}")),
        ])])
    fd2 = proto_file(
        "example/reserved/v1/sub/nested.proto", sub, STD_DEPS + ["example/reserved/v1/keywords.proto"],
        [message("Probe", [field("name", 1), field("payload", 2, T.TYPE_MESSAGE, type_name=p + ".Import")])],
        [service("Nested", "reserved.example.com", [
            rpc("Ping", "." + sub + ".Probe", "." + sub + ".Probe",
                http=("get", "/v1/{name=probes/*}"))], scopes=None)])
    return dep_closure(*COMMON_DEPS) + [fd1, fd2], package


def build_cases(tmp):
    cases = []

    def add(name, api, opt_string, yaml=None):
        fds, package = api
        opts = opt_string
        if yaml is not None:
            path = os.path.join(tmp, name + "_service.yaml")
            with open(path, "w") as fh:
                json.dump(yaml, fh, indent=1)  # JSON is YAML
            opts = (opts + "," if opts else "") + "service-yaml=" + path
        cases.append({"name": name, "package": package, "opts": opts,
                      "fds": [fd.SerializeToString(deterministic=True) for fd in fds]})

    all_apis = ["google.example.library.v1.LibraryService", "google.longrunning.Operations",
                "google.iam.v1.IAMPolicy", "google.cloud.location.Locations"]
    # 1. everything on: three mixin APIs, every rule (bodies, additional bindings), grpc + rest.
    add("all_mixins_grpc_rest", library_api(), "transport=grpc+rest,metadata",
        yaml_config("Library", all_apis, ALL_LOCATION_RULES + ALL_LRO_RULES + ALL_IAM_RULES))
    # 2. default transport (grpc only), subset of APIs and of rules, rules in odd order, unknown
    #    selectors, a duplicated selector (last wins), a custom-verb additional binding (dropped),
    #    reserved words, bidi streaming, a sub-package, no google namespace.
    odd_rules = [
        {"selector": "google.longrunning.Operations.CancelOperation",
         "post": "/v2/{name=operations/**}:cancel", "body": "*"},
        {"selector": "google.longrunning.Operations.NoSuchMethod", "get": "/v2/{name=x/*}"},
        {"selector": "example.reserved.v1.Lambda.Import", "post": "/v2/{name=items/*}:import", "body": "*"},
        {"selector": "google.cloud.location.Locations.GetLocation", "get": "/v2/{name=locations/*}",
         "additional_bindings": [{"custom": {"kind": "HEAD", "path": "/v2/{name=locations/*}"}},
                                 {"get": "/v2/{name=zones/*}"}]},
        {"selector": "google.longrunning.Operations.GetOperation", "get": "/v2/{name=operations/first}"},
        {"selector": "google.iam.v1.IAMPolicy.GetIamPolicy", "get": "/v2/{resource=items/*}:getIamPolicy"},
        {"selector": "google.longrunning.Operations.GetOperation", "get": "/v2/{name=operations/**}"},
    ]
    #    (snippets off: snippetgen cannot handle a service in a sub-package, unrelated to mixins.)
    add("subset_grpc_reserved", reserved_api(), "autogen-snippets=false",
        yaml_config("Reserved", ["google.cloud.location.Locations", "google.longrunning.Operations"], odd_rules))
    # 2b. same API, same YAML, rest + grpc, snippets off.
    add("subset_grpc_rest_reserved", reserved_api(), "transport=grpc+rest,autogen-snippets=false",
        yaml_config("Reserved", ["google.longrunning.Operations", "google.cloud.location.Locations"], odd_rules))
    # 3. rest only, numeric enums, no snippets; the API defines its own Set/GetIamPolicy so the
    #    IAM mixin must yield; Locations stay.
    add("iam_overridden_rest", library_api("google.example.override.v1", with_own_iam=True),
        "transport=rest,rest-numeric-enums,autogen-snippets=false",
        yaml_config("Override", ["google.iam.v1.IAMPolicy", "google.cloud.location.Locations"],
                    ALL_IAM_RULES + ALL_LOCATION_RULES))
    # 3b. same, but the override sits in the first service and only grpc is generated.
    add("iam_overridden_first_service_grpc", library_api("google.example.override2.v1", with_own_iam="library"),
        "transport=grpc",
        yaml_config("Override2", ["google.iam.v1.IAMPolicy", "google.longrunning.Operations"],
                    ALL_IAM_RULES + ALL_LRO_RULES))
    # 4. legacy add-iam-methods, no service YAML at all (grpc only, as in the wild).
    add("legacy_iam_grpc", library_api("google.example.legacy.v1"), "add-iam-methods")
    # 4b. legacy add-iam-methods together with an IAM + LRO mixin configuration.
    add("legacy_iam_with_yaml", library_api("google.example.legacyyaml.v1"), "add-iam-methods,transport=grpc",
        yaml_config("Legacy", ["google.iam.v1.IAMPolicy", "google.longrunning.Operations"],
                    ALL_IAM_RULES + ALL_LRO_RULES[:2]))
    # 5. no service YAML, grpc + rest: no mixins anywhere.
    add("no_yaml_grpc_rest", library_api("google.example.plain.v1"), "transport=grpc+rest")
    # 6. APIs listed but no HTTP rules (has_*_mixin true, no methods), and rules without the API listed.
    add("apis_without_rules", library_api("google.example.norules.v1"), "transport=grpc+rest",
        yaml_config("NoRules", ["google.longrunning.Operations", "google.iam.v1.IAMPolicy",
                                "google.cloud.location.Locations"], []))
    add("rules_without_apis", library_api("google.example.noapis.v1"), "transport=grpc+rest",
        yaml_config("NoApis", ["google.example.noapis.v1.LibraryService"],
                    ALL_LRO_RULES + ALL_IAM_RULES + ALL_LOCATION_RULES))
    # 7. IAM only (not overridden), grpc + rest; only two of the three IAM RPCs have a rule.
    add("iam_only_two_rules", library_api("google.example.iamonly.v1"), "transport=grpc+rest",
        yaml_config("IamOnly", ["google.iam.v1.IAMPolicy"], [ALL_IAM_RULES[2], ALL_IAM_RULES[0]]))
    # 8. the alternative (Ads) templates, whose copy of _rest_mixins.py.j2 was kept in sync.
    add("ads_templates_all_mixins", library_api("google.ads.example.v1"),
        "old-naming,python-gapic-templates=ads-templates,transport=grpc+rest",
        yaml_config("Ads", all_apis[1:], ALL_LRO_RULES + ALL_LOCATION_RULES + ALL_IAM_RULES))
    return cases


def run_tree(tree, cases_path, out_path, worker_path, cwd):
    env = {k: v for k, v in os.environ.items() if k not in ("PYTHONPATH", "PYTHONSTARTUP")}
    env["PYTHONHASHSEED"] = "0"
    env["PYTHONDONTWRITEBYTECODE"] = "1"
    proc = subprocess.run([sys.executable, worker_path, tree, cases_path, out_path],
                          cwd=cwd, env=env, stdout=subprocess.PIPE, stderr=subprocess.STDOUT, text=True)
    if proc.returncode != 0:
        print(proc.stdout)
        raise SystemExit("worker failed for tree %s (exit %d)" % (tree, proc.returncode))
    with open(out_path, "rb") as fh:
        return pickle.load(fh)


def main():
    if len(sys.argv) != 2:
        raise SystemExit(__doc__)
    checkout = os.path.realpath(sys.argv[1])
    tmp = tempfile.mkdtemp(prefix="twin-demo-U17-")
    try:
        base = os.path.join(tmp, "base")
        os.mkdir(base)
        archive = subprocess.Popen(["git", "-C", checkout, "archive", "HEAD"], stdout=subprocess.PIPE)
        subprocess.check_call(["tar", "-x", "-C", base], stdin=archive.stdout)
        archive.stdout.close()
        if archive.wait() != 0:
            raise SystemExit("git archive failed")
        cases = build_cases(tmp)
        cases_path = os.path.join(tmp, "cases.pickle")
        with open(cases_path, "wb") as fh:
            pickle.dump(cases, fh)
        worker_path = os.path.join(tmp, "worker.py")
        with open(worker_path, "w") as fh:
            fh.write(WORKER)
        rundir = os.path.join(tmp, "cwd")
        os.mkdir(rundir)
        old = run_tree(base, cases_path, os.path.join(tmp, "old.pickle"), worker_path, rundir)
        new = run_tree(checkout, cases_path, os.path.join(tmp, "new.pickle"), worker_path, rundir)

        diffs, nfiles, mixin_hits = [], 0, 0
        if list(old) != list(new):
            diffs.append("case lists differ: %r vs %r" % (list(old), list(new)))
        for case in old:
            a, b = old[case], new.get(case, {})
            for name in sorted(set(a) | set(b)):
                nfiles += 1
                if name not in a:
                    diffs.append("%s: only with the change: %s" % (case, name))
                elif name not in b:
                    diffs.append("%s: only at HEAD: %s" % (case, name))
                elif a[name] != b[name]:
                    diffs.append("%s: content differs: %s" % (case, name))
            mixin_hits += sum(1 for n, c in a.items()
                              if not n.startswith("__schema__") and
                              ("def get_operation" in c or "def list_locations" in c
                               or "def set_iam_policy" in c or "class _BaseGetOperation" in c))
        # Sanity: the inputs really reach the mixin code.
        if mixin_hits < 10:
            diffs.append("sanity: only %d generated files contain mixin code" % mixin_hits)
        if diffs:
            print("DIFFERENT: %d problem(s)" % len(diffs))
            for d in diffs:
                print("  " + d)
            return 1
        print("IDENTICAL: %d cases, %d files compared byte for byte (%d of them contain mixin code); "
              "HEAD export vs %s" % (len(old), nfiles, mixin_hits, checkout))
        return 0
    finally:
        shutil.rmtree(tmp, ignore_errors=True)


if __name__ == "__main__":
    sys.exit(main())
