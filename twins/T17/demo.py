#!/venv/bin/python
"""Differential check for the T17 (mixin RPC) refactoring.

Usage:  /venv/bin/python demo.py <path-to-a-checkout-with-the-change>

The checkout's HEAD is exported into a temporary directory (pristine tree) and
the generator is run, in separate subprocesses, from the pristine tree and from
the checkout's working tree on the same set of API descriptions / options /
service YAMLs.  Every output file (name and content) must be byte-identical.
Exit code 0 when everything is identical, 1 otherwise.
"""
import hashlib
import os
import pickle
import shutil
import subprocess
import sys
import tempfile

PY = sys.executable or "/venv/bin/python"


# --------------------------------------------------------------------------
# Worker: runs inside a subprocess, with exactly one copy of `gapic` visible.
# --------------------------------------------------------------------------
def worker(tree, cases_path, out_path):
    tree = os.path.realpath(tree)
    sys.path.insert(0, tree)
    os.chdir(tree)

    import pypandoc  # type: ignore

    try:
        pypandoc.get_pandoc_version()
    except Exception:
        # pandoc is not installed: identical, deterministic stub for both runs.
        def _convert_text(text, to, format=None, extra_args=(), **kw):
            return text

        pypandoc.convert_text = _convert_text

    from google.protobuf import descriptor_pb2
    from gapic.schema import api as api_mod
    from gapic.generator import generator as generator_mod
    from gapic.utils import Options
    from gapic.utils import options as options_mod

    for mod in (api_mod, generator_mod, options_mod):
        where = os.path.realpath(mod.__file__)
        assert where.startswith(tree + os.sep), (where, tree)

    with open(cases_path, "rb") as f:
        cases = pickle.load(f)

    results = {}
    for case in cases:
        fds = [
            descriptor_pb2.FileDescriptorProto.FromString(blob)
            for blob in case["files"]
        ]
        try:
            opts = Options.build(case["options"])
            # The default template directory is inside the tree under test.
            for tdir in opts.templates:
                assert os.path.realpath(tdir).startswith(tree + os.sep), tdir
            api = api_mod.API.build(fds, package=case["package"], opts=opts)
            response = generator_mod.Generator(opts).get_response(api, opts)
            files = {}
            for f in response.file:
                assert f.name not in files, f"duplicate output {f.name}"
                files[f.name] = f.content.encode("utf-8")
            # Also record what the schema layer selected: cheap extra signal.
            files["<schema>/mixin_api_methods"] = repr(
                [
                    (k, v.SerializeToString(deterministic=True))
                    for k, v in api.mixin_api_methods.items()
                ]
            ).encode()
            files["<schema>/mixin_http_options"] = repr(
                {
                    k: [(r.method, r.uri, r.body) for r in v]
                    for k, v in api.mixin_http_options.items()
                }
            ).encode()
            files["<schema>/flags"] = repr(
                (
                    api.has_location_mixin,
                    api.has_iam_mixin,
                    api.has_operations_mixin,
                    api._has_iam_overrides,
                    list(api.mixin_api_signatures),
                    api.requires_package(("google", "iam", "v1")),
                )
            ).encode()
            results[case["name"]] = {"ok": True, "files": files}
        except Exception as exc:  # compared too: both trees must agree
            results[case["name"]] = {
                "ok": False,
                "files": {"<error>": f"{type(exc).__name__}: {exc}".encode()},
            }

    with open(out_path, "wb") as f:
        pickle.dump(results, f)


# --------------------------------------------------------------------------
# Driver helpers: descriptors are built in Python (protoc is not available).
# --------------------------------------------------------------------------
def _dependency_closure(*modules):
    """FileDescriptorProtos of the given pb2 modules and all their imports,
    in dependency order (as protoc would hand them to a plugin)."""
    from google.protobuf import descriptor_pb2

    ordered = {}

    def visit(fd):
        if fd.name in ordered:
            return
        for dep in fd.dependencies:
            visit(dep)
        proto = descriptor_pb2.FileDescriptorProto()
        fd.CopyToProto(proto)
        ordered[fd.name] = proto

    for module in modules:
        visit(module.DESCRIPTOR)
    return list(ordered.values())


def _field(msg, name, number, ftype, label=None, type_name=None, oneof=None,
           proto3_optional=False):
    from google.protobuf import descriptor_pb2

    F = descriptor_pb2.FieldDescriptorProto
    f = msg.field.add()
    f.name = name
    f.number = number
    f.type = getattr(F, "TYPE_" + ftype.upper())
    f.label = label or F.LABEL_OPTIONAL
    f.json_name = name
    if type_name:
        f.type_name = type_name
    if oneof is not None:
        f.oneof_index = oneof
    if proto3_optional:
        f.proto3_optional = True
    return f


def build_demo_files(
    package="google.cloud.demo.v1",
    *,
    host="demo.googleapis.com",
    http=True,
    lro=True,
    streaming=True,
    iam_override=False,
    second_service=False,
    subpackage=False,
    reserved=True,
):
    """Returns a list of serialized FileDescriptorProtos (deps first)."""
    from google.api import annotations_pb2, client_pb2, field_behavior_pb2
    from google.api import resource_pb2
    from google.cloud.location import locations_pb2
    from google.iam.v1 import iam_policy_pb2, policy_pb2
    from google.longrunning import operations_pb2
    from google.protobuf import descriptor_pb2, empty_pb2, field_mask_pb2
    from google.protobuf import timestamp_pb2

    F = descriptor_pb2.FieldDescriptorProto
    deps = _dependency_closure(
        annotations_pb2,
        client_pb2,
        field_behavior_pb2,
        resource_pb2,
        empty_pb2,
        field_mask_pb2,
        timestamp_pb2,
        operations_pb2,
        iam_policy_pb2,
        policy_pb2,
        locations_pb2,
    )

    pkg_path = package.replace(".", "/")
    fd = descriptor_pb2.FileDescriptorProto()
    fd.name = f"{pkg_path}/library.proto"
    fd.package = package
    fd.syntax = "proto3"
    fd.dependency.extend(
        [
            "google/api/annotations.proto",
            "google/api/client.proto",
            "google/api/field_behavior.proto",
            "google/api/resource.proto",
            "google/protobuf/empty.proto",
            "google/protobuf/field_mask.proto",
            "google/protobuf/timestamp.proto",
            "google/longrunning/operations.proto",
            "google/iam/v1/iam_policy.proto",
            "google/iam/v1/policy.proto",
        ]
    )

    # enum Genre
    genre = fd.enum_type.add()
    genre.name = "Genre"
    for i, n in enumerate(["GENRE_UNSPECIFIED", "FICTION", "SCIENCE"]):
        v = genre.value.add()
        v.name, v.number = n, i

    # message Shelf (resource, map, repeated, oneof, reserved-word fields)
    shelf = fd.message_type.add()
    shelf.name = "Shelf"
    shelf.options.Extensions[resource_pb2.resource].type = f"{host}/Shelf"
    shelf.options.Extensions[resource_pb2.resource].pattern.append(
        "projects/{project}/shelves/{shelf}"
    )
    _field(shelf, "name", 1, "string")
    _field(shelf, "theme", 2, "string")
    entry = shelf.nested_type.add()
    entry.name = "LabelsEntry"
    entry.options.map_entry = True
    _field(entry, "key", 1, "string")
    _field(entry, "value", 2, "string")
    _field(shelf, "labels", 3, "message", F.LABEL_REPEATED,
           f".{package}.Shelf.LabelsEntry")
    _field(shelf, "tags", 4, "string", F.LABEL_REPEATED)
    shelf.oneof_decl.add().name = "kind"
    _field(shelf, "capacity", 5, "int32", oneof=0)
    _field(shelf, "genre", 6, "enum", type_name=f".{package}.Genre", oneof=0)
    _field(shelf, "create_time", 7, "message",
           type_name=".google.protobuf.Timestamp")
    if reserved:
        _field(shelf, "from", 8, "string")
        _field(shelf, "class", 9, "string")
        shelf.oneof_decl.add().name = "_nickname"
        _field(shelf, "nickname", 10, "string", oneof=1, proto3_optional=True)

    def request(name, fields):
        m = fd.message_type.add()
        m.name = name
        for i, spec in enumerate(fields, 1):
            fname, ftype = spec[0], spec[1]
            tname = spec[2] if len(spec) > 2 else None
            label = spec[3] if len(spec) > 3 else None
            f = _field(m, fname, i, ftype, label, tname)
            if fname in ("name", "parent"):
                f.options.Extensions[field_behavior_pb2.field_behavior].append(
                    field_behavior_pb2.REQUIRED
                )
        return m

    request("GetShelfRequest", [("name", "string")])
    request("ListShelvesRequest",
            [("parent", "string"), ("page_size", "int32"),
             ("page_token", "string"), ("filter", "string")])
    request("ListShelvesResponse",
            [("shelves", "message", f".{package}.Shelf", F.LABEL_REPEATED),
             ("next_page_token", "string")])
    request("CreateShelfRequest",
            [("parent", "string"),
             ("shelf", "message", f".{package}.Shelf"),
             ("shelf_id", "string")])
    request("UpdateShelfRequest",
            [("shelf", "message", f".{package}.Shelf"),
             ("update_mask", "message", ".google.protobuf.FieldMask")])
    request("DeleteShelfRequest", [("name", "string"), ("force", "bool")])
    request("OperationMetadata", [("progress", "int32")])
    request("ImportRequest", [("parent", "string"), ("uri", "string")])
    request("ChatMessage", [("text", "string")])

    def service(name, scopes=True):
        s = fd.service.add()
        s.name = name
        s.options.Extensions[client_pb2.default_host] = host
        if scopes:
            s.options.Extensions[client_pb2.oauth_scopes] = (
                "https://www.googleapis.com/auth/cloud-platform"
            )
        return s

    def rpc(svc, name, inp, out, verb=None, uri=None, body=None,
            signature=None, client_streaming=False, server_streaming=False,
            extra_bindings=()):
        m = svc.method.add()
        m.name = name
        m.input_type = inp if inp.startswith(".") else f".{package}.{inp}"
        m.output_type = out if out.startswith(".") else f".{package}.{out}"
        m.client_streaming = client_streaming
        m.server_streaming = server_streaming
        if http and verb:
            rule = m.options.Extensions[annotations_pb2.http]
            setattr(rule, verb, uri)
            if body:
                rule.body = body
            for verb2, uri2, body2 in extra_bindings:
                extra = rule.additional_bindings.add()
                setattr(extra, verb2, uri2)
                if body2:
                    extra.body = body2
        if signature is not None:
            m.options.Extensions[client_pb2.method_signature].append(signature)
        return m

    lib = service("Library")
    rpc(lib, "GetShelf", "GetShelfRequest", "Shelf", "get",
        "/v1/{name=projects/*/shelves/*}", signature="name")
    rpc(lib, "ListShelves", "ListShelvesRequest", "ListShelvesResponse", "get",
        "/v1/{parent=projects/*}/shelves", signature="parent")
    rpc(lib, "UpdateShelf", "UpdateShelfRequest", "Shelf", "patch",
        "/v1/{shelf.name=projects/*/shelves/*}", "shelf",
        signature="shelf,update_mask",
        extra_bindings=[("put", "/v1/{shelf.name=projects/*/shelves/*}:replace", "*")])
    rpc(lib, "DeleteShelf", "DeleteShelfRequest", ".google.protobuf.Empty",
        "delete", "/v1/{name=projects/*/shelves/*}", signature="name")
    if lro:
        m = rpc(lib, "CreateShelf", "CreateShelfRequest",
                ".google.longrunning.Operation", "post",
                "/v1/{parent=projects/*}/shelves", "shelf",
                signature="parent,shelf,shelf_id")
        info = m.options.Extensions[operations_pb2.operation_info]
        info.response_type = "Shelf"
        info.metadata_type = "OperationMetadata"
    if reserved:
        rpc(lib, "Import", "ImportRequest", "Shelf", "post",
            "/v1/{parent=projects/*}/shelves:import", "*")
    if streaming:
        rpc(lib, "StreamShelves", "ListShelvesRequest", "Shelf", "get",
            "/v1/{parent=projects/*}/shelves:stream", server_streaming=True)
        rpc(lib, "Chat", "ChatMessage", "ChatMessage",
            client_streaming=True, server_streaming=True)
        rpc(lib, "Upload", "ChatMessage", "Shelf", client_streaming=True)
    if iam_override:
        # The API itself declares RPCs with the IAM mixin names.
        rpc(lib, "SetIamPolicy", ".google.iam.v1.SetIamPolicyRequest",
            ".google.iam.v1.Policy", "post",
            "/v1/{resource=projects/*/shelves/*}:setIamPolicy", "*")
        rpc(lib, "GetIamPolicy", ".google.iam.v1.GetIamPolicyRequest",
            ".google.iam.v1.Policy", "get",
            "/v1/{resource=projects/*/shelves/*}:getIamPolicy")

    if second_service:
        other = service("Catalog", scopes=False)
        rpc(other, "LookupShelf", "GetShelfRequest", "Shelf", "get",
            "/v1/{name=projects/*/shelves/*}:lookup")
        if iam_override:
            rpc(other, "TestIamPermissions",
                ".google.iam.v1.TestIamPermissionsRequest",
                ".google.iam.v1.TestIamPermissionsResponse", "post",
                "/v1/{resource=projects/*/shelves/*}:testIamPermissions", "*")

    files = deps + [fd]

    if subpackage:
        sub = descriptor_pb2.FileDescriptorProto()
        sub.name = f"{pkg_path}/admin/admin.proto"
        sub.package = f"{package}.admin"
        sub.syntax = "proto3"
        sub.dependency.extend(
            ["google/api/annotations.proto", "google/api/client.proto"]
        )
        req = sub.message_type.add()
        req.name = "PingRequest"
        _field(req, "name", 1, "string")
        resp = sub.message_type.add()
        resp.name = "PingResponse"
        _field(resp, "ok", 1, "bool")
        svc = sub.service.add()
        svc.name = "AdminService"
        svc.options.Extensions[client_pb2.default_host] = host
        m = svc.method.add()
        m.name = "Ping"
        m.input_type = f".{package}.admin.PingRequest"
        m.output_type = f".{package}.admin.PingResponse"
        if http:
            m.options.Extensions[annotations_pb2.http].get = (
                "/v1/{name=projects/*}:ping"
            )
        files.append(sub)

    return [f.SerializeToString(deterministic=True) for f in files]


LOC = "google.cloud.location.Locations"
IAM = "google.iam.v1.IAMPolicy"
OPS = "google.longrunning.Operations"

ALL_RULES = [
    {"selector": f"{LOC}.GetLocation",
     "get": "/v1/{name=projects/*/locations/*}"},
    {"selector": f"{LOC}.ListLocations",
     "get": "/v1/{name=projects/*}/locations",
     "additional_bindings": [{"get": "/v1/{name=organizations/*}/locations"}]},
    {"selector": f"{IAM}.GetIamPolicy",
     "get": "/v1/{resource=projects/*/shelves/*}:getIamPolicy",
     "additional_bindings": [
         {"post": "/v1/{resource=projects/*/rooms/*}:getIamPolicy",
          "body": "*"}]},
    {"selector": f"{IAM}.SetIamPolicy",
     "post": "/v1/{resource=projects/*/shelves/*}:setIamPolicy", "body": "*"},
    {"selector": f"{IAM}.TestIamPermissions",
     "post": "/v1/{resource=projects/*/shelves/*}:testIamPermissions",
     "body": "*"},
    {"selector": f"{OPS}.CancelOperation",
     "post": "/v1/{name=projects/*/operations/*}:cancel", "body": "*"},
    {"selector": f"{OPS}.DeleteOperation",
     "delete": "/v1/{name=projects/*/operations/*}"},
    {"selector": f"{OPS}.GetOperation",
     "get": "/v1/{name=projects/*/operations/*}"},
    {"selector": f"{OPS}.ListOperations",
     "get": "/v1/{name=projects/*}/operations"},
    {"selector": f"{OPS}.WaitOperation",
     "post": "/v1/{name=projects/*/operations/*}:wait", "body": "*"},
]


def service_yaml(apis, rules, name="demo.googleapis.com"):
    return {
        "type": "google.api.Service",
        "config_version": 3,
        "name": name,
        "title": "Demo API",
        "apis": [{"name": n} for n in apis],
        "http": {"rules": rules},
    }


def rules_for(*selectors):
    wanted = set(selectors)
    return [r for r in ALL_RULES if r["selector"] in wanted]


def build_cases(tmpdir):
    import yaml

    yaml_dir = os.path.join(tmpdir, "yaml")
    os.makedirs(yaml_dir)

    def yaml_opt(case_name, config):
        p = os.path.join(yaml_dir, case_name + ".yaml")
        with open(p, "w") as f:
            yaml.safe_dump(config, f, sort_keys=False)
        return f"service-yaml={p}"

    own = "google.cloud.demo.v1"
    cases = []

    def add(name, files, *options, package=own):
        cases.append(
            {
                "name": name,
                "files": files,
                "package": package,
                "options": ",".join(o for o in options if o),
            }
        )

    full = build_demo_files(second_service=True)

    # 1. All three mixin APIs, every rule, gRPC + REST, snippets on, metadata.
    add("all_mixins_grpc_rest", full,
        yaml_opt("all", service_yaml(
            ["google.cloud.demo.v1.Library", LOC, IAM, OPS], ALL_RULES)),
        "transport=grpc+rest", "metadata")

    # 2. Subset of APIs and of rules, REST only, numeric enums, no snippets.
    add("subset_rest_only",
        build_demo_files(lro=False, streaming=False, reserved=False),
        yaml_opt("subset", service_yaml(
            [LOC, OPS],
            rules_for(f"{LOC}.GetLocation", f"{OPS}.CancelOperation",
                      f"{OPS}.GetOperation")
            # a rule of a mixin API that is *not* listed under `apis`
            + rules_for(f"{IAM}.GetIamPolicy"))),
        "transport=rest", "rest-numeric-enums", "autogen-snippets=false")

    # 3. No service YAML at all: no mixins; default (gRPC only) transport.
    add("no_yaml_default_transport", full)

    # 4. IAM mixin listed, but the API declares same-named RPCs (override);
    #    Locations still mixed in.  Two services, sub-package.
    add("iam_override",
        build_demo_files(iam_override=True, second_service=True,
                         subpackage=True),
        yaml_opt("override", service_yaml([IAM, LOC], ALL_RULES)),
        "transport=grpc+rest", "autogen-snippets=false")

    # 5. Legacy option, no YAML.
    add("legacy_add_iam_methods", build_demo_files(streaming=False),
        "add-iam-methods", "transport=grpc+rest", "autogen-snippets=false")

    # 6. Legacy option together with the IAM mixin + operations mixin.
    add("legacy_add_iam_methods_plus_yaml", build_demo_files(streaming=False),
        yaml_opt("legacy", service_yaml([IAM, OPS], ALL_RULES)),
        "add-iam-methods", "transport=grpc+rest", "autogen-snippets=false")

    # 7. APIs listed, but there are no HTTP rules (nothing may be exposed);
    #    plus rules whose selector is not a mixin RPC; API has no http
    #    annotations; gRPC only.
    add("apis_without_rules", build_demo_files(http=False),
        yaml_opt("norules", service_yaml(
            [LOC, IAM, OPS],
            [{"selector": "google.cloud.demo.v1.Library.GetShelf",
              "get": "/v2/{name=projects/*/shelves/*}"},
             {"selector": f"{OPS}.NoSuchMethod",
              "get": "/v1/{name=operations/*}"}])),
        "transport=grpc", "autogen-snippets=false")

    # 8. Duplicate selectors (the last rule wins, the first fixes the order),
    #    rules in non-canonical order, a non-standard package / namespace,
    #    only the IAM mixin, different verbs (put/patch) and a named body.
    dup_rules = [
        {"selector": f"{OPS}.WaitOperation",
         "post": "/v2/{name=operations/*}:wait", "body": "*"},
        {"selector": f"{IAM}.TestIamPermissions",
         "post": "/v2/{resource=rooms/*}:testIamPermissions", "body": "*"},
        {"selector": f"{LOC}.ListLocations",
         "get": "/v2/{name=tenants/*}/locations"},
        {"selector": f"{IAM}.SetIamPolicy",
         "put": "/v2/{resource=rooms/*}:setIamPolicy", "body": "policy"},
        {"selector": f"{IAM}.TestIamPermissions",
         "patch": "/v3/{resource=rooms/*/shelves/*}:testIamPermissions",
         "body": "*",
         "additional_bindings": [
             {"post": "/v3/{resource=halls/*}:testIamPermissions",
              "body": "*"}]},
        {"selector": f"{OPS}.GetOperation",
         "get": "/v2/{name=operations/*}"},
    ]
    add("duplicate_selectors_other_package",
        build_demo_files("acme.storage.v2beta1", host="storage.acme.test",
                         lro=False),
        yaml_opt("dups", service_yaml([OPS, IAM, LOC], dup_rules,
                                      name="storage.acme.test")),
        "transport=grpc+rest", package="acme.storage.v2beta1")

    # 9. A rule with only a `custom` pattern is not a usable HTTP rule: with
    #    gRPC only the method is still exposed (and the REST option list is
    #    empty) - both trees have to agree on whatever happens.
    add("custom_verb_rule_grpc", build_demo_files(streaming=False, lro=False),
        yaml_opt("custom", service_yaml(
            [LOC],
            [{"selector": f"{LOC}.GetLocation",
              "custom": {"kind": "HEAD",
                         "path": "/v1/{name=projects/*/locations/*}"}},
             {"selector": f"{LOC}.ListLocations",
              "get": "/v1/{name=projects/*}/locations"}])),
        "transport=grpc", "autogen-snippets=false")

    # 10. Same YAML, but REST requested: the templates index the (empty)
    #     option list; an error, if any, must be the same in both trees.
    add("custom_verb_rule_rest", build_demo_files(streaming=False, lro=False),
        yaml_opt("custom_rest", service_yaml(
            [LOC],
            [{"selector": f"{LOC}.GetLocation",
              "custom": {"kind": "HEAD",
                         "path": "/v1/{name=projects/*/locations/*}"}}])),
        "transport=rest", "autogen-snippets=false")

    return cases


def run_worker(tree, cases_path, out_path):
    env = dict(os.environ)
    env["PYTHONDONTWRITEBYTECODE"] = "1"
    env["PYTHONHASHSEED"] = "0"
    env.pop("PYTHONPATH", None)
    proc = subprocess.run(
        [PY, os.path.abspath(__file__), "--worker", tree, cases_path, out_path],
        env=env,
        cwd=tree,
        stdout=subprocess.PIPE,
        stderr=subprocess.STDOUT,
        text=True,
    )
    if proc.returncode != 0:
        print(proc.stdout)
        raise SystemExit(f"worker for {tree} failed ({proc.returncode})")
    with open(out_path, "rb") as f:
        return pickle.load(f)


def main(argv):
    if len(argv) >= 2 and argv[1] == "--worker":
        worker(argv[2], argv[3], argv[4])
        return 0
    if len(argv) != 2:
        print(__doc__)
        return 2

    checkout = os.path.realpath(argv[1])
    tmpdir = tempfile.mkdtemp(prefix="twin-T17-demo-")
    try:
        pristine = os.path.join(tmpdir, "pristine")
        os.makedirs(pristine)
        archive = subprocess.Popen(
            ["git", "-C", checkout, "archive", "HEAD"], stdout=subprocess.PIPE
        )
        subprocess.check_call(["tar", "-x", "-C", pristine], stdin=archive.stdout)
        archive.stdout.close()
        if archive.wait() != 0:
            raise SystemExit("git archive failed")

        cases = build_cases(tmpdir)
        cases_path = os.path.join(tmpdir, "cases.pkl")
        with open(cases_path, "wb") as f:
            pickle.dump(cases, f)

        before = run_worker(pristine, cases_path, os.path.join(tmpdir, "a.pkl"))
        after = run_worker(checkout, cases_path, os.path.join(tmpdir, "b.pkl"))

        differing = []
        total_files = 0
        generated_ok = 0
        mixin_bytes = 0
        for case in cases:
            name = case["name"]
            a, b = before[name], after[name]
            if a["ok"] != b["ok"]:
                differing.append(f"{name}: success differs "
                                 f"(before ok={a['ok']}, after ok={b['ok']})")
            generated_ok += bool(a["ok"] and b["ok"])
            fa, fb = a["files"], b["files"]
            for fname in sorted(set(fa) | set(fb)):
                total_files += 1
                if fname not in fa:
                    differing.append(f"{name}: {fname} only after the change")
                elif fname not in fb:
                    differing.append(f"{name}: {fname} only before the change")
                elif fa[fname] != fb[fname]:
                    differing.append(
                        f"{name}: {fname} differs "
                        f"({hashlib.sha1(fa[fname]).hexdigest()[:10]} vs "
                        f"{hashlib.sha1(fb[fname]).hexdigest()[:10]})"
                    )
            mixin_bytes += len(fa.get("<schema>/mixin_api_methods", b""))

        if differing:
            print(f"DIFFERENT: {len(differing)} difference(s)")
            for line in differing:
                print("  " + line)
            return 1
        print(
            f"IDENTICAL: {len(cases)} cases ({generated_ok} generated, "
            f"{len(cases) - generated_ok} failing identically), "
            f"{total_files} files compared byte for byte"
        )
        return 0
    finally:
        shutil.rmtree(tmpdir, ignore_errors=True)


if __name__ == "__main__":
    sys.exit(main(sys.argv))
