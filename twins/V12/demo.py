#!/usr/bin/env python
"""Equivalence demo for the V12 refactoring (property C12: reserved / colliding names).

Usage:  /venv/bin/python demo.py <path-to-a-checkout-with-the-change>

* exports the checkout's HEAD into a temp dir (the pristine tree),
* builds several API descriptions (FileDescriptorProtos, no protoc needed),
* runs the generator on each of them in a subprocess with the pristine tree
  and in another subprocess with the working tree (the change applied),
* compares the produced file names and contents byte for byte.

Exit 0 + one summary line when identical, exit 1 + list of differences otherwise.
"""
import os
import pickle
import shutil
import subprocess
import sys
import tempfile


# --------------------------------------------------------------------------
# Worker: runs inside a subprocess, with exactly one tree providing `gapic`.
# --------------------------------------------------------------------------
def worker(tree: str, in_path: str, out_path: str) -> None:
    tree = os.path.realpath(tree)

    # Drop everything that could provide another copy of `gapic`:
    # the editable-install finder, its path hook entry, the cwd entry.
    sys.meta_path[:] = [
        f
        for f in sys.meta_path
        if "editable" not in (getattr(f, "__module__", "") or "").lower()
        and "editable" not in getattr(f, "__name__", type(f).__name__).lower()
    ]
    sys.path_hooks[:] = [
        h for h in sys.path_hooks if "editable" not in (getattr(h, "__module__", "") or "").lower()
    ]
    cleaned = []
    for entry in sys.path:
        if "__editable__" in entry:
            continue
        real = os.path.realpath(entry or os.getcwd())
        if real != tree and os.path.isdir(os.path.join(real, "gapic")):
            continue
        if real == tree:
            continue
        cleaned.append(entry)
    sys.path[:] = [tree] + cleaned
    sys.path_importer_cache.clear()
    for name in list(sys.modules):
        if name == "gapic" or name.startswith("gapic."):
            del sys.modules[name]

    # pandoc is not installed: identical, deterministic stub for both runs.
    import pypandoc  # type: ignore

    def _convert_text(source, to=None, format=None, extra_args=(), **kwargs):
        return "\n".join(line.rstrip() for line in str(source).splitlines())

    pypandoc.convert_text = _convert_text

    from google.protobuf import descriptor_pb2

    import gapic
    from gapic.generator import generator
    from gapic.schema import api as gapic_api
    from gapic.utils import Options

    assert [os.path.realpath(p) for p in gapic.__path__] == [
        os.path.join(tree, "gapic")
    ], list(gapic.__path__)

    with open(in_path, "rb") as fh:
        cases = pickle.load(fh)

    results = {}
    for case in cases:
        fds = [descriptor_pb2.FileDescriptorProto.FromString(b) for b in case["fds"]]
        opts = Options.build(case["opts"])
        assert [os.path.realpath(t) for t in opts.templates] == [
            os.path.join(tree, "gapic", "templates")
        ], opts.templates
        api_schema = gapic_api.API.build(fds, package=case["package"], opts=opts)
        response = generator.Generator(opts).get_response(api_schema, opts)
        files = {}
        for f in response.file:
            assert f.name not in files, f.name
            files[f.name] = f.content
        results[case["name"]] = files

    loaded = 0
    for name, mod in list(sys.modules.items()):
        if name == "gapic" or name.startswith("gapic."):
            loaded += 1
            origin = getattr(mod, "__file__", None)
            if origin is None:
                paths = [os.path.realpath(p) for p in getattr(mod, "__path__", [])]
                assert paths and all(p.startswith(tree + os.sep) for p in paths), (name, paths)
            else:
                assert os.path.realpath(origin).startswith(tree + os.sep), (name, origin)
    assert loaded > 10, loaded

    with open(out_path, "wb") as fh:
        pickle.dump(results, fh)


# --------------------------------------------------------------------------
# Parent: descriptor construction.
# --------------------------------------------------------------------------
def build_cases():
    from google.api import annotations_pb2, client_pb2, field_behavior_pb2
    from google.api import http_pb2, resource_pb2, routing_pb2
    from google.cloud import extended_operations_pb2 as ex_ops_pb2
    from google.longrunning import operations_pb2
    from google.protobuf import descriptor_pb2 as d
    from google.protobuf import duration_pb2, empty_pb2, field_mask_pb2, timestamp_pb2

    F = d.FieldDescriptorProto
    STR, I32, I64, BOOL, MSG, ENUM, DBL, BYTES = (
        F.TYPE_STRING,
        F.TYPE_INT32,
        F.TYPE_INT64,
        F.TYPE_BOOL,
        F.TYPE_MESSAGE,
        F.TYPE_ENUM,
        F.TYPE_DOUBLE,
        F.TYPE_BYTES,
    )

    def wkt_closure(*modules):
        seen = {}

        def visit(fdesc):
            if fdesc.name in seen:
                return
            for dep in fdesc.dependencies:
                visit(dep)
            seen[fdesc.name] = d.FileDescriptorProto.FromString(fdesc.serialized_pb)

        for m in modules:
            visit(m.DESCRIPTOR)
        return list(seen.values())

    def field(name, number, type_=STR, type_name=None, repeated=False, required=False,
              oneof=None, optional=False, resource_ref=None, ex_op=None,
              ex_req=None, ex_resp=None):
        f = F(name=name, number=number, type=type_,
              label=F.LABEL_REPEATED if repeated else F.LABEL_OPTIONAL)
        if type_name:
            f.type_name = type_name
        if oneof is not None:
            f.oneof_index = oneof
        if optional:
            f.proto3_optional = True
        if required:
            f.options.Extensions[field_behavior_pb2.field_behavior].append(
                field_behavior_pb2.REQUIRED)
        if resource_ref:
            f.options.Extensions[resource_pb2.resource_reference].type = resource_ref
        if ex_op is not None:
            f.options.Extensions[ex_ops_pb2.operation_field] = ex_op
        if ex_req:
            f.options.Extensions[ex_ops_pb2.operation_request_field] = ex_req
        if ex_resp:
            f.options.Extensions[ex_ops_pb2.operation_response_field] = ex_resp
        return f

    def message(name, fields=(), nested=(), enums=(), oneofs=(), resource=None, map_entry=False):
        m = d.DescriptorProto(name=name)
        m.field.extend(fields)
        m.nested_type.extend(nested)
        m.enum_type.extend(enums)
        for o in oneofs:
            m.oneof_decl.add(name=o)
        # proto3 optional fields need synthetic oneofs (declared after real ones)
        for f in m.field:
            if f.proto3_optional:
                f.oneof_index = len(m.oneof_decl)
                m.oneof_decl.add(name="_" + f.name)
        if resource:
            r = m.options.Extensions[resource_pb2.resource]
            r.type = resource[0]
            r.pattern.extend(resource[1:])
        if map_entry:
            m.options.map_entry = True
        return m

    def map_field(owner_pkg_msg, name, number, value_type=STR, value_type_name=None):
        """Returns (field, nested entry message)."""
        entry_name = "".join(p.capitalize() for p in name.split("_")) + "Entry"
        entry = message(
            entry_name,
            [field("key", 1), field("value", 2, value_type, value_type_name)],
            map_entry=True,
        )
        f = field(name, number, MSG, f"{owner_pkg_msg}.{entry_name}", repeated=True)
        return f, entry

    def enum(name, *values):
        e = d.EnumDescriptorProto(name=name)
        for i, v in enumerate(values):
            e.value.add(name=v, number=i)
        return e

    def http(verb=None, uri=None, body=None, custom=None, additional=()):
        rule = http_pb2.HttpRule()
        if verb:
            setattr(rule, verb, uri)
        if custom:
            rule.custom.kind = custom[0]
            rule.custom.path = custom[1]
        if body:
            rule.body = body
        for a in additional:
            rule.additional_bindings.add().CopyFrom(a)
        return rule

    def method(name, inp, out, rule=None, sigs=(), client_streaming=False,
               server_streaming=False, lro=None, routing=(), op_service=None,
               polling=False):
        m = d.MethodDescriptorProto(name=name, input_type=inp, output_type=out,
                                    client_streaming=client_streaming,
                                    server_streaming=server_streaming)
        if rule is not None:
            m.options.Extensions[annotations_pb2.http].CopyFrom(rule)
        for s in sigs:
            m.options.Extensions[client_pb2.method_signature].append(s)
        if lro:
            info = m.options.Extensions[operations_pb2.operation_info]
            info.response_type, info.metadata_type = lro
        if routing:
            rr = m.options.Extensions[routing_pb2.routing]
            for fld, tmpl in routing:
                p = rr.routing_parameters.add(field=fld)
                if tmpl:
                    p.path_template = tmpl
        if op_service:
            m.options.Extensions[ex_ops_pb2.operation_service] = op_service
        if polling:
            m.options.Extensions[ex_ops_pb2.operation_polling_method] = True
        return m

    def service(name, methods, host="example.googleapis.com", scopes=None):
        s = d.ServiceDescriptorProto(name=name)
        s.method.extend(methods)
        if host:
            s.options.Extensions[client_pb2.default_host] = host
        if scopes:
            s.options.Extensions[client_pb2.oauth_scopes] = scopes
        return s

    def file(name, package, deps=(), messages=(), enums=(), services=()):
        fd = d.FileDescriptorProto(name=name, package=package, syntax="proto3")
        fd.dependency.extend(deps)
        fd.message_type.extend(messages)
        fd.enum_type.extend(enums)
        fd.service.extend(services)
        return fd

    common_deps = [
        "google/api/annotations.proto",
        "google/api/client.proto",
        "google/api/field_behavior.proto",
        "google/api/resource.proto",
        "google/api/routing.proto",
    ]
    wkts = wkt_closure(annotations_pb2, client_pb2, field_behavior_pb2, resource_pb2,
                       routing_pb2, ex_ops_pb2, operations_pb2, duration_pb2,
                       empty_pb2, field_mask_pb2, timestamp_pb2)

    cases = []

    # ---------------------------------------------------------------- case A
    # Reserved words everywhere: fields, nested fields, flattened params, URI
    # variables (plain and dotted), bodies, routing fields, RPC names, file names.
    P = "google.reserved.v1"
    kw_file = file(
        "google/reserved/v1/class.proto", P,
        messages=[
            message("License", [field("type", 1), field("format", 2), field("in", 3),
                                field("name", 4)]),
        ],
        enums=[enum("Range", "RANGE_UNSPECIFIED", "MIN", "MAX")],
    )
    ctl_file = file(
        "google/reserved/v1/metadata.proto", P,
        deps=["google/reserved/v1/class.proto"],
        messages=[
            # a field called `proto` (and `_proto`) collides with `import proto`
            message("Envelope", [field("proto", 1), field("_proto", 2),
                                 field("license", 3, MSG, f".{P}.License")]),
        ],
    )
    dotted_file = file(
        "google/reserved/v1/shared.types.proto", P,
        messages=[message("Dotted", [field("proto", 1), field("self", 2)])],
    )
    mapping_f, mapping_entry = map_field(f".{P}.Thing", "mapping", 7)
    lic_map_f, lic_map_entry = map_field(f".{P}.Thing", "license_map", 12, MSG, f".{P}.License")
    thing = message(
        "Thing",
        [
            field("name", 1), field("class", 2), field("from", 3), field("max", 4, I32),
            field("license", 5, MSG, f".{P}.License"), field("any", 6, repeated=True),
            mapping_f,
            field("range", 8, ENUM, f".{P}.Range"),
            field("yield", 9, oneof=0), field("await", 10, I64, oneof=0),
            field("none", 11, BOOL, optional=True),
            lic_map_f,
            field("envelope", 13, MSG, f".{P}.Envelope"),
            field("__peg_parser__", 14),
            field("ignore_unknown_fields", 15, BOOL),
        ],
        nested=[mapping_entry, lic_map_entry],
        oneofs=["kind"],
        resource=("reserved.example.com/Thing", "things/{thing}", "classes/{class}/things/{thing}"),
    )
    import_req = message("ImportRequest", [
        field("from", 1, required=True), field("class", 2, MSG, f".{P}.Thing"),
        field("license", 3, MSG, f".{P}.License"), field("in", 4, repeated=True),
        field("request_id", 5, optional=True),
    ])
    get_req = message("GetThingRequest", [
        field("name", 1, required=True, resource_ref="reserved.example.com/Thing"),
        field("license", 2, MSG, f".{P}.License"), field("type", 3),
        field("__peg_parser__", 4, MSG, f".{P}.Thing"),
    ])
    list_req = message("ListThingsRequest", [
        field("from", 1), field("page_size", 2, I32), field("page_token", 3),
        field("filter", 4), field("max", 5, I32, required=True),
    ])
    list_resp = message("ListThingsResponse", [
        field("list", 1, MSG, f".{P}.Thing", repeated=True), field("next_page_token", 2),
    ])
    svc_a = service("Reserved", [
        method("Import", f".{P}.ImportRequest", f".{P}.Thing",
               http("post", "/v1/{from=things/*}:import", "class"),
               sigs=["from,class", "from,license,in"],
               routing=[("from", ""), ("license.type", "{routing_id=licenses/*}/**")]),
        method("Return", f".{P}.GetThingRequest", f".{P}.Thing",
               http("get", "/v1/{license.type=licenses/*}/{name=things/*}",
                    additional=[http("post", "/v1/{type}/{license.in}:return", "*")]),
               sigs=["name", "name,type,license"]),
        method("Class", f".{P}.GetThingRequest", f".{P}.Thing",
               http("put", "/v1/{name=things/*}/{license.format}", "__peg_parser__"),
               routing=[("license.in", "")]),
        method("List", f".{P}.ListThingsRequest", f".{P}.ListThingsResponse",
               http("get", "/v1/{from=classes/*}/things"), sigs=["from,max"]),
        method("CreateChannel", f".{P}.GetThingRequest", ".google.protobuf.Empty",
               http("delete", "/v1/{name=things/*}")),
        method("GrpcChannel", f".{P}.ImportRequest", f".{P}.Thing",
               http(custom=("LOCK", "/v1/{from}")), sigs=["license"]),
        method("OperationsClient", f".{P}.ImportRequest", f".{P}.Thing"),
        method("Global", f".{P}.ImportRequest", f".{P}.Thing",
               http("patch", "/v1/{class.license.type=x/*}/{class.name}", "license"),
               server_streaming=True),
        method("Try", f".{P}.ImportRequest", f".{P}.Thing", client_streaming=True),
        method("Lambda", f".{P}.ImportRequest", f".{P}.Envelope",
               client_streaming=True, server_streaming=True),
        method("EmptyUri", f".{P}.ImportRequest", f".{P}.Thing", http("get", "", "class")),
    ], scopes="https://www.googleapis.com/auth/cloud-platform")
    main_a = file(
        "google/reserved/v1/reserved.proto", P,
        deps=common_deps + ["google/protobuf/empty.proto", "google/reserved/v1/class.proto",
                            "google/reserved/v1/metadata.proto"],
        messages=[thing, import_req, get_req, list_req, list_resp],
        services=[svc_a],
    )
    # a second proto literally called like the renamed one -> recursion in the renamer
    clash_file = file("google/reserved/v1/class_.proto", P,
                      messages=[message("Klass", [field("def", 1)])])
    fds_a = wkts + [kw_file, clash_file, ctl_file, dotted_file, main_a]
    cases.append(dict(name="A-reserved-default", fds=fds_a, package=P, opts=""))
    cases.append(dict(name="A-reserved-rest-numeric", fds=fds_a, package=P,
                      opts="transport=rest,rest-numeric-enums,autogen-snippets=false"))

    # ---------------------------------------------------------------- case B
    # Module-name collisions across packages, reserved module names, sub-packages,
    # several services, streaming and paging.
    Q = "google.collide.v1"
    alpha_types = file("google/alpha/types.proto", "google.alpha",
                       messages=[message("Shape", [field("sides", 1, I32)])],
                       enums=[enum("Hue", "HUE_UNSPECIFIED", "RED")])
    beta_types = file("google/beta/types.proto", "google.beta",
                      messages=[message("Shape", [field("corners", 1, I32),
                                                  field("inner", 2, MSG, ".google.alpha.Shape")])])
    alpha_type = file("google/alpha/type.proto", "google.alpha",
                      messages=[message("Kind", [field("label", 1)])])
    gamma_import = file("google/gamma/import.proto", "google.gamma",
                        messages=[message("Crate", [field("kind", 1, MSG, ".google.alpha.Kind")])])
    sub_types = file("google/collide/v1/sub/types.proto", Q + ".sub",
                     deps=["google/alpha/types.proto"],
                     messages=[message("Leaf", [field("types", 1),
                                                field("shape", 2, MSG, ".google.alpha.Shape")])])
    own_types = file("google/collide/v1/types.proto", Q,
                     deps=["google/alpha/types.proto", "google/beta/types.proto",
                           "google/alpha/type.proto", "google/gamma/import.proto",
                           "google/collide/v1/sub/types.proto", "google/protobuf/timestamp.proto",
                           "google/protobuf/duration.proto"],
                     messages=[
                         message("Box", [
                             field("a", 1, MSG, ".google.alpha.Shape"),
                             field("b", 2, MSG, ".google.beta.Shape"),
                             field("kind", 3, MSG, ".google.alpha.Kind"),
                             field("crate", 4, MSG, ".google.gamma.Crate"),
                             field("leaf", 5, MSG, f".{Q}.sub.Leaf"),
                             field("hue", 6, ENUM, ".google.alpha.Hue"),
                             field("created", 7, MSG, ".google.protobuf.Timestamp"),
                             field("ttl", 8, MSG, ".google.protobuf.Duration"),
                             field("duration_pb2", 9),
                             field("type_", 10),
                         ]),
                         message("Plain", [field("text", 1)]),
                     ])
    box_req = message("BoxRequest", [field("parent", 1), field("box", 2, MSG, f".{Q}.Box"),
                                     field("page_size", 3, I32), field("page_token", 4),
                                     field("shape", 5, MSG, ".google.beta.Shape")])
    box_page = message("BoxPage", [field("boxes", 1, MSG, f".{Q}.Box", repeated=True),
                                   field("next_page_token", 2)])
    svc_b1 = service("Boxes", [
        method("MakeBox", f".{Q}.BoxRequest", f".{Q}.Box",
               http("post", "/v1/{parent=shelves/*}/boxes", "box"), sigs=["parent,box", "shape"]),
        method("ListBoxes", f".{Q}.BoxRequest", f".{Q}.BoxPage",
               http("get", "/v1/{parent=shelves/*}/boxes"), sigs=["parent"]),
        method("WatchBoxes", f".{Q}.BoxRequest", f".{Q}.Box",
               http("get", "/v1/{parent=shelves/*}/boxes:watch"), server_streaming=True),
        method("PushBoxes", f".{Q}.BoxRequest", f".{Q}.Box", client_streaming=True),
        method("Chat", f".{Q}.BoxRequest", ".google.beta.Shape",
               client_streaming=True, server_streaming=True),
    ])
    svc_b2 = service("Leaves", [
        method("GetLeaf", f".{Q}.sub.Leaf", ".google.alpha.Shape",
               http("get", "/v1/{types=leaves/*}")),
        method("With", f".{Q}.Plain", f".{Q}.Plain", http("post", "/v1/with", "*")),
    ], host="")
    svc_b3 = service("Hollow", [])
    main_b = file("google/collide/v1/service.proto", Q,
                  deps=common_deps + ["google/collide/v1/types.proto", "google/beta/types.proto",
                                      "google/alpha/types.proto",
                                      "google/collide/v1/sub/types.proto"],
                  messages=[box_req, box_page], services=[svc_b1, svc_b2, svc_b3])
    # module `extra` comes from exactly two packages (boundary of the collision rule)
    delta_extra = file("google/delta/extra.proto", "google.delta",
                       messages=[message("Extra", [field("note", 1)])])
    sub_extra = file("google/collide/v1/sub/extra.proto", Q + ".sub",
                     messages=[message("Bonus", [field("note", 1)])])
    pair = file("google/collide/v1/pair.proto", Q,
                deps=["google/delta/extra.proto", "google/collide/v1/sub/extra.proto"],
                messages=[message("Pair", [field("first", 1, MSG, ".google.delta.Extra"),
                                           field("second", 2, MSG, f".{Q}.sub.Bonus"),
                                           field("again", 3, MSG, f".{Q}.Pair")])])
    only_enum = file("google/collide/v1/sub/yield.proto", Q + ".sub",
                     enums=[enum("Only", "ONLY_UNSPECIFIED")])
    nothing = file("google/collide/v1/nothing.proto", Q)
    fds_b = wkts + [alpha_types, beta_types, alpha_type, gamma_import, sub_types, own_types,
                    delta_extra, sub_extra, pair, only_enum, nothing, main_b]
    cases.append(dict(name="B-collide-default", fds=fds_b, package=Q, opts=""))
    cases.append(dict(name="B-collide-grpc-oldnaming", fds=fds_b, package=Q,
                      opts="transport=grpc,old-naming"))

    # ---------------------------------------------------------------- case C
    # Extended operations (compute style) with keyword-named RPCs: `_unary` surfaces.
    R = "google.cloud.diregapic.v1"
    NAME, STATUS, ECODE, EMSG = (ex_ops_pb2.NAME, ex_ops_pb2.STATUS, ex_ops_pb2.ERROR_CODE,
                                 ex_ops_pb2.ERROR_MESSAGE)
    operation = message(
        "Operation",
        [field("name", 1, ex_op=NAME), field("http_error_message", 2, ex_op=EMSG),
         field("http_error_status_code", 3, I32, ex_op=ECODE),
         field("status", 4, ENUM, f".{R}.Operation.Status", ex_op=STATUS),
         field("class", 5)],
        enums=[enum("Status", "UNDEFINED_STATUS", "DONE", "PENDING", "RUNNING")],
    )
    get_op_req = message("GetRegionOperationRequest", [
        field("operation", 1, required=True, ex_resp="name"),
        field("project", 2, required=True), field("region", 3, required=True)])
    insert_req = message("ImportDiskRequest", [
        field("project", 1, required=True, ex_req="project"),
        field("region", 2, required=True, ex_req="region"),
        field("from", 3, required=True),
        field("type", 4, MSG, f".{R}.Disk"),
        field("max", 5, I32, optional=True)])
    disk = message("Disk", [field("name", 1), field("size_gb", 2, I64, optional=True),
                            field("license", 3, repeated=True)])
    svc_c_ops = service("RegionOperations", [
        method("Get", f".{R}.GetRegionOperationRequest", f".{R}.Operation",
               http("get", "/compute/v1/projects/{project}/regions/{region}/operations/{operation}"),
               sigs=["project,region,operation"], polling=True),
    ], host="compute.googleapis.com")
    svc_c = service("Disks", [
        method("Import", f".{R}.ImportDiskRequest", f".{R}.Operation",
               http("post", "/compute/v1/projects/{project}/regions/{region}/disks/{from}", "type"),
               sigs=["project,region,from,type"], op_service="RegionOperations"),
        method("Insert", f".{R}.ImportDiskRequest", f".{R}.Operation",
               http("post", "/compute/v1/projects/{project}/regions/{region}/disks", "*"),
               op_service="RegionOperations"),
        method("Pass", f".{R}.ImportDiskRequest", f".{R}.Disk",
               http("get", "/compute/v1/projects/{project}/regions/{region}/disks/{from}:pass"),
               sigs=["project,region,from"]),
    ], host="compute.googleapis.com")
    main_c = file("google/cloud/diregapic/v1/diregapic.proto", R,
                  deps=common_deps + ["google/cloud/extended_operations.proto"],
                  messages=[operation, get_op_req, insert_req, disk],
                  services=[svc_c, svc_c_ops])
    fds_c = wkts + [main_c]
    cases.append(dict(name="C-extended-lro-rest", fds=fds_c, package=R,
                      opts="transport=rest,rest-numeric-enums"))
    cases.append(dict(name="C-extended-lro-both", fds=fds_c, package=R,
                      opts="transport=grpc+rest,autogen-snippets=false"))

    # ---------------------------------------------------------------- case D
    # google.longrunning LRO + paging + resources, no reserved words at all,
    # no annotations on some methods, a field literally named like a module.
    S = "example.plain.v2"
    pmap_f, pmap_entry = map_field(f".{S}.Widget", "labels", 4)
    widget = message("Widget", [field("name", 1), field("display_name", 2),
                                field("state", 3, ENUM, f".{S}.Widget.State"), pmap_f,
                                field("update_time", 5, MSG, ".google.protobuf.Timestamp"),
                                field("text", 6, oneof=0), field("blob", 7, BYTES, oneof=0),
                                field("weight", 8, DBL, optional=True),
                                field("operations_pb2", 9),
                                field("children", 10, MSG, f".{S}.Widget", repeated=True)],
                     nested=[pmap_entry], enums=[enum("State", "STATE_UNSPECIFIED", "ON", "OFF")],
                     oneofs=["payload"],
                     resource=("plain.example.com/Widget", "projects/{project}/widgets/{widget}"))
    create_w = message("CreateWidgetRequest", [
        field("parent", 1, required=True), field("widget", 2, MSG, f".{S}.Widget", required=True),
        field("widget_id", 3)])
    update_w = message("UpdateWidgetRequest", [
        field("widget", 1, MSG, f".{S}.Widget", required=True),
        field("update_mask", 2, MSG, ".google.protobuf.FieldMask")])
    list_w = message("ListWidgetsRequest", [field("parent", 1), field("page_size", 2, I32),
                                            field("page_token", 3)])
    list_w_resp = message("ListWidgetsResponse", [
        field("widgets", 1, MSG, f".{S}.Widget", repeated=True), field("next_page_token", 2)])
    op_meta = message("OperationMetadata", [field("progress", 1, I32)])
    svc_d = service("WidgetService", [
        method("CreateWidget", f".{S}.CreateWidgetRequest", ".google.longrunning.Operation",
               http("post", "/v2/{parent=projects/*}/widgets", "widget"),
               sigs=["parent,widget,widget_id"], lro=("Widget", "OperationMetadata")),
        method("UpdateWidget", f".{S}.UpdateWidgetRequest", f".{S}.Widget",
               http("patch", "/v2/{widget.name=projects/*/widgets/*}", "widget"),
               sigs=["widget,update_mask"]),
        method("ListWidgets", f".{S}.ListWidgetsRequest", f".{S}.ListWidgetsResponse",
               http("get", "/v2/{parent=projects/*}/widgets"), sigs=["parent"]),
        method("DeleteWidget", f".{S}.UpdateWidgetRequest", ".google.longrunning.Operation",
               http("delete", "/v2/{widget.name=projects/*/widgets/*}"),
               lro=("google.protobuf.Empty", "OperationMetadata")),
        method("Bare", f".{S}.ListWidgetsRequest", ".google.protobuf.Empty"),
    ], host="plain.example.com", scopes="https://example.com/auth/a,https://example.com/auth/b")
    main_d = file("example/plain/v2/widgets.proto", S,
                  deps=common_deps + ["google/longrunning/operations.proto",
                                      "google/protobuf/empty.proto",
                                      "google/protobuf/field_mask.proto",
                                      "google/protobuf/timestamp.proto"],
                  messages=[widget, create_w, update_w, list_w, list_w_resp, op_meta],
                  services=[svc_d])
    fds_d = wkts + [main_d]
    cases.append(dict(name="D-plain-lro-default", fds=fds_d, package=S, opts=""))
    cases.append(dict(name="D-plain-lro-grpc-nosnippets", fds=fds_d, package=S,
                      opts="transport=grpc,autogen-snippets=false"))

    for c in cases:
        c["fds"] = [fd.SerializeToString(deterministic=True) for fd in c["fds"]]
    return cases


# --------------------------------------------------------------------------
# Parent: orchestration.
# --------------------------------------------------------------------------
def run_worker(tree, in_path, out_path, cwd):
    env = dict(os.environ)
    env.pop("PYTHONPATH", None)
    env["PYTHONHASHSEED"] = "0"
    env["PYTHONDONTWRITEBYTECODE"] = "1"
    proc = subprocess.run(
        [sys.executable, os.path.abspath(__file__), "--worker", tree, in_path, out_path],
        cwd=cwd, env=env, stdout=subprocess.PIPE, stderr=subprocess.STDOUT, text=True,
    )
    if proc.returncode != 0:
        print(f"worker failed for tree {tree}:\n{proc.stdout}")
        sys.exit(2)
    with open(out_path, "rb") as fh:
        return pickle.load(fh)


def main():
    if len(sys.argv) >= 2 and sys.argv[1] == "--worker":
        worker(*sys.argv[2:5])
        return 0
    if len(sys.argv) != 2:
        print(__doc__)
        return 2
    checkout = os.path.realpath(sys.argv[1])
    tmp = tempfile.mkdtemp(prefix="twin-demo-V12-")
    try:
        pristine = os.path.join(tmp, "pristine")
        changed = os.path.join(tmp, "changed")
        neutral = os.path.join(tmp, "cwd")
        os.makedirs(pristine)
        os.makedirs(neutral)
        archive = subprocess.run(["git", "-C", checkout, "archive", "HEAD"],
                                 check=True, stdout=subprocess.PIPE).stdout
        subprocess.run(["tar", "-x", "-C", pristine], input=archive, check=True)
        # Snapshot of the working tree (change applied); only the package is needed.
        os.makedirs(changed)
        shutil.copytree(os.path.join(checkout, "gapic"), os.path.join(changed, "gapic"),
                        ignore=shutil.ignore_patterns("__pycache__", "*.pyc"))

        cases = build_cases()
        in_path = os.path.join(tmp, "cases.pkl")
        with open(in_path, "wb") as fh:
            pickle.dump(cases, fh)

        before = run_worker(pristine, in_path, os.path.join(tmp, "before.pkl"), neutral)
        after = run_worker(changed, in_path, os.path.join(tmp, "after.pkl"), neutral)

        problems = []
        total = 0
        for case in cases:
            name = case["name"]
            b, a = before[name], after[name]
            total += len(b)
            if not b:
                problems.append(f"{name}: no output files at all")
            for fname in sorted(set(b) | set(a)):
                if fname not in a:
                    problems.append(f"{name}: only in pristine output: {fname}")
                elif fname not in b:
                    problems.append(f"{name}: only in changed output: {fname}")
                elif a[fname].encode("utf-8") != b[fname].encode("utf-8"):
                    problems.append(f"{name}: contents differ: {fname}")

        # Is the working tree actually different from HEAD? (informational)
        dirty = subprocess.run(["git", "-C", checkout, "status", "--porcelain", "--", "gapic"],
                               stdout=subprocess.PIPE, text=True).stdout.strip()
        if problems:
            print(f"DIFFERENT: {len(problems)} problem(s)")
            for p in problems:
                print("  " + p)
            return 1
        print(f"IDENTICAL: {len(cases)} API/option combinations, {total} generated files "
              f"compared byte for byte (working tree {'differs from' if dirty else 'equals'} HEAD)")
        return 0
    finally:
        shutil.rmtree(tmp, ignore_errors=True)


if __name__ == "__main__":
    sys.exit(main())
