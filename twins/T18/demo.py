#!/usr/bin/env python
"""Behaviour-preservation demo for the C18 (auto-populated UUID4 fields) refactoring.

Usage:  /venv/bin/python demo.py <path-to-a-checkout-with-the-change>

* exports the pristine HEAD of the checkout (`git archive HEAD`) to a temp dir,
* builds a set of API descriptions (valid and invalid method settings),
* runs the generator on each description with BOTH trees (one subprocess per
  tree, so the two copies of `gapic` never mix),
* compares file names + contents byte for byte, and for failing generations
  the exception type and message.

Exit 0 + one summary line when everything is identical, exit 1 otherwise.
"""
import os
import pickle
import shutil
import subprocess
import sys
import tempfile


# --------------------------------------------------------------------------
# Worker: runs inside a subprocess, with exactly one tree on sys.path.
# --------------------------------------------------------------------------
def worker(tree: str, cases_path: str, out_path: str) -> None:
    sys.path.insert(0, tree)
    os.chdir(tree)

    # pandoc is not installed: stub the conversion identically for both runs.
    import pypandoc  # type: ignore

    def _convert_text(text, to, format=None, extra_args=(), **kw):
        return text

    pypandoc.convert_text = _convert_text

    import gapic
    from google.protobuf import descriptor_pb2

    assert os.path.realpath(gapic.__path__[0]) == os.path.realpath(
        os.path.join(tree, "gapic")
    ), gapic.__path__

    from gapic.generator import Generator
    from gapic.schema.api import API
    from gapic.utils import Options

    with open(cases_path, "rb") as f:
        cases = pickle.load(f)

    results = {}
    for case in cases:
        fds = []
        for blob in case["fds"]:
            fd = descriptor_pb2.FileDescriptorProto()
            fd.ParseFromString(blob)
            fds.append(fd)
        outcome = {}
        try:
            opts = Options.build(case["opts"])
            api = API.build(fds, package=case["package"], opts=opts)

            # Observe the validation directly, too (independent of templates).
            try:
                settings = api.all_method_settings
                outcome["settings"] = sorted(
                    (k, v.SerializeToString(deterministic=True))
                    for k, v in settings.items()
                )
                outcome["settings_order"] = list(settings)
            except Exception as exc:  # noqa
                outcome["settings_error"] = (type(exc).__name__, str(exc))
            try:
                api.enforce_valid_method_settings(
                    api.service_yaml_config.publishing.method_settings
                )
                outcome["enforce"] = None
            except Exception as exc:  # noqa
                outcome["enforce"] = (type(exc).__name__, str(exc))

            response = Generator(opts).get_response(api, opts)
            outcome["files"] = {f.name: f.content for f in response.file}
            outcome["file_order"] = [f.name for f in response.file]
        except Exception as exc:  # noqa
            outcome["error"] = (type(exc).__module__, type(exc).__name__, str(exc))
        results[case["name"]] = outcome

    with open(out_path, "wb") as f:
        pickle.dump(results, f)


# --------------------------------------------------------------------------
# Descriptor construction (parent process; no `gapic` import here).
# --------------------------------------------------------------------------
def build_cases(tmpdir: str):
    import yaml
    from google.api import annotations_pb2, client_pb2
    from google.api import field_behavior_pb2, field_info_pb2
    from google.longrunning import operations_pb2
    from google.protobuf import descriptor_pb2
    from google.protobuf import empty_pb2

    T = descriptor_pb2.FieldDescriptorProto

    def closure(*modules):
        """Serialized FileDescriptorProtos of the modules + deps, deps first."""
        seen, out = set(), []

        def visit(fdesc):
            if fdesc.name in seen:
                return
            seen.add(fdesc.name)
            for dep in fdesc.dependencies:
                visit(dep)
            out.append(fdesc.serialized_pb)

        for m in modules:
            visit(m.DESCRIPTOR)
        return out

    DEPS = closure(
        annotations_pb2,
        client_pb2,
        field_behavior_pb2,
        field_info_pb2,
        operations_pb2,
        empty_pb2,
    )
    DEP_NAMES = [
        "google/api/annotations.proto",
        "google/api/client.proto",
        "google/api/field_behavior.proto",
        "google/api/field_info.proto",
        "google/longrunning/operations.proto",
        "google/protobuf/empty.proto",
    ]

    def new_file(name, package):
        fd = descriptor_pb2.FileDescriptorProto(
            name=name, package=package, syntax="proto3"
        )
        fd.dependency.extend(DEP_NAMES)
        return fd

    def add_field(
        msg,
        name,
        number,
        type_=T.TYPE_STRING,
        *,
        optional=False,
        uuid4=False,
        required=False,
        repeated=False,
        type_name=None,
        json_name=None,
    ):
        f = msg.field.add(
            name=name,
            number=number,
            type=type_,
            label=T.LABEL_REPEATED if repeated else T.LABEL_OPTIONAL,
        )
        if type_name:
            f.type_name = type_name
        if json_name:
            f.json_name = json_name
        if optional:
            f.proto3_optional = True
            msg.oneof_decl.add(name="_" + name)
            f.oneof_index = len(msg.oneof_decl) - 1
        if uuid4:
            f.options.Extensions[field_info_pb2.field_info].format = (
                field_info_pb2.FieldInfo.UUID4
            )
        if required:
            f.options.Extensions[field_behavior_pb2.field_behavior].append(
                field_behavior_pb2.REQUIRED
            )
        return f

    def add_method(
        svc,
        name,
        inp,
        out,
        *,
        http=None,
        body=None,
        cs=False,
        ss=False,
        lro=None,
        signature=None,
    ):
        m = svc.method.add(
            name=name,
            input_type=inp,
            output_type=out,
            client_streaming=cs,
            server_streaming=ss,
        )
        if http:
            verb, path = http
            rule = m.options.Extensions[annotations_pb2.http]
            setattr(rule, verb, path)
            if body:
                rule.body = body
        if lro:
            info = m.options.Extensions[operations_pb2.operation_info]
            info.response_type, info.metadata_type = lro
        if signature is not None:
            m.options.Extensions[client_pb2.method_signature].append(signature)
        return m

    def add_service(fd, name, host):
        svc = fd.service.add(name=name)
        svc.options.Extensions[client_pb2.default_host] = host
        return svc

    def yaml_file(case_name, method_settings, extra=None):
        cfg = {
            "type": "google.api.Service",
            "config_version": 3,
            "name": "example.googleapis.com",
            "publishing": {"method_settings": method_settings},
        }
        if extra:
            cfg.update(extra)
        path = os.path.join(tmpdir, f"{case_name}_service.yaml")
        with open(path, "w") as f:
            yaml.safe_dump(cfg, f)
        return path

    # ---------------------------------------------------------------- library
    def library_file(package="google.example.library.v1"):
        """One service with every shape the property talks about."""
        fd = new_file("google/example/library/v1/library.proto", package)
        p = "." + package

        book = fd.message_type.add(name="Book")
        add_field(book, "name", 1)
        add_field(book, "title", 2)
        add_field(book, "request_id", 3, uuid4=True)  # nested candidate

        create = fd.message_type.add(name="CreateBookRequest")
        add_field(create, "parent", 1, required=True)
        add_field(create, "book", 2, T.TYPE_MESSAGE, type_name=p + ".Book")
        add_field(create, "request_id", 3, optional=True, uuid4=True)
        add_field(create, "client_token", 4, uuid4=True)
        add_field(create, "plain_id", 5)  # string, no UUID4 annotation
        add_field(create, "numeric_id", 6, T.TYPE_INT64, uuid4=True)
        add_field(create, "required_id", 7, uuid4=True, required=True)
        add_field(create, "many_ids", 8, uuid4=True, repeated=True)
        add_field(create, "from", 9, uuid4=True)  # reserved word -> `from_`
        add_field(create, "opt_plain", 10, optional=True)  # optional, not UUID4
        lab = create.nested_type.add(name="LabelsEntry")
        lab.options.map_entry = True
        add_field(lab, "key", 1)
        add_field(lab, "value", 2)
        add_field(
            create,
            "labels",
            11,
            T.TYPE_MESSAGE,
            repeated=True,
            type_name=p + ".CreateBookRequest.LabelsEntry",
        )

        get = fd.message_type.add(name="GetBookRequest")
        add_field(get, "name", 1, required=True)
        add_field(get, "request_id", 2, uuid4=True)

        delete = fd.message_type.add(name="DeleteBookRequest")
        add_field(delete, "name", 1)
        add_field(delete, "request_id", 2, optional=True, uuid4=True)

        lst = fd.message_type.add(name="ListBooksRequest")
        add_field(lst, "parent", 1)
        add_field(lst, "page_size", 2, T.TYPE_INT32)
        add_field(lst, "page_token", 3)
        add_field(lst, "request_id", 4, uuid4=True)
        lstr = fd.message_type.add(name="ListBooksResponse")
        add_field(lstr, "books", 1, T.TYPE_MESSAGE, repeated=True, type_name=p + ".Book")
        add_field(lstr, "next_page_token", 2)

        imp = fd.message_type.add(name="ImportBooksRequest")
        add_field(imp, "parent", 1)
        add_field(imp, "request_id", 2, optional=True, uuid4=True)
        impr = fd.message_type.add(name="ImportBooksResponse")
        add_field(impr, "count", 1, T.TYPE_INT32)
        impm = fd.message_type.add(name="ImportBooksMetadata")
        add_field(impm, "progress", 1, T.TYPE_INT32)

        stream = fd.message_type.add(name="StreamBooksRequest")
        add_field(stream, "parent", 1)
        add_field(stream, "request_id", 2, uuid4=True)

        svc = add_service(fd, "Library", "library.googleapis.com")
        add_method(
            svc,
            "CreateBook",
            p + ".CreateBookRequest",
            p + ".Book",
            http=("post", "/v1/{parent=shelves/*}/books"),
            body="book",
            signature="parent,book",
        )
        add_method(
            svc,
            "GetBook",
            p + ".GetBookRequest",
            p + ".Book",
            http=("get", "/v1/{name=shelves/*/books/*}"),
            signature="name",
        )
        add_method(
            svc,
            "DeleteBook",
            p + ".DeleteBookRequest",
            ".google.protobuf.Empty",
            http=("delete", "/v1/{name=shelves/*/books/*}"),
        )
        add_method(
            svc,
            "ListBooks",
            p + ".ListBooksRequest",
            p + ".ListBooksResponse",
            http=("get", "/v1/{parent=shelves/*}/books"),
        )
        add_method(
            svc,
            "ImportBooks",
            p + ".ImportBooksRequest",
            ".google.longrunning.Operation",
            http=("post", "/v1/{parent=shelves/*}/books:import"),
            body="*",
            lro=("ImportBooksResponse", "ImportBooksMetadata"),
        )
        add_method(
            svc,
            "StreamBooks",
            p + ".StreamBooksRequest",
            p + ".Book",
            http=("get", "/v1/{parent=shelves/*}/books:stream"),
            ss=True,
        )
        add_method(svc, "UploadBooks", p + ".StreamBooksRequest", p + ".Book", cs=True)
        add_method(
            svc, "ChatBooks", p + ".StreamBooksRequest", p + ".Book", cs=True, ss=True
        )
        return fd

    # ------------------------------------------------------- two services/sub
    def fleet_files(subpackage=True):
        """Two files (one of them optionally in a sub-package), two services."""
        pkg = "google.example.fleet.v2"
        p = "." + pkg
        fd1 = new_file("google/example/fleet/v2/cars.proto", pkg)
        car = fd1.message_type.add(name="Car")
        add_field(car, "name", 1)
        mk = fd1.message_type.add(name="MakeCarRequest")
        add_field(mk, "car", 1, T.TYPE_MESSAGE, type_name=p + ".Car")
        add_field(mk, "request_id", 2, uuid4=True)
        add_field(mk, "idempotency_key", 3, optional=True, uuid4=True)
        scrap = fd1.message_type.add(name="ScrapCarRequest")
        add_field(scrap, "name", 1)
        s1 = add_service(fd1, "Cars", "fleet.googleapis.com")
        add_method(
            s1, "MakeCar", p + ".MakeCarRequest", p + ".Car",
            http=("post", "/v2/cars"), body="car",
        )
        add_method(
            s1, "ScrapCar", p + ".ScrapCarRequest", ".google.protobuf.Empty",
            http=("delete", "/v2/{name=cars/*}"),
        )

        sub = pkg + ".depots" if subpackage else pkg
        q = "." + sub
        fd2 = new_file("google/example/fleet/v2/depots/depots.proto", sub)
        fd2.dependency.append("google/example/fleet/v2/cars.proto")
        depot = fd2.message_type.add(name="Depot")
        add_field(depot, "name", 1)
        add_field(depot, "cars", 2, T.TYPE_MESSAGE, repeated=True, type_name=p + ".Car")
        op = fd2.message_type.add(name="OpenDepotRequest")
        add_field(op, "depot", 1, T.TYPE_MESSAGE, type_name=q + ".Depot")
        add_field(op, "request_id", 2, optional=True, uuid4=True)
        s2 = add_service(fd2, "Depots", "fleet.googleapis.com")
        add_method(
            s2, "OpenDepot", q + ".OpenDepotRequest", q + ".Depot",
            http=("post", "/v2/depots"), body="depot",
        )
        return [fd1, fd2]

    cases = []

    def case(name, fds, package, opts, method_settings=None, extra_yaml=None):
        opt_string = opts
        if method_settings is not None:
            path = yaml_file(name, method_settings, extra_yaml)
            opt_string = (opts + "," if opts else "") + "service-yaml=" + path
        cases.append(
            dict(
                name=name,
                fds=DEPS + [fd.SerializeToString(deterministic=True) for fd in fds],
                package=package,
                opts=opt_string,
            )
        )

    LIB = "google.example.library.v1"
    L = LIB + ".Library."

    # 1. valid settings, optional + plain fields, LRO, paging; grpc + rest.
    case(
        "valid_grpc_rest",
        [library_file()],
        LIB,
        "transport=grpc+rest",
        [
            {"selector": L + "CreateBook",
             "auto_populated_fields": ["request_id", "client_token"]},
            {"selector": L + "GetBook", "auto_populated_fields": ["request_id"]},
            {"selector": L + "DeleteBook", "auto_populated_fields": ["request_id"]},
            {"selector": L + "ListBooks", "auto_populated_fields": ["request_id"]},
            {"selector": L + "ImportBooks",
             "auto_populated_fields": ["request_id"],
             "long_running": {"initial_poll_delay": "3s",
                              "poll_delay_multiplier": 1.5,
                              "max_poll_delay": "60s",
                              "total_poll_timeout": "600s"}},
            # streaming method with settings but WITHOUT auto-populated fields
            {"selector": L + "StreamBooks"},
        ],
    )
    # 2. no service yaml at all (no `import uuid`, macro renders nothing).
    case("no_service_yaml", [library_file()], LIB, "transport=grpc+rest")
    # 3. method settings present but none has auto-populated fields; REST only.
    case(
        "settings_without_fields_rest",
        [library_file()],
        LIB,
        "transport=rest,rest-numeric-enums",
        [
            {"selector": L + "ImportBooks",
             "long_running": {"initial_poll_delay": "1s"}},
            {"selector": L + "GetBook", "auto_populated_fields": []},
        ],
    )
    # 4. empty list of method settings; grpc only, no snippets.
    case(
        "empty_settings_grpc",
        [library_file()],
        LIB,
        "transport=grpc,autogen-snippets=false",
        [],
    )
    # 5. two services, one in a sub-package; only the sub-package method has
    #    settings (generation succeeds); no snippets.
    FL = "google.example.fleet.v2"
    case(
        "two_services_subpackage",
        fleet_files(),
        FL,
        "transport=grpc+rest,autogen-snippets=false",
        [
            {"selector": FL + ".depots.Depots.OpenDepot",
             "auto_populated_fields": ["request_id"]},
        ],
    )
    # 5b. same files, settings for both services.  The validation accepts them
    #     for the whole API, but the sub-package view of the API does not know
    #     `Cars.MakeCar`, so generation is rejected - identically in both trees.
    case(
        "two_services_subpackage_rejected",
        fleet_files(),
        FL,
        "transport=grpc+rest,autogen-snippets=false",
        [
            {"selector": FL + ".depots.Depots.OpenDepot",
             "auto_populated_fields": ["request_id"]},
            {"selector": FL + ".Cars.MakeCar",
             "auto_populated_fields": ["idempotency_key", "request_id"]},
        ],
    )
    # 5c. two services in two files of the SAME package, settings for both.
    case(
        "two_services_one_package",
        fleet_files(subpackage=False),
        FL,
        "transport=grpc+rest",
        [
            {"selector": FL + ".Depots.OpenDepot",
             "auto_populated_fields": ["request_id"]},
            {"selector": FL + ".Cars.MakeCar",
             "auto_populated_fields": ["idempotency_key", "request_id"]},
        ],
    )
    # 6. a single valid setting with metadata option.
    case(
        "valid_single_metadata",
        [library_file()],
        LIB,
        "metadata",
        [{"selector": L + "GetBook", "auto_populated_fields": ["request_id"]}],
    )

    # ---- invalid settings: every single violation, and combinations -------
    invalid = {
        "err_duplicate": [
            {"selector": L + "GetBook", "auto_populated_fields": ["request_id"]},
            {"selector": L + "GetBook", "auto_populated_fields": ["request_id"]},
        ],
        # duplicate overrides the field errors recorded for the first entry
        "err_duplicate_after_errors": [
            {"selector": L + "CreateBook", "auto_populated_fields": ["plain_id"]},
            {"selector": L + "CreateBook", "auto_populated_fields": ["request_id"]},
            {"selector": L + "CreateBook"},
        ],
        "err_method_not_found": [
            {"selector": L + "NoSuchMethod", "auto_populated_fields": ["request_id"]},
        ],
        "err_method_not_found_no_fields": [
            {"selector": "google.example.library.v1.Nope.GetBook"},
        ],
        "err_empty_selector": [{"auto_populated_fields": ["request_id"]}],
        "err_server_streaming": [
            {"selector": L + "StreamBooks", "auto_populated_fields": ["request_id"]},
        ],
        "err_client_streaming": [
            {"selector": L + "UploadBooks", "auto_populated_fields": ["request_id"]},
        ],
        "err_bidi_streaming": [
            {"selector": L + "ChatBooks", "auto_populated_fields": ["nope"]},
        ],
        "err_field_not_found": [
            {"selector": L + "CreateBook", "auto_populated_fields": ["missing"]},
        ],
        "err_nested_field": [
            {"selector": L + "CreateBook",
             "auto_populated_fields": ["book.request_id"]},
        ],
        "err_reserved_word_field": [
            {"selector": L + "CreateBook", "auto_populated_fields": ["from"]},
        ],
        "err_not_string": [
            {"selector": L + "CreateBook", "auto_populated_fields": ["numeric_id"]},
        ],
        "err_message_typed": [
            {"selector": L + "CreateBook", "auto_populated_fields": ["book"]},
        ],
        "err_map_field": [
            {"selector": L + "CreateBook", "auto_populated_fields": ["labels"]},
        ],
        "err_required": [
            {"selector": L + "CreateBook", "auto_populated_fields": ["required_id"]},
        ],
        "err_not_uuid4": [
            {"selector": L + "CreateBook", "auto_populated_fields": ["plain_id"]},
        ],
        "err_optional_not_uuid4": [
            {"selector": L + "CreateBook", "auto_populated_fields": ["opt_plain"]},
        ],
        "err_required_not_uuid4": [
            {"selector": L + "CreateBook", "auto_populated_fields": ["parent"]},
        ],
        "err_many": [
            {"selector": L + "CreateBook",
             "auto_populated_fields": ["request_id", "missing", "numeric_id",
                                       "parent", "client_token", "plain_id",
                                       "book", "missing"]},
            {"selector": L + "StreamBooks", "auto_populated_fields": ["request_id"]},
            {"selector": L + "Zzz"},
            {"selector": L + "GetBook", "auto_populated_fields": ["request_id"]},
            {"selector": L + "GetBook"},
            {"selector": L + "DeleteBook", "auto_populated_fields": ["name"]},
        ],
    }
    for name, settings in invalid.items():
        case(name, [library_file()], LIB, "transport=grpc+rest", settings)

    # repeated string with UUID4: accepted by the validation (type is `str`).
    case(
        "repeated_uuid4_field",
        [library_file()],
        LIB,
        "transport=grpc+rest",
        [{"selector": L + "CreateBook", "auto_populated_fields": ["many_ids"]}],
    )
    return cases


# --------------------------------------------------------------------------
def main(argv) -> int:
    if len(argv) == 5 and argv[1] == "--worker":
        worker(argv[2], argv[3], argv[4])
        return 0
    if len(argv) != 2:
        print(__doc__)
        return 2

    checkout = os.path.abspath(argv[1])
    tmpdir = tempfile.mkdtemp(prefix="twin-demo-T18-")
    try:
        pristine = os.path.join(tmpdir, "pristine")
        os.mkdir(pristine)
        archive = subprocess.Popen(
            ["git", "-C", checkout, "archive", "HEAD"], stdout=subprocess.PIPE
        )
        subprocess.check_call(["tar", "-x", "-C", pristine], stdin=archive.stdout)
        archive.stdout.close()
        if archive.wait() != 0:
            print("git archive failed")
            return 1

        cases = build_cases(tmpdir)
        cases_path = os.path.join(tmpdir, "cases.pkl")
        with open(cases_path, "wb") as f:
            pickle.dump(cases, f)

        env = dict(os.environ)
        env.pop("PYTHONPATH", None)
        env["PYTHONDONTWRITEBYTECODE"] = "1"
        env["PYTHONHASHSEED"] = "0"
        outs = {}
        procs = []
        for label, tree in (("pristine", pristine), ("changed", checkout)):
            out_path = os.path.join(tmpdir, f"out_{label}.pkl")
            outs[label] = out_path
            procs.append(
                (
                    label,
                    subprocess.Popen(
                        [sys.executable, os.path.abspath(__file__), "--worker",
                         tree, cases_path, out_path],
                        env=env,
                        cwd=tmpdir,
                    ),
                )
            )
        for label, proc in procs:
            if proc.wait() != 0:
                print(f"worker for the {label} tree failed")
                return 1

        with open(outs["pristine"], "rb") as f:
            before = pickle.load(f)
        with open(outs["changed"], "rb") as f:
            after = pickle.load(f)

        problems = []
        n_files = n_ok = n_err = 0
        for c in cases:
            name = c["name"]
            a, b = before[name], after[name]
            for key in sorted(set(a) | set(b)):
                if key == "files":
                    continue
                if a.get(key, "<absent>") != b.get(key, "<absent>"):
                    problems.append(
                        f"{name}: {key} differs: {a.get(key)!r} != {b.get(key)!r}"
                    )
            fa, fb = a.get("files"), b.get("files")
            if (fa is None) != (fb is None):
                problems.append(f"{name}: only one tree generated files")
            elif fa is not None:
                n_ok += 1
                for fname in sorted(set(fa) | set(fb)):
                    n_files += 1
                    if fname not in fa:
                        problems.append(f"{name}: {fname} only in changed tree")
                    elif fname not in fb:
                        problems.append(f"{name}: {fname} only in pristine tree")
                    elif fa[fname] != fb[fname]:
                        problems.append(f"{name}: {fname} content differs")
            else:
                n_err += 1

        # Sanity: the cases must really exercise the code under test.
        def has(case_name, fname_part, text):
            files = after[case_name].get("files") or {}
            return any(
                fname_part in n and text in content for n, content in files.items()
            )

        sanity = [
            has("valid_grpc_rest", "services/library/client.py",
                "if 'request_id' not in request:"),
            has("valid_grpc_rest", "services/library/async_client.py",
                "if not request.client_token:"),
            has("valid_grpc_rest", "services/library/async_client.py", "import uuid"),
            not has("no_service_yaml", "services/library/async_client.py",
                    "import uuid"),
            has("settings_without_fields_rest", "services/library/client.py",
                "import uuid"),
            not has("settings_without_fields_rest", "services/library/client.py",
                    "uuid.uuid4()"),
            has("two_services_subpackage", "depots/services/depots/async_client.py",
                "if 'request_id' not in request:"),
            has("two_services_one_package", "services/cars/async_client.py",
                "if not request.request_id:"),
            has("two_services_one_package", "services/cars/client.py",
                "if 'idempotency_key' not in request:"),
            after["two_services_subpackage_rejected"].get("error", ("", ""))[1]
            == "MethodSettingsError",
            after["err_many"].get("settings_error", ("",))[0] == "MethodSettingsError",
            after["err_duplicate"].get("enforce", ("",))[0] == "MethodSettingsError",
            n_ok >= 8 and n_err >= 15,
        ]
        if not all(sanity):
            problems.append(f"sanity checks failed: {sanity}")

        if problems:
            print(f"DIFFERENT: {len(problems)} problem(s)")
            for p in problems:
                print("  " + p)
            return 1
        print(
            f"IDENTICAL: {len(cases)} API descriptions "
            f"({n_ok} generated, {n_err} rejected with identical errors), "
            f"{n_files} output files compared byte for byte"
        )
        return 0
    finally:
        shutil.rmtree(tmpdir, ignore_errors=True)


if __name__ == "__main__":
    sys.exit(main(sys.argv))
