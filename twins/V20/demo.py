#!/usr/bin/env python
"""Differential demo for the V20 refactoring (property C20).

Usage:  /venv/bin/python demo.py <path-to-a-checkout-with-the-change>

1. `git archive HEAD` of <checkout> is unpacked into a temp dir: the pristine tree.
2. Several API descriptions (FileDescriptorProtos built in Python, with
   SourceCodeInfo comments of many shapes) are generated with the pristine tree
   and with the working tree of <checkout>, each in its own subprocess in which
   only the tree under test can provide the `gapic` package (asserted).
3. Every output file is compared byte for byte (names and contents).  As an
   extra, the refactored functions (wrap, sort_lines, rst, fix_whitespace,
   Metadata.doc, utils.doc) are called directly on a deterministic pseudo-random
   corpus in both trees and the results are compared as well.

Exit 0 and one summary line if everything is identical, exit 1 and the list of
differing files otherwise.
"""

import hashlib
import os
import pickle
import shutil
import subprocess
import sys
import tempfile

from google.api import annotations_pb2, client_pb2, field_behavior_pb2, resource_pb2
from google.longrunning import operations_pb2
from google.protobuf import descriptor_pb2 as dpb
from google.protobuf import empty_pb2, field_mask_pb2, timestamp_pb2

FD = dpb.FieldDescriptorProto
WELL_KNOWN = (annotations_pb2, client_pb2, field_behavior_pb2, resource_pb2,
              operations_pb2, empty_pb2, field_mask_pb2, timestamp_pb2)

LONG = ("The quick brown fox jumps over the lazy dog while the five boxing wizards "
        "jump quickly and the sphinx of black quartz judges every vow")

# Comment texts, in the form protoc hands them over (one leading blank per line).
PLAIN = [
    " Short.\n",
    " " + LONG + ". " + LONG + ".\n " + LONG + ".\n",
    " Intro line that ends with a colon:\n the continuation follows directly.\n",
    " " + LONG + " " + LONG + ":\n text after a colon that had to be wrapped.\n\n Second paragraph.\n",
    " Allowed values:\n - first, which is " + LONG + " " + LONG + "\n - second\n + third\n"
    " 1. numbered " + LONG + " " + LONG + "\n 12. twelve\n",
    " " + LONG + " " + LONG + "\n - list right after a long first line\n - sibling item\n",
    " " + LONG + " " + LONG + "\n next line, joined to the first.\n last.\n",
    " " + LONG + " " + LONG + "\n 7. numbered item right after a long first line\n",
    ' Contains three quotes """ in plain text\n and goes on.\n',
    ' Ends with "quotes"\n',
    ' Several lines, then a quote:\n like "so"\n',
    " Ends with a backslash \\\n",
    ' Backslash and quote \\"\n',
    " Tabs\tbetween\twords,   runs   of   blanks.\n\ta line led by a tab.\n",
    " See https://example.com/a-very/long-url/with-hyphens/" + "q" * 90 + "\n then a word\n",
    "\n\n Blank lines first.\n\n\n\n And a gap before the end.\n",
    " a\n b\n c: \n d:\n e " + LONG + " " + LONG + "\n f\n",
    " Values:\n  KEY_A: the first\n  KEY_B: the second:\n  KEY_C\n",
    " -\n - \n -y\n 3.\n 3. \n 3.y\n + \n",
    " Non-ASCII: na\u00efve \u2013 \u201ccurly\u201d \u00a0 nbsp \u2003 em-space.\n",
    "   \n",
    " Colon at the very end:\n",
]
MARKDOWN = [
    " Uses *emphasis*, `code`, a snake_case_name and [a link](https://example.com/x-y).\n " + LONG + "\n",
    " A | pipe | table?\n\n * bullet one\n * bullet two\n",
    ' Markdown with `"""` inside\n',
    ' Markdown ending in a "quote_"\n',
    " Markdown ending in a backslash_ \\\n",
    " one_liner\n",
]


class Commenter:
    """Adds SourceCodeInfo locations to a file, cycling through a corpus."""

    STYLES = ("leading", "trailing", "detached", "blank-leading", "both", "none", "empty")

    def __init__(self, fdp, style, corpus, start=0):
        self.fdp, self.style, self.corpus, self.i = fdp, style, corpus, start

    def __call__(self, *path):
        if self.style == "off":
            return
        text = self.corpus[self.i % len(self.corpus)]
        style = self.style
        if style == "cycle":
            style = self.STYLES[(self.i // 2) % len(self.STYLES)]
        self.i += 1
        if style == "none":
            return
        loc = self.fdp.source_code_info.location.add(path=list(path))
        if style == "leading":
            loc.leading_comments = text
        elif style == "trailing":
            loc.trailing_comments = text
        elif style == "detached":
            loc.leading_detached_comments.extend([text, " A second detached block.\n"])
        elif style == "blank-leading":
            loc.leading_comments = "\n \n"   # truthy, strips to ""
            loc.trailing_comments = text
        elif style == "both":
            loc.leading_comments = text
            loc.trailing_comments = " trailing: not selected\n"
            loc.leading_detached_comments.append(" detached: not selected\n")
        # "empty": location without comments


def field(name, number, type_=FD.TYPE_STRING, *, repeated=False, type_name=None, oneof=None,
          required=False, ref=None, optional=False):
    words = name.split("_")
    f = FD(name=name, number=number, type=type_,
           label=FD.LABEL_REPEATED if repeated else FD.LABEL_OPTIONAL,
           json_name=words[0] + "".join(w.title() for w in words[1:]))
    if type_name:
        f.type_name = type_name
    if oneof is not None:
        f.oneof_index = oneof
    if optional:
        f.proto3_optional = True
    if required:
        f.options.Extensions[field_behavior_pb2.field_behavior].append(field_behavior_pb2.REQUIRED)
    if ref:
        f.options.Extensions[resource_pb2.resource_reference].type = ref
    return f


def message(fdp, c, name, fields, *, oneofs=(), maps=(), nested=(), enums=(), resource=None):
    idx = len(fdp.message_type)
    m = fdp.message_type.add(name=name)
    c(4, idx)
    for j, f in enumerate(fields):
        m.field.append(f)
        c(4, idx, 2, j)
    for j, o in enumerate(oneofs):
        m.oneof_decl.add(name=o)
    k = 0
    for entry, value in maps:
        e = m.nested_type.add(name=entry)
        e.options.map_entry = True
        e.field.extend([field("key", 1), value])
        k += 1
    for nname, nfields in nested:
        n = m.nested_type.add(name=nname)
        c(4, idx, 3, k)
        for j, nf in enumerate(nfields):
            n.field.append(nf)
            c(4, idx, 3, k, 2, j)
        k += 1
    for j, (ename, values) in enumerate(enums):
        e = m.enum_type.add(name=ename)
        c(4, idx, 4, j)
        for v, vname in enumerate(values):
            e.value.add(name=vname, number=v)
            c(4, idx, 4, j, 2, v)
    if resource:
        r = m.options.Extensions[resource_pb2.resource]
        r.type = resource[0]
        r.pattern.extend(resource[1:])


def top_enum(fdp, c, name, values):
    idx = len(fdp.enum_type)
    e = fdp.enum_type.add(name=name)
    c(5, idx)
    for v, vname in enumerate(values):
        e.value.add(name=vname, number=v)
        c(5, idx, 2, v)


def service(fdp, c, name, host, methods, scopes=None):
    idx = len(fdp.service)
    s = fdp.service.add(name=name)
    c(6, idx)
    s.options.Extensions[client_pb2.default_host] = host
    if scopes:
        s.options.Extensions[client_pb2.oauth_scopes] = scopes
    for j, spec in enumerate(methods):
        m = s.method.add(name=spec["name"], input_type=spec["in"], output_type=spec["out"],
                         client_streaming=spec.get("cs", False), server_streaming=spec.get("ss", False))
        c(6, idx, 2, j)
        if "http" in spec:
            verb, uri, body = spec["http"]
            rule = m.options.Extensions[annotations_pb2.http]
            setattr(rule, verb, uri)
            if body:
                rule.body = body
            for verb2, uri2, body2 in spec.get("also", ()):
                extra = rule.additional_bindings.add()
                setattr(extra, verb2, uri2)
                if body2:
                    extra.body = body2
        for sig in spec.get("sigs", ()):
            m.options.Extensions[client_pb2.method_signature].append(sig)
        if "lro" in spec:
            info = m.options.Extensions[operations_pb2.operation_info]
            info.response_type, info.metadata_type = spec["lro"]
        if spec.get("deprecated"):
            m.options.deprecated = True


def dependencies():
    seen, out = set(), []

    def visit(fd):
        if fd.name in seen:
            return
        seen.add(fd.name)
        for dep in fd.dependencies:
            visit(dep)
        out.append(dpb.FileDescriptorProto.FromString(fd.serialized_pb))

    for mod in WELL_KNOWN:
        visit(mod.DESCRIPTOR)
    return out


def new_file(name, package, extra=()):
    fdp = dpb.FileDescriptorProto(name=name, package=package, syntax="proto3")
    fdp.dependency.extend([m.DESCRIPTOR.name for m in WELL_KNOWN] + list(extra))
    return fdp


# --------------------------------------------------------------------------- APIs
def api_library(style, corpus, start):
    """Resources, paging, LRO, maps/repeated/oneof/optional, reserved words, flattening."""
    pkg = "demo.library.v1"
    P = "." + pkg
    fdp = new_file("demo/library/v1/library.proto", pkg)
    c = Commenter(fdp, style, corpus, start)
    c(12)  # the `syntax` statement
    top_enum(fdp, c, "Genre", ["GENRE_UNSPECIFIED", "FICTION", "SCIENCE"])
    message(fdp, c, "Book", [
        field("name", 1),
        field("from", 2),
        field("class", 3, FD.TYPE_BOOL),
        field("chapters", 4, repeated=True),
        field("labels", 5, FD.TYPE_MESSAGE, repeated=True, type_name=P + ".Book.LabelsEntry"),
        field("genre", 6, FD.TYPE_ENUM, type_name=P + ".Genre"),
        field("isbn", 7, oneof=0),
        field("cover", 8, FD.TYPE_MESSAGE, type_name=P + ".Book.Cover", oneof=0),
        field("printed", 9, FD.TYPE_MESSAGE, type_name=".google.protobuf.Timestamp"),
        field("subtitle", 10, oneof=1, optional=True),
        field("scan", 11, FD.TYPE_BYTES),
        field("ratings", 12, FD.TYPE_MESSAGE, repeated=True, type_name=P + ".Book.RatingsEntry"),
    ], oneofs=["ident", "_subtitle"],
        maps=[("LabelsEntry", field("value", 2)), ("RatingsEntry", field("value", 2, FD.TYPE_DOUBLE))],
        nested=[("Cover", [field("image_uri", 1),
                           field("finish", 2, FD.TYPE_ENUM, type_name=P + ".Book.Finish")])],
        enums=[("Finish", ["FINISH_UNSPECIFIED", "MATTE", "GLOSSY"])],
        resource=("library.demo.com/Book", "shelves/{shelf}/books/{book}"))
    message(fdp, c, "Shelf", [field("name", 1), field("theme", 2)],
            resource=("library.demo.com/Shelf", "shelves/{shelf}"))
    message(fdp, c, "GetBookRequest", [field("name", 1, required=True, ref="library.demo.com/Book")])
    message(fdp, c, "CreateBookRequest", [
        field("parent", 1, required=True, ref="library.demo.com/Shelf"),
        field("book", 2, FD.TYPE_MESSAGE, type_name=P + ".Book", required=True),
        field("book_id", 3)])
    message(fdp, c, "UpdateBookRequest", [
        field("book", 1, FD.TYPE_MESSAGE, type_name=P + ".Book", required=True),
        field("update_mask", 2, FD.TYPE_MESSAGE, type_name=".google.protobuf.FieldMask")])
    message(fdp, c, "DeleteBookRequest", [field("name", 1, required=True, ref="library.demo.com/Book")])
    message(fdp, c, "ListBooksRequest", [
        field("parent", 1, required=True, ref="library.demo.com/Shelf"),
        field("page_size", 2, FD.TYPE_INT32), field("page_token", 3), field("filter", 4)])
    message(fdp, c, "ListBooksResponse", [
        field("books", 1, FD.TYPE_MESSAGE, repeated=True, type_name=P + ".Book"),
        field("next_page_token", 2)])
    message(fdp, c, "DigitizeRequest", [field("name", 1, required=True), field("dpi", 2, FD.TYPE_INT32)])
    message(fdp, c, "DigitizeResponse", [field("pages", 1, FD.TYPE_INT64)])
    message(fdp, c, "DigitizeMetadata", [field("progress", 1, FD.TYPE_FLOAT)])
    service(fdp, c, "LibraryService", "library.demo.com", [
        dict(name="GetBook", **{"in": P + ".GetBookRequest"}, out=P + ".Book",
             http=("get", "/v1/{name=shelves/*/books/*}", None), sigs=["name"]),
        dict(name="CreateBook", **{"in": P + ".CreateBookRequest"}, out=P + ".Book",
             http=("post", "/v1/{parent=shelves/*}/books", "book"),
             sigs=["parent,book,book_id", "parent,book"]),
        dict(name="UpdateBook", **{"in": P + ".UpdateBookRequest"}, out=P + ".Book",
             http=("patch", "/v1/{book.name=shelves/*/books/*}", "book"), sigs=["book,update_mask"]),
        dict(name="DeleteBook", **{"in": P + ".DeleteBookRequest"}, out=".google.protobuf.Empty",
             http=("delete", "/v1/{name=shelves/*/books/*}", None), sigs=["name"], deprecated=True),
        dict(name="ListBooks", **{"in": P + ".ListBooksRequest"}, out=P + ".ListBooksResponse",
             http=("get", "/v1/{parent=shelves/*}/books", None), sigs=["parent"]),
        dict(name="Digitize", **{"in": P + ".DigitizeRequest"}, out=".google.longrunning.Operation",
             http=("post", "/v1/{name=shelves/*/books/*}:digitize", "*"),
             also=[("post", "/v1/{name=archives/*/books/*}:digitize", "*")],
             lro=("DigitizeResponse", "DigitizeMetadata")),
    ], scopes="https://www.googleapis.com/auth/cloud-platform")
    return pkg, [fdp]


def api_telemetry(style, corpus, start=4):
    """Unary plus the three streaming shapes; no resources, no LRO, no paging."""
    pkg = "demo.telemetry.v1beta1"
    P = "." + pkg
    fdp = new_file("demo/telemetry/v1beta1/telemetry.proto", pkg)
    c = Commenter(fdp, style, corpus, start)
    message(fdp, c, "Sample", [
        field("data", 1, FD.TYPE_BYTES), field("lambda", 2), field("index", 3, FD.TYPE_UINT64),
        field("dims", 4, FD.TYPE_MESSAGE, repeated=True, type_name=P + ".Sample.DimsEntry")],
        maps=[("DimsEntry", field("value", 2, FD.TYPE_SINT32))])
    message(fdp, c, "Receipt", [field("index", 1, FD.TYPE_UINT64), field("accepted", 2, FD.TYPE_BOOL)])
    service(fdp, c, "Telemetry", "telemetry.demo.com", [
        dict(name="Send", **{"in": P + ".Sample"}, out=P + ".Receipt",
             http=("post", "/v1beta1/send", "*"), sigs=["data", "data,lambda"]),
        dict(name="Watch", **{"in": P + ".Sample"}, out=P + ".Receipt", ss=True,
             http=("post", "/v1beta1/watch", "*")),
        dict(name="Batch", **{"in": P + ".Sample"}, out=P + ".Receipt", cs=True),
        dict(name="Chat", **{"in": P + ".Sample"}, out=P + ".Receipt", cs=True, ss=True),
    ])
    return pkg, [fdp]


def api_market(style, corpus):
    """Two files (one in a sub-package), two services, cross-file types, two resource patterns."""
    pkg = "corp.market.v2"
    P = "." + pkg
    common = new_file("corp/market/v2/common/money.proto", pkg + ".common")
    cc = Commenter(common, style, corpus, 8)
    top_enum(common, cc, "Currency", ["CURRENCY_UNSPECIFIED", "EUR", "USD"])
    message(common, cc, "Price", [field("units", 1, FD.TYPE_INT64),
                                  field("currency", 2, FD.TYPE_ENUM, type_name=P + ".common.Currency")])
    main = new_file("corp/market/v2/market.proto", pkg, ["corp/market/v2/common/money.proto"])
    c = Commenter(main, style, corpus, 15)
    c(12)
    message(main, c, "Stall", [
        field("name", 1), field("rent", 2, FD.TYPE_MESSAGE, type_name=P + ".common.Price"),
        field("global", 3), field("annexes", 4, FD.TYPE_MESSAGE, repeated=True, type_name=P + ".Stall")],
        resource=("market.corp.com/Stall", "stalls/{stall}", "markets/{market}/stalls/{stall}"))
    message(main, c, "GetStallRequest", [
        field("name", 1, required=True, ref="market.corp.com/Stall"),
        field("view", 2, FD.TYPE_ENUM, type_name=P + ".GetStallRequest.View")],
        enums=[("View", ["VIEW_UNSPECIFIED", "BASIC", "FULL"])])
    message(main, c, "ListStallsRequest", [
        field("page_size", 1, FD.TYPE_INT32), field("page_token", 2),
        field("currency", 3, FD.TYPE_ENUM, type_name=P + ".common.Currency")])
    message(main, c, "ListStallsResponse", [
        field("stalls", 1, FD.TYPE_MESSAGE, repeated=True, type_name=P + ".Stall"),
        field("next_page_token", 2)])
    message(main, c, "Order", [field("id", 1),
                               field("total", 2, FD.TYPE_MESSAGE, type_name=P + ".common.Price")])
    service(main, c, "Stalls", "market.corp.com", [
        dict(name="GetStall", **{"in": P + ".GetStallRequest"}, out=P + ".Stall",
             http=("get", "/v2/{name=stalls/*}", None),
             also=[("get", "/v2/{name=markets/*/stalls/*}", None)], sigs=["name"]),
        dict(name="ListStalls", **{"in": P + ".ListStallsRequest"}, out=P + ".ListStallsResponse",
             http=("get", "/v2/stalls", None)),
    ])
    service(main, c, "Orders", "orders.corp.com:8443", [
        dict(name="Place", **{"in": P + ".Order"}, out=P + ".Order",
             http=("post", "/v2/orders", "*"), sigs=["id,total"]),
        dict(name="Cancel", **{"in": P + ".Order"}, out=".google.protobuf.Empty",
             http=("post", "/v2/orders/{id}:cancel", "*")),
    ])
    return pkg, [common, main]


def cases():
    everything = PLAIN + MARKDOWN
    return [
        ("library/leading-plain/defaults", api_library("leading", PLAIN, 0), ""),
        ("library/leading-shifted/grpc+rest", api_library("leading", everything, 11),
         "transport=grpc+rest,metadata"),
        ("library/cycle/numeric-enums-no-snippets", api_library("cycle", everything, 5),
         "autogen-snippets=false,transport=grpc+rest,rest-numeric-enums"),
        ("library/trailing/rest-only", api_library("trailing", PLAIN, 17),
         "transport=rest,autogen-snippets=false"),
        ("telemetry/no-source-info/grpc", api_telemetry("off", PLAIN), "transport=grpc"),
        ("telemetry/detached-markdown/grpc+rest", api_telemetry("detached", MARKDOWN + PLAIN[8:14]),
         "transport=grpc+rest"),
        ("market/cycle/rest-numeric", api_market("cycle", everything), "transport=rest,rest-numeric-enums"),
        ("market/leading/old-naming", api_market("leading", PLAIN),
         "old-naming,python-gapic-namespace=corp,python-gapic-name=bazaar,warehouse-package-name=corp-bazaar"),
    ]


# --------------------------------------------------------------------------- worker
WORKER = r'''
import os, pickle, random, sys, warnings
tree, job_path, out_path = sys.argv[1:4]
tree = os.path.realpath(tree)
warnings.simplefilter("ignore")

# --- only `tree` may provide `gapic`: drop the editable-install finder / hook and
# --- any other sys.path entry holding a gapic package, then put `tree` first.
def _is_editable(obj):
    names = (getattr(obj, "__module__", "") or "", getattr(obj, "__name__", "") or "",
             getattr(getattr(obj, "__self__", None), "__module__", "") or "", repr(obj))
    return any("__editable__" in n for n in names)
sys.meta_path[:] = [f for f in sys.meta_path if not _is_editable(f)]
sys.path_hooks[:] = [h for h in sys.path_hooks if not _is_editable(h)]
others = []
for entry in sys.path:
    if "__editable__" in entry:
        continue
    real = os.path.realpath(entry or os.getcwd())
    if real == tree or os.path.isdir(os.path.join(real, "gapic")):
        continue
    others.append(entry)
sys.path[:] = [tree] + others
sys.path_importer_cache.clear()
for name in [n for n in sys.modules if n == "gapic" or n.startswith("gapic.")]:
    del sys.modules[name]

import pypandoc
def _fake_convert_text(text, to, format=None, extra_args=()):
    # pandoc is not installed here; this deterministic stand-in is identical in both runs.
    body = text.replace("`", "``").replace("\n\n\n", "\n\n")
    return "\n  " + body + "\n.. pandoc(%s, %s, %s)\n\n" % (to, format, " ".join(extra_args))
pypandoc.convert_text = _fake_convert_text

from google.protobuf import descriptor_pb2
import gapic
from gapic.schema import api as api_mod, metadata
from gapic.generator import generator, formatter
from gapic import utils
from gapic.utils import Options
lines_mod = sys.modules["gapic.utils.lines"]
rst_mod = sys.modules["gapic.utils.rst"]
doc_mod = sys.modules["gapic.utils.doc"]
assert rst_mod.pypandoc.convert_text is _fake_convert_text
wrap, sort_lines, rst = lines_mod.wrap, lines_mod.sort_lines, rst_mod.rst

job = pickle.load(open(job_path, "rb"))
result = {}
for case in job:
    fds = descriptor_pb2.FileDescriptorSet.FromString(case["fds"])
    opts = Options.build(case["opts"])
    for tpl_dir in opts.templates:
        assert os.path.realpath(tpl_dir).startswith(os.path.join(tree, "gapic") + os.sep), tpl_dir
    schema = api_mod.API.build(list(fds.file), package=case["package"], opts=opts)
    gen = generator.Generator(opts)
    for search in gen._env.loader.searchpath:
        assert os.path.realpath(search).startswith(os.path.join(tree, "gapic") + os.sep), search
    response = gen.get_response(schema, opts)
    files = {}
    for f in response.file:
        assert f.name not in files, f.name
        files[f.name] = f.content
    assert files, case["name"]
    result[case["name"]] = files

# --- direct calls of the refactored functions --------------------------------------
rng = random.Random(20)
direct = []
def record(fn, *args, **kwargs):
    try:
        value = fn(*args, **kwargs)
    except Exception as exc:          # failing the same way is the same behaviour
        value = "RAISED %s: %s" % (type(exc).__name__, exc)
    direct.append(repr(value))

WORDS = ["a", "to", "and", "word", "longer-hyphenated-word", "x" * 40, "y" * 95, "-", "+", "3.", "21.",
         "name:", "done:", "`tt`", "*em*", "snake_case", "[ref]", "|", '"', '"""', '""', "\\", "\\\\",
         "\u00e9t\u00e9", "\u2003", "\x0b", "\x1c", "https://h.example/p-q-r"]
SEPS = [" ", " ", " ", "  ", "\t", "\n", "\n", "\n ", "\n\n", "\n\n\n", ":\n", " \n", "\n- ", "\n+ ",
        "\n4. ", "\n    ", ":\n\n", ":\n:\n", "\r\n"]
def text():
    s = rng.choice(["", "", " ", "\n", "- ", "+ ", "5. ", ":"])
    for _ in range(rng.choice([0, 1, 2, 3, 7, 20, 45])):
        s += rng.choice(WORDS) + rng.choice(SEPS)
    return s

for _ in range(4000):
    t = text()
    width = rng.choice([1, 2, 4, 9, 20, 40, 72, 80, 100])
    indent = rng.choice([0, 0, 2, 4, 8, 12])
    offset = rng.choice([None, None, 0, 3, indent, indent + 3, width - 1, width, width + 5])
    record(wrap, t, width, offset=offset, indent=indent)
    record(wrap, t, width=width, indent=indent)
    record(rst, t, width, indent, rng.choice([None, True, False]))
    record(rst, t, width=width, indent=indent)
    record(rst, t)
    record(sort_lines, t)
    record(sort_lines, t, dedupe=False)
for t in ["", " ", "\n", "\n\n", "z", ":", ":\n", "k:\nv", "k:\n:\nv", '"', '"""', 'q"', "q\\", 'q\\"', '\\"""',
          '""""', '"' * 7, "- ", "- a\n- b", "1. a\n2. b", "a\n- b", "w " * 70, ("w " * 70 + "\n") * 3,
          "l\n" * 6, "\tl\n\tm", "\nimport b\nimport a\nimport b\n\n", "b\na\n", "\n", "  \n  x\n \n"]:
    for width, indent in [(72, 0), (80, 8), (12, 2), (1, 0), (0, 0), (6, 10), (40, -2)]:
        record(wrap, t, width, indent=indent)
        record(wrap, t, width, offset=0, indent=indent)
        for nl in (None, True, False, 0, 1):
            record(rst, t, width, indent, nl)
    record(sort_lines, t)
    record(sort_lines, t, False)
# out-of-contract arguments must fail (or not) in the same way
for bad in [(None, 72, 0), ("text", None, 0), ("text", 72, None), ("text", 72.0, 4.0), ("a\nb", 72, 2.0),
            ("te_xt", 72, 2.0), (b"bytes", 72, 0), ("text", "72", 0)]:
    record(rst, *bad)
    record(wrap, bad[0], bad[1], indent=bad[2])
for bad in [None, b"b\na", 5]:
    record(sort_lines, bad)

PIECES = ["class A:", "def f():", "@deco", "# comment", "_hidden = 1", "value = 1", "    def m(self):",
          "    @property", "        return 1", "    # inner", "    _z = 2", "    \u00e9 = 3", "    9", "    -1",
          "    (x)", "    @", "    #", "     five", "   three", '    """Doc', '    """', "", "", " ", "    ",
          "\t", "                ", "\x0c", "\x0b", "\u00a0", "pass   ", 's = """', '   """', "__all__ = (", ")",
          "classy = 1", "define = 2", "@", "#", "_"]
ENDS = ["\n", "\n", "\n\n", " \n", "    \n", "\n\n\n\n", "\r\n", "\t\n", "", " \t \n", "\n \n"]
for _ in range(5000):
    src = "".join(rng.choice(PIECES) + rng.choice(ENDS) for _ in range(rng.choice([0, 1, 2, 5, 12, 25])))
    record(formatter.fix_whitespace, src)
for src in ["", "\n", " ", "x", "x\n\n\n", "\n\n\nclass A: pass", "a\n\n\n\n\ndef f(): pass\n\n\n\n    x\n",
            "a\n\n\n    _b\n\n\n        @c\n\n\n            #d\n\n\n_e\n\n\n\n@f\n\n\n\n#g\n"]:
    record(formatter.fix_whitespace, src)
record(formatter.fix_whitespace, None)
for files in result.values():
    for name in sorted(files):
        record(formatter.fix_whitespace, files[name])
        record(formatter.fix_whitespace, files[name].replace("\n", "  \n\n\n\n"))
        record(sort_lines, files[name])

for _ in range(3000):
    loc = descriptor_pb2.SourceCodeInfo.Location()
    if rng.random() < .5:
        loc.leading_comments = rng.choice(["", " ", "\n", " \n ", text()])
    if rng.random() < .5:
        loc.trailing_comments = rng.choice(["", " ", "\n", "\t", text()])
    for _ in range(rng.choice([0, 0, 1, 2, 3])):
        loc.leading_detached_comments.append(rng.choice(["", " ", "\n", text()]))
    record(lambda: metadata.Metadata(documentation=loc).doc)
record(lambda: metadata.Metadata().doc)
record(lambda: metadata.Metadata(documentation=None).doc)
record(lambda: metadata.Metadata(documentation=object()).doc)
for t in ["", "  padded \n", "x", None, b"bytes", "\u00e9", 5]:
    record(lambda: doc_mod.doc(t).SerializeToString())
    record(lambda: metadata.Metadata(documentation=utils.doc(t)).doc)

# --- provenance: every gapic module was loaded from `tree` -------------------------
loaded = [m for n, m in sorted(sys.modules.items()) if n == "gapic" or n.startswith("gapic.")]
assert len(loaded) > 20, len(loaded)
for m in loaded:
    where = getattr(m, "__file__", None)
    if where is None:                 # namespace package
        paths = [os.path.realpath(p) for p in m.__path__]
        assert paths == [os.path.join(tree, *m.__name__.split("."))], (m.__name__, paths)
    else:
        assert os.path.realpath(where).startswith(tree + os.sep), (m.__name__, where)

result["<direct calls>"] = {"call %06d" % i: v for i, v in enumerate(direct)}
pickle.dump(result, open(out_path, "wb"))
'''


def main():
    if len(sys.argv) != 2:
        print(__doc__)
        return 2
    checkout = os.path.realpath(sys.argv[1])
    tmp = tempfile.mkdtemp(prefix="twin-V20-demo-")
    try:
        pristine = os.path.join(tmp, "pristine")
        os.mkdir(pristine)
        archive = subprocess.Popen(["git", "-C", checkout, "archive", "HEAD"], stdout=subprocess.PIPE)
        subprocess.check_call(["tar", "-x", "-C", pristine], stdin=archive.stdout)
        archive.stdout.close()
        if archive.wait() != 0:
            raise RuntimeError("git archive failed")

        deps = dependencies()
        job = []
        for name, (pkg, fdps), opts in cases():
            fds = dpb.FileDescriptorSet(file=deps + fdps)
            job.append({"name": name, "package": pkg, "opts": opts,
                        "fds": fds.SerializeToString(deterministic=True)})
        job_path = os.path.join(tmp, "job.pickle")
        with open(job_path, "wb") as fh:
            pickle.dump(job, fh)
        worker = os.path.join(tmp, "worker.py")
        with open(worker, "w") as fh:
            fh.write(WORKER)

        env = dict(os.environ, PYTHONHASHSEED="0", PYTHONDONTWRITEBYTECODE="1")
        env.pop("PYTHONPATH", None)
        cwd = os.path.join(tmp, "cwd")
        os.mkdir(cwd)
        procs = []
        for label, tree in (("pristine", pristine), ("changed", checkout)):
            out = os.path.join(tmp, label + ".pickle")
            procs.append((label, out, subprocess.Popen(
                [sys.executable, worker, tree, job_path, out], cwd=cwd, env=env)))
        outputs, failed = {}, False
        for label, out, proc in procs:
            if proc.wait() != 0:
                print("FAIL: the run with the %s tree exited with %d" % (label, proc.returncode))
                failed = True
                continue
            with open(out, "rb") as fh:
                outputs[label] = pickle.load(fh)
        if failed:
            return 1

        a, b = outputs["pristine"], outputs["changed"]
        problems = []
        expected = {c["name"] for c in job} | {"<direct calls>"}
        if set(a) != expected or set(b) != expected:
            problems.append("internal: a run did not produce all cases")
        total = 0
        digest = hashlib.sha256()
        for case in sorted(set(a) | set(b)):
            fa, fb = a.get(case, {}), b.get(case, {})
            for fname in sorted(set(fa) | set(fb)):
                total += 1
                if fname not in fb:
                    problems.append("%s: %s is missing with the change" % (case, fname))
                elif fname not in fa:
                    problems.append("%s: %s exists only with the change" % (case, fname))
                elif fa[fname].encode("utf-8", "surrogatepass") != fb[fname].encode("utf-8", "surrogatepass"):
                    problems.append("%s: %s differs" % (case, fname))
                else:
                    digest.update(("%s\0%s\0%s\0" % (case, fname, fa[fname])).encode("utf-8", "surrogatepass"))
        ndirect = len(a.get("<direct calls>", {}))
        if ndirect < 1000:
            problems.append("internal: too few direct calls recorded")
        if problems:
            print("DIFFERENT: %d problem(s) among %d compared outputs" % (len(problems), total))
            for p in problems[:300]:
                print("  " + p)
            return 1
        print("IDENTICAL: %d API runs, %d generated files and %d direct wrap/sort_lines/rst/fix_whitespace/"
              "Metadata.doc/utils.doc results are byte-for-byte equal (sha256 %s)"
              % (len(job), total - ndirect, ndirect, digest.hexdigest()[:16]))
        return 0
    finally:
        shutil.rmtree(tmp, ignore_errors=True)


if __name__ == "__main__":
    sys.exit(main())
