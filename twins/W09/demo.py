#!/usr/bin/env python
"""Twin demo for W09 (property C09: default retry/timeout from the gRPC service config).

Usage:  /venv/bin/python demo.py <path-to-a-checkout-with-the-change>

Exports the checkout's HEAD (pristine tree), builds several API descriptions
and gRPC service configs that exercise ``_ProtoBuilder._get_retry_and_timeout``
/ ``_to_float`` and the ``_prep_wrapped_messages`` templates, runs the generator
on each with BOTH trees (one subprocess per tree) and compares every output file
byte for byte.  Exit 0 when identical, 1 otherwise.
"""
import hashlib
import json
import os
import pickle
import shutil
import subprocess
import sys
import tempfile
import textwrap

from google.api import annotations_pb2, client_pb2, field_behavior_pb2  # noqa: F401
from google.api import http_pb2, resource_pb2  # noqa: F401
from google.longrunning import operations_pb2
from google.protobuf import descriptor_pb2 as dpb
from google.protobuf import empty_pb2

F = dpb.FieldDescriptorProto

WORKER = r'''
import importlib, os, pickle, sys

tree, cases_path, out_path = sys.argv[1:4]
tree = os.path.realpath(tree)

# Make sure the only `gapic` that can be imported is the one in `tree`.
sys.meta_path[:] = [
    f for f in sys.meta_path
    if "__editable__" not in (getattr(f, "__module__", "") or "")
    and "__editable__" not in getattr(type(f), "__module__", "")
    and "editable" not in getattr(f, "__name__", type(f).__name__).lower()
]
sys.path_hooks[:] = [
    h for h in sys.path_hooks if "__editable__" not in (getattr(h, "__module__", "") or "")
]
keep = []
for p in sys.path:
    rp = os.path.realpath(p or os.getcwd())
    if "__editable__" in p:
        continue
    if os.path.isdir(os.path.join(rp, "gapic")) and rp != tree:
        continue
    keep.append(p)
sys.path[:] = [tree] + [p for p in keep if os.path.realpath(p or os.getcwd()) != tree]
sys.path_importer_cache.clear()
for name in [m for m in sys.modules if m == "gapic" or m.startswith("gapic.")]:
    del sys.modules[name]
importlib.invalidate_caches()

import pypandoc


def _convert_text(text, to, format=None, extra_args=(), **kwargs):
    # pandoc is not installed; same deterministic stub for both trees.
    return text


pypandoc.convert_text = _convert_text

from google.protobuf import descriptor_pb2
from gapic.generator import Generator
from gapic.schema.api import API
from gapic.utils import Options

with open(cases_path, "rb") as f:
    cases = pickle.load(f)

results = {}
for case in cases:
    fds = []
    for blob in case["fds"]:
        fd = descriptor_pb2.FileDescriptorProto()
        fd.ParseFromString(blob)
        fds.append(fd)
    opts = Options.build(case["opts"])
    for tdir in opts.templates:
        assert os.path.realpath(tdir).startswith(tree + os.sep), (tdir, tree)
    api = API.build(fds, package=case["package"], opts=opts)
    gen = Generator(opts)
    for sp in gen._env.loader.searchpath:
        assert os.path.realpath(sp).startswith(tree + os.sep), (sp, tree)
    response = gen.get_response(api, opts)
    files = {}
    for out in response.file:
        assert out.name not in files, out.name
        files[out.name] = out.content
    results[case["name"]] = files

loaded = 0
for name, mod in sorted(sys.modules.items()):
    if name == "gapic" or name.startswith("gapic."):
        path = getattr(mod, "__file__", None)
        if path is None:
            paths = [os.path.realpath(p) for p in getattr(mod, "__path__", [])]
            assert paths and all(p.startswith(tree + os.sep) for p in paths), (name, paths)
        else:
            assert os.path.realpath(path).startswith(tree + os.sep), (name, path)
        loaded += 1
assert loaded > 10, loaded

with open(out_path, "wb") as f:
    pickle.dump(results, f)
'''


# --------------------------------------------------------------------------
# Descriptor helpers
# --------------------------------------------------------------------------
def _dep_closure(*file_descriptors):
    """Return FileDescriptorProtos of the given (pool) files and their deps."""
    seen = {}

    def visit(fd):
        if fd.name in seen:
            return
        for dep in fd.dependencies:
            visit(dep)
        proto = dpb.FileDescriptorProto()
        fd.CopyToProto(proto)
        seen[fd.name] = proto

    for fd in file_descriptors:
        visit(fd)
    return list(seen.values())


COMMON_POOL_FILES = (
    annotations_pb2.DESCRIPTOR,
    client_pb2.DESCRIPTOR,
    field_behavior_pb2.DESCRIPTOR,
    resource_pb2.DESCRIPTOR,
    operations_pb2.DESCRIPTOR,
    empty_pb2.DESCRIPTOR,
)
COMMON_DEPS = _dep_closure(*COMMON_POOL_FILES)
COMMON_DEP_NAMES = [
    "google/api/annotations.proto",
    "google/api/client.proto",
    "google/api/field_behavior.proto",
    "google/api/resource.proto",
    "google/longrunning/operations.proto",
    "google/protobuf/empty.proto",
]


def field(name, number, type_, label=F.LABEL_OPTIONAL, type_name=None, **kw):
    f = F(name=name, number=number, type=type_, label=label, **kw)
    if type_name:
        f.type_name = type_name
    return f


def message(name, *fields, nested=(), oneofs=()):
    m = dpb.DescriptorProto(name=name)
    m.field.extend(fields)
    m.nested_type.extend(nested)
    for o in oneofs:
        m.oneof_decl.add(name=o)
    return m


def map_entry(name, key_type, value_type):
    m = message(name, field("key", 1, key_type), field("value", 2, value_type))
    m.options.map_entry = True
    return m


def method(name, inp, out, *, http=None, body=None, cstream=False, sstream=False,
           signature=None, lro=None):
    m = dpb.MethodDescriptorProto(
        name=name, input_type=inp, output_type=out,
        client_streaming=cstream, server_streaming=sstream,
    )
    if http:
        verb, uri = http
        rule = m.options.Extensions[annotations_pb2.http]
        setattr(rule, verb, uri)
        if body:
            rule.body = body
    if signature is not None:
        m.options.Extensions[client_pb2.method_signature].append(signature)
    if lro:
        info = m.options.Extensions[operations_pb2.operation_info]
        info.response_type, info.metadata_type = lro
    return m


def service(name, host, *methods):
    s = dpb.ServiceDescriptorProto(name=name)
    s.method.extend(methods)
    s.options.Extensions[client_pb2.default_host] = host
    return s


def proto_file(name, package, *, messages=(), services=(), enums=(), deps=()):
    fd = dpb.FileDescriptorProto(name=name, package=package, syntax="proto3")
    fd.dependency.extend(list(COMMON_DEP_NAMES) + list(deps))
    fd.message_type.extend(messages)
    fd.service.extend(services)
    fd.enum_type.extend(enums)
    return fd


ALL_CODES = [
    "CANCELLED", "UNKNOWN", "INVALID_ARGUMENT", "DEADLINE_EXCEEDED", "NOT_FOUND",
    "ALREADY_EXISTS", "PERMISSION_DENIED", "UNAUTHENTICATED", "RESOURCE_EXHAUSTED",
    "FAILED_PRECONDITION", "ABORTED", "OUT_OF_RANGE", "UNIMPLEMENTED", "INTERNAL",
    "UNAVAILABLE", "DATA_LOSS",
]


# --------------------------------------------------------------------------
# Cases
# --------------------------------------------------------------------------
def library_protos(pkg="acme.library.v1", fname="acme/library/v1/library.proto"):
    p = "." + pkg
    book = message(
        "Book",
        field("name", 1, F.TYPE_STRING),
        field("title", 2, F.TYPE_STRING),
        field("pages", 3, F.TYPE_INT32),
        field("tags", 4, F.TYPE_STRING, F.LABEL_REPEATED),
        field("labels", 5, F.TYPE_MESSAGE, F.LABEL_REPEATED, p + ".Book.LabelsEntry"),
        field("isbn", 6, F.TYPE_STRING, oneof_index=0),
        field("serial", 7, F.TYPE_INT64, oneof_index=0),
        field("genre", 8, F.TYPE_ENUM, type_name=p + ".Genre"),
        nested=[map_entry("LabelsEntry", F.TYPE_STRING, F.TYPE_STRING)],
        oneofs=["identifier"],
    )
    genre = dpb.EnumDescriptorProto(name="Genre")
    genre.value.add(name="GENRE_UNSPECIFIED", number=0)
    genre.value.add(name="FICTION", number=1)
    msgs = [
        book,
        message("GetBookRequest", field("name", 1, F.TYPE_STRING)),
        message("DeleteBookRequest", field("name", 1, F.TYPE_STRING)),
        message("CreateBookRequest", field("parent", 1, F.TYPE_STRING),
                field("book", 2, F.TYPE_MESSAGE, type_name=p + ".Book")),
        message("ListBooksRequest", field("parent", 1, F.TYPE_STRING),
                field("page_size", 2, F.TYPE_INT32), field("page_token", 3, F.TYPE_STRING)),
        message("ListBooksResponse",
                field("books", 1, F.TYPE_MESSAGE, F.LABEL_REPEATED, p + ".Book"),
                field("next_page_token", 2, F.TYPE_STRING)),
        message("ImportRequest", field("parent", 1, F.TYPE_STRING),
                field("class", 2, F.TYPE_STRING)),
        message("ImportBooksMetadata", field("progress", 1, F.TYPE_INT32)),
        message("ChatMessage", field("text", 1, F.TYPE_STRING)),
    ]
    svc = service(
        "Library", "library.example.com",
        method("GetBook", p + ".GetBookRequest", p + ".Book",
               http=("get", "/v1/{name=shelves/*/books/*}"), signature="name"),
        method("ListBooks", p + ".ListBooksRequest", p + ".ListBooksResponse",
               http=("get", "/v1/{parent=shelves/*}/books"), signature="parent"),
        method("CreateBook", p + ".CreateBookRequest", p + ".Book",
               http=("post", "/v1/{parent=shelves/*}/books"), body="book",
               signature="parent,book"),
        method("DeleteBook", p + ".DeleteBookRequest", ".google.protobuf.Empty",
               http=("delete", "/v1/{name=shelves/*/books/*}")),
        # `Import` is a reserved word once lower-cased: exercises transport_safe_name.
        method("Import", p + ".ImportRequest", ".google.longrunning.Operation",
               http=("post", "/v1/{parent=shelves/*}/books:import"), body="*",
               lro=(p[1:] + ".ListBooksResponse", p[1:] + ".ImportBooksMetadata")),
        method("StreamBooks", p + ".ListBooksRequest", p + ".Book",
               http=("get", "/v1/{parent=shelves/*}/books:stream"), sstream=True),
        method("Chat", p + ".ChatMessage", p + ".ChatMessage",
               cstream=True, sstream=True),
        method("CreateChannel", p + ".GetBookRequest", p + ".Book",
               http=("get", "/v1/{name=channels/*}")),
    )
    return [proto_file(fname, pkg, messages=msgs, services=[svc], enums=[genre])]


def library_retry_config(svc="acme.library.v1.Library"):
    return {
        "methodConfig": [
            {   # service-wide entry: never matches (the selector has a method).
                "name": [{"service": svc}],
                "timeout": "77s",
                "retryPolicy": {"retryableStatusCodes": ["INTERNAL"]},
            },
            {   # two methods, every field, fractional durations
                "name": [{"service": svc, "method": "GetBook"},
                         {"service": svc, "method": "ListBooks"}],
                "timeout": "60.5s",
                "retryPolicy": {
                    "maxAttempts": 5,
                    "initialBackoff": "0.1s",
                    "maxBackoff": "32.75s",
                    "backoffMultiplier": 1.3,
                    "retryableStatusCodes": ["UNAVAILABLE", "DEADLINE_EXCEEDED"],
                },
            },
            {   # shadowed second entry for GetBook: first match wins
                "name": [{"service": svc, "method": "GetBook"}],
                "timeout": "1s",
            },
            {   # retry policy without timeout, no backoffs, every status code
                "name": [{"service": svc, "method": "CreateBook"}],
                "retryPolicy": {"retryableStatusCodes": ALL_CODES},
            },
            {   # timeout only, in nanoseconds
                "name": [{"service": svc, "method": "Import"}],
                "timeout": "2500000000n",
            },
            {   # zero / empty values, duplicate codes, integer multiplier
                "name": [{"service": svc, "method": "StreamBooks"},
                         {"service": "other.Service", "method": "Chat"}],
                "timeout": "0s",
                "retryPolicy": {
                    "initialBackoff": "0s",
                    "maxBackoff": "250000000n",
                    "backoffMultiplier": 2,
                    "retryableStatusCodes": ["ABORTED", "ABORTED", "UNKNOWN"],
                },
            },
            {   # empty retry policy, empty timeout
                "name": [{"service": svc, "method": "CreateChannel"}],
                "timeout": "",
                "retryPolicy": {},
            },
        ]
    }


def multi_protos():
    pkg = "acme.multi.v1"
    p = "." + pkg
    msgs = [
        message("Thing", field("name", 1, F.TYPE_STRING), field("from", 2, F.TYPE_STRING)),
        message("GetThingRequest", field("name", 1, F.TYPE_STRING)),
        message("UpdateThingRequest",
                field("thing", 1, F.TYPE_MESSAGE, type_name=p + ".Thing")),
    ]

    def svc(name):
        return service(
            name, "multi.example.com",
            method("GetThing", p + ".GetThingRequest", p + ".Thing",
                   http=("get", "/v1/{name=things/*}"), signature="name"),
            method("UpdateThing", p + ".UpdateThingRequest", p + ".Thing",
                   http=("patch", "/v1/{thing.name=things/*}"), body="thing"),
            method("Upload", p + ".Thing", p + ".Thing", cstream=True),
        )

    main = proto_file("acme/multi/v1/things.proto", pkg, messages=msgs,
                      services=[svc("Things"), svc("Admin")])
    sp = ".acme.multi.v1.sub"
    sub = proto_file(
        "acme/multi/v1/sub/widgets.proto", "acme.multi.v1.sub",
        messages=[message("Widget", field("name", 1, F.TYPE_STRING)),
                  message("GetWidgetRequest", field("name", 1, F.TYPE_STRING))],
        services=[service(
            "Widgets", "multi.example.com",
            method("GetWidget", sp + ".GetWidgetRequest", sp + ".Widget",
                   http=("get", "/v1/{name=widgets/*}")),
            method("GetThing", p + ".GetThingRequest", p + ".Thing",
                   http=("get", "/v1/{name=widgetthings/*}")),
        )],
        deps=["acme/multi/v1/things.proto"],
    )
    return [main, sub]


def multi_retry_config():
    return {
        "loadBalancingPolicy": "round_robin",
        "methodConfig": [
            {
                "name": [{"service": "acme.multi.v1.Things", "method": "GetThing"},
                         {"service": "acme.multi.v1.sub.Widgets", "method": "GetWidget"}],
                "timeout": "10s",
                "retryPolicy": {
                    "initialBackoff": "1s",
                    "maxBackoff": "10s",
                    "backoffMultiplier": 1.5,
                    "retryableStatusCodes": ["UNAVAILABLE"],
                },
            },
            {
                "name": [{"service": "acme.multi.v1.Admin", "method": "UpdateThing"}],
                "timeout": "0.25s",
                "retryPolicy": {
                    "maxBackoff": "4s",
                    "retryableStatusCodes": ["RESOURCE_EXHAUSTED", "INTERNAL", "DATA_LOSS"],
                },
            },
            {
                "name": [{"service": "acme.multi.v1.Admin", "method": "Upload"},
                         {"service": "acme.multi.v1.sub.Widgets", "method": "GetThing"}],
                "timeout": "3600s",
            },
        ],
    }


MIXIN_YAML = textwrap.dedent("""\
    type: google.api.Service
    config_version: 3
    name: library.example.com
    apis:
    - name: google.cloud.location.Locations
    - name: google.longrunning.Operations
    - name: google.iam.v1.IAMPolicy
    http:
      rules:
      - selector: google.cloud.location.Locations.GetLocation
        get: '/v1/{name=projects/*/locations/*}'
      - selector: google.cloud.location.Locations.ListLocations
        get: '/v1/{name=projects/*}/locations'
      - selector: google.longrunning.Operations.GetOperation
        get: '/v1/{name=operations/*}'
      - selector: google.longrunning.Operations.CancelOperation
        post: '/v1/{name=operations/*}:cancel'
        body: '*'
      - selector: google.iam.v1.IAMPolicy.GetIamPolicy
        get: '/v1/{resource=shelves/*}:getIamPolicy'
      - selector: google.iam.v1.IAMPolicy.SetIamPolicy
        post: '/v1/{resource=shelves/*}:setIamPolicy'
        body: '*'
    publishing:
      library_settings:
      - version: acme.library.v1
        python_settings:
          experimental_features:
            rest_async_io_enabled: true
    """)


def build_cases(workdir):
    def dump(name, obj):
        path = os.path.join(workdir, name)
        with open(path, "w") as f:
            if isinstance(obj, str):
                f.write(obj)
            else:
                json.dump(obj, f)
        return path

    lib_cfg = dump("library_grpc_service_config.json", library_retry_config())
    multi_cfg = dump("multi_grpc_service_config.json", multi_retry_config())
    nomc_cfg = dump("no_method_config.json", {"loadBalancingPolicy": "pick_first"})
    empty_cfg = dump("empty_config.json", {})
    mixin_yaml = dump("library_v1.yaml", MIXIN_YAML)

    def case(name, package, protos, opts):
        fds = COMMON_DEPS + protos
        if "service-yaml" in opts:
            # mixin request/response types must be resolvable; keep the
            # dependencies-first order of the whole closure.
            from google.cloud.location import locations_pb2
            from google.iam.v1 import iam_policy_pb2
            fds = _dep_closure(*COMMON_POOL_FILES, locations_pb2.DESCRIPTOR,
                               iam_policy_pb2.DESCRIPTOR) + protos
        return {
            "name": name,
            "package": package,
            "opts": opts,
            "fds": [fd.SerializeToString(deterministic=True) for fd in fds],
        }

    return [
        case("library-grpc-retry", "acme.library.v1", library_protos(),
             f"retry-config={lib_cfg}"),
        case("library-grpc+rest-mixins-asyncrest", "acme.library.v1", library_protos(),
             f"retry-config={lib_cfg},transport=grpc+rest,rest-numeric-enums,"
             f"service-yaml={mixin_yaml},metadata"),
        case("library-rest-only-no-config", "acme.library.v1", library_protos(),
             "transport=rest,autogen-snippets=false"),
        case("multi-services-subpackage", "acme.multi.v1", multi_protos(),
             f"retry-config={multi_cfg},transport=grpc+rest,autogen-snippets=false"),
        case("multi-config-without-methodConfig", "acme.multi.v1", multi_protos(),
             f"retry-config={nomc_cfg},autogen-snippets=false"),
        case("library-empty-config-then-last-wins", "acme.library.v1", library_protos(),
             f"retry-config={empty_cfg},retry-config={multi_cfg},retry-config={lib_cfg},"
             f"python-gapic-namespace=acme,python-gapic-name=bookshop,"
             f"warehouse-package-name=acme-bookshop,autogen-snippets=false"),
        case("library-empty-config", "acme.library.v1", library_protos(),
             f"retry-config={empty_cfg},autogen-snippets=false,add-iam-methods"),
    ]


def run_worker(python, worker_path, tree, cases_path, out_path):
    env = dict(os.environ)
    env.pop("PYTHONPATH", None)
    env["PYTHONHASHSEED"] = "0"
    env["PYTHONDONTWRITEBYTECODE"] = "1"
    proc = subprocess.run(
        [python, worker_path, tree, cases_path, out_path],
        cwd=os.path.dirname(worker_path), env=env,
        stdout=subprocess.PIPE, stderr=subprocess.STDOUT, text=True,
    )
    if proc.returncode != 0:
        sys.stdout.write(proc.stdout)
        raise SystemExit(f"worker failed for tree {tree} (exit {proc.returncode})")
    with open(out_path, "rb") as f:
        return pickle.load(f)


def main(argv):
    if len(argv) != 2:
        print(__doc__)
        return 2
    checkout = os.path.realpath(argv[1])
    tmp = tempfile.mkdtemp(prefix="twin-W09-")
    try:
        pristine = os.path.join(tmp, "pristine")
        os.mkdir(pristine)
        archive = subprocess.Popen(
            ["git", "-C", checkout, "archive", "HEAD"], stdout=subprocess.PIPE)
        subprocess.check_call(["tar", "-x", "-C", pristine], stdin=archive.stdout)
        archive.stdout.close()
        if archive.wait() != 0:
            raise SystemExit("git archive failed")

        work = os.path.join(tmp, "work")
        os.mkdir(work)
        cases = build_cases(work)
        cases_path = os.path.join(work, "cases.pkl")
        with open(cases_path, "wb") as f:
            pickle.dump(cases, f)
        worker_path = os.path.join(work, "worker.py")
        with open(worker_path, "w") as f:
            f.write(WORKER)

        old = run_worker(sys.executable, worker_path, pristine, cases_path,
                         os.path.join(work, "old.pkl"))
        new = run_worker(sys.executable, worker_path, checkout, cases_path,
                         os.path.join(work, "new.pkl"))

        diffs = []
        total = 0
        retry_blocks = 0
        for c in cases:
            a, b = old[c["name"]], new[c["name"]]
            for fname in sorted(set(a) | set(b)):
                total += 1
                if fname not in a:
                    diffs.append(f"{c['name']}: only with change: {fname}")
                elif fname not in b:
                    diffs.append(f"{c['name']}: only in pristine: {fname}")
                elif a[fname] != b[fname]:
                    diffs.append(f"{c['name']}: differs: {fname}")
                if fname in b and "/transports/" in fname:
                    retry_blocks += b[fname].count("default_retry=")
        # Sanity: the inputs really exercise the code under test.
        assert retry_blocks > 20, retry_blocks
        digest = hashlib.sha256()
        for c in cases:
            for fname in sorted(new[c["name"]]):
                digest.update(fname.encode() + b"\0" + new[c["name"]][fname].encode() + b"\0")
        if diffs:
            print(f"DIFFERENT: {len(diffs)} of {total} files differ")
            for d in diffs:
                print("  " + d)
            return 1
        print(f"IDENTICAL: {len(cases)} cases, {total} files, {retry_blocks} default_retry "
              f"blocks, sha256 {digest.hexdigest()[:16]}")
        return 0
    finally:
        shutil.rmtree(tmp, ignore_errors=True)


if __name__ == "__main__":
    sys.exit(main(sys.argv))
