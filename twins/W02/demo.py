#!/usr/bin/env python
"""Output-equivalence demo for the W02 refactoring (property C02).

Usage:  /venv/bin/python demo.py <path-to-a-checkout-with-the-change>

The checkout's HEAD is exported to a temporary directory (the pristine tree);
the checkout's working tree is the changed tree.  Several API descriptions are
built in Python (protoc is not available), the generator is run on each of
them with both trees in separate subprocesses, and every output file is
compared byte for byte.
"""
import os
import pickle
import shutil
import subprocess
import sys
import tempfile


# ---------------------------------------------------------------------------
# Worker: runs inside a subprocess with exactly one tree on sys.path.
# ---------------------------------------------------------------------------
def _isolate(tree):
    """Make sure `gapic` can only be imported from ``tree``."""
    tree = os.path.realpath(tree)
    # Drop import finders of editable installs (setuptools `__editable__`
    # finders) that could provide `gapic`.
    for finder in list(sys.meta_path):
        mod = getattr(finder, "__module__", "") or ""
        name = getattr(finder, "__name__", "") or type(finder).__name__
        if "__editable__" in mod or "editable" in name.lower():
            sys.meta_path.remove(finder)
    # Drop every path entry that provides a `gapic` package.
    kept = []
    for entry in sys.path:
        real = os.path.realpath(entry or os.getcwd())
        if real == tree:
            continue
        if os.path.isdir(os.path.join(real, "gapic")):
            continue
        kept.append(entry)
    sys.path[:] = [tree] + kept
    for name in list(sys.modules):
        if name == "gapic" or name.startswith("gapic."):
            del sys.modules[name]
    sys.path_importer_cache.clear()


def worker(tree, cases_path, out_path):
    _isolate(tree)
    tree = os.path.realpath(tree)

    # pypandoc / pandoc may be missing: stub it identically for both runs.
    import types

    stub = types.ModuleType("pypandoc")

    def convert_text(text, to, format=None, extra_args=()):
        return text

    stub.convert_text = convert_text
    sys.modules["pypandoc"] = stub

    from google.protobuf import descriptor_pb2
    from gapic.schema import api as gapic_api
    from gapic.generator import generator
    from gapic.utils import Options

    with open(cases_path, "rb") as fh:
        cases = pickle.load(fh)

    results = {}
    for case in cases:
        fds = [descriptor_pb2.FileDescriptorProto.FromString(b) for b in case["files"]]
        opts = Options.build(case["opts"])
        for tdir in opts.templates:
            assert os.path.realpath(tdir).startswith(tree + os.sep), (tdir, tree)
        schema = gapic_api.API.build(fds, opts=opts, package=case["package"])
        res = generator.Generator(opts).get_response(schema, opts)
        results[case["name"]] = {f.name: f.content for f in res.file}

    loaded = 0
    for name, mod in list(sys.modules.items()):
        if name == "gapic" or name.startswith("gapic."):
            path = getattr(mod, "__file__", None)
            if path is None:
                continue
            loaded += 1
            assert os.path.realpath(path).startswith(tree + os.sep), (name, path)
    assert loaded > 10, loaded

    with open(out_path, "wb") as fh:
        pickle.dump(results, fh)


# ---------------------------------------------------------------------------
# Descriptor construction helpers.
# ---------------------------------------------------------------------------
def build_cases():
    from google.protobuf import descriptor_pb2 as d
    from google.protobuf import timestamp_pb2, duration_pb2, empty_pb2, any_pb2
    from google.protobuf import struct_pb2, field_mask_pb2, descriptor_pb2
    from google.api import annotations_pb2, client_pb2, field_behavior_pb2
    from google.api import resource_pb2, http_pb2, launch_stage_pb2
    from google.longrunning import operations_pb2
    from google.rpc import status_pb2
    from google.cloud import extended_operations_pb2 as ex_ops_pb2

    F = d.FieldDescriptorProto

    def dep(mod):
        return d.FileDescriptorProto.FromString(mod.DESCRIPTOR.serialized_pb)

    common_deps = [
        dep(m)
        for m in (
            descriptor_pb2,
            any_pb2,
            duration_pb2,
            empty_pb2,
            timestamp_pb2,
            struct_pb2,
            field_mask_pb2,
            launch_stage_pb2,
            http_pb2,
            annotations_pb2,
            client_pb2,
            field_behavior_pb2,
            resource_pb2,
            status_pb2,
            operations_pb2,
            ex_ops_pb2,
        )
    ]

    SCALARS = [
        ("f_double", F.TYPE_DOUBLE),
        ("f_float", F.TYPE_FLOAT),
        ("f_int64", F.TYPE_INT64),
        ("f_uint64", F.TYPE_UINT64),
        ("f_int32", F.TYPE_INT32),
        ("f_fixed64", F.TYPE_FIXED64),
        ("f_fixed32", F.TYPE_FIXED32),
        ("f_bool", F.TYPE_BOOL),
        ("f_string", F.TYPE_STRING),
        ("f_bytes", F.TYPE_BYTES),
        ("f_uint32", F.TYPE_UINT32),
        ("f_sfixed32", F.TYPE_SFIXED32),
        ("f_sfixed64", F.TYPE_SFIXED64),
        ("f_sint32", F.TYPE_SINT32),
        ("f_sint64", F.TYPE_SINT64),
    ]

    def field(name, number, type_, type_name=None, repeated=False, oneof=None,
              optional=False, json_name=None):
        f = F(name=name, number=number, type=type_)
        f.label = F.LABEL_REPEATED if repeated else F.LABEL_OPTIONAL
        if type_name:
            f.type_name = type_name
        if oneof is not None:
            f.oneof_index = oneof
        if optional:
            f.proto3_optional = True
        if json_name:
            f.json_name = json_name
        return f

    def message(name, fields=(), nested=(), enums=(), oneofs=()):
        m = d.DescriptorProto(name=name)
        m.field.extend(fields)
        m.nested_type.extend(nested)
        m.enum_type.extend(enums)
        for o in oneofs:
            m.oneof_decl.add(name=o)
        return m

    def enum(name, values, allow_alias=False, deprecated=False):
        e = d.EnumDescriptorProto(name=name)
        for n, v in values:
            e.value.add(name=n, number=v)
        if allow_alias:
            e.options.allow_alias = True
        if deprecated:
            e.options.deprecated = True
        return e

    def map_entry(entry_name, key_type, value_type, value_type_name=None):
        m = d.DescriptorProto(name=entry_name)
        m.field.append(field("key", 1, key_type))
        m.field.append(field("value", 2, value_type, value_type_name))
        m.options.map_entry = True
        return m

    def add_doc(fd, path, text):
        loc = fd.source_code_info.location.add()
        loc.path.extend(path)
        loc.leading_comments = text

    def method(name, inp, out, http=None, cstream=False, sstream=False,
               lro=None, signature=None):
        m = d.MethodDescriptorProto(name=name, input_type=inp, output_type=out)
        m.client_streaming = cstream
        m.server_streaming = sstream
        if http:
            verb, uri, body = http
            rule = m.options.Extensions[annotations_pb2.http]
            setattr(rule, verb, uri)
            if body:
                rule.body = body
        if lro:
            info = m.options.Extensions[operations_pb2.operation_info]
            info.response_type, info.metadata_type = lro
        if signature:
            m.options.Extensions[client_pb2.method_signature].append(signature)
        return m

    def service(name, host, methods):
        s = d.ServiceDescriptorProto(name=name)
        s.options.Extensions[client_pb2.default_host] = host
        s.method.extend(methods)
        return s

    cases = []

    # ------------------------------------------------------------------
    # Case 1: the kitchen sink. All scalar types, enums (with alias and
    # docs), nesting depth 4, oneofs, proto3 optional, maps over many key
    # types, recursion, reserved words, a field called `proto` (forces the
    # `proto` import alias), cross-file and dependency-package references,
    # a sub-package, and a service with unary / paged / LRO / streaming
    # methods over gRPC and REST.
    # ------------------------------------------------------------------
    P = "google.example.library.v1"

    common = d.FileDescriptorProto(
        name="google/example/library/v1/common.proto", package=P, syntax="proto3"
    )
    common.message_type.append(
        message(
            "Shelf",
            [
                field("name", 1, F.TYPE_STRING),
                field("theme", 2, F.TYPE_ENUM, f".{P}.Genre"),
            ],
        )
    )
    common.enum_type.append(
        enum("Genre", [("GENRE_UNSPECIFIED", 0), ("FICTION", 1), ("SCIENCE", 2)])
    )
    add_doc(common, [5, 0], "The genre of a shelf.\n")
    add_doc(common, [5, 0, 2, 1], "Made-up stories.\n")
    add_doc(common, [4, 0], "A shelf of books.\n")
    add_doc(common, [4, 0, 2, 0], "The resource name of the shelf.\n")

    lib = d.FileDescriptorProto(
        name="google/example/library/v1/library.proto", package=P, syntax="proto3"
    )
    lib.dependency.extend(
        [
            "google/example/library/v1/common.proto",
            "google/protobuf/timestamp.proto",
            "google/protobuf/duration.proto",
            "google/protobuf/empty.proto",
            "google/protobuf/struct.proto",
            "google/api/annotations.proto",
            "google/api/client.proto",
            "google/longrunning/operations.proto",
            "google/example/library/v1/sub/extras.proto",
        ]
    )

    deep = message(
        "Level1",
        [field("leaf", 1, F.TYPE_MESSAGE, f".{P}.Book.Level1.Level2.Level3")],
        nested=[
            message(
                "Level2",
                [
                    field("sibling_kind", 1, F.TYPE_ENUM, f".{P}.Book.Level1.Kind"),
                    field("up", 2, F.TYPE_MESSAGE, f".{P}.Book.Level1"),
                ],
                nested=[
                    message(
                        "Level3",
                        [
                            field("book", 1, F.TYPE_MESSAGE, f".{P}.Book"),
                            field("in", 2, F.TYPE_STRING),
                        ],
                    )
                ],
            )
        ],
        enums=[enum("Kind", [("KIND_UNSPECIFIED", 0), ("HARD", 1), ("SOFT", 1)],
                    allow_alias=True)],
    )

    book_fields = [field(n, i + 1, t) for i, (n, t) in enumerate(SCALARS)]
    book_fields += [
        field("r_" + n[2:], 20 + i, t, repeated=True)
        for i, (n, t) in enumerate(SCALARS)
    ]
    book_fields += [
        # Reserved words and module-name collisions.
        field("class", 40, F.TYPE_STRING),
        field("from", 41, F.TYPE_INT32, repeated=True),
        field("import", 42, F.TYPE_MESSAGE, f".{P}.Shelf"),
        field("proto", 43, F.TYPE_STRING),
        field("common", 44, F.TYPE_MESSAGE, f".{P}.Shelf", repeated=True),
        field("timestamp", 45, F.TYPE_MESSAGE, ".google.protobuf.Timestamp"),
        field("duration_pb2", 46, F.TYPE_MESSAGE, ".google.protobuf.Duration"),
        # Message / enum references of all shapes.
        field("genre", 50, F.TYPE_ENUM, f".{P}.Genre"),
        field("genres", 51, F.TYPE_ENUM, f".{P}.Genre", repeated=True),
        field("deep", 52, F.TYPE_MESSAGE, f".{P}.Book.Level1"),
        field("leaves", 53, F.TYPE_MESSAGE, f".{P}.Book.Level1.Level2.Level3",
              repeated=True),
        field("sequel", 54, F.TYPE_MESSAGE, f".{P}.Book"),
        field("later", 55, F.TYPE_MESSAGE, f".{P}.Zebra"),
        field("extra", 56, F.TYPE_MESSAGE, f".{P}.sub.Extra"),
        field("extra_mode", 57, F.TYPE_ENUM, f".{P}.sub.Extra.Mode"),
        field("payload", 58, F.TYPE_MESSAGE, ".google.protobuf.Struct"),
        # Oneofs: a real one with three members, one with a single member,
        # and proto3 optional fields (synthetic oneofs).
        field("isbn", 60, F.TYPE_STRING, oneof=0),
        field("ean", 61, F.TYPE_INT64, oneof=0),
        field("shelf_ref", 62, F.TYPE_MESSAGE, f".{P}.Shelf", oneof=0),
        field("only", 63, F.TYPE_ENUM, f".{P}.Book.Level1.Kind", oneof=1),
        field("maybe_title", 64, F.TYPE_STRING, oneof=2, optional=True),
        field("maybe_shelf", 65, F.TYPE_MESSAGE, f".{P}.Shelf", oneof=3,
              optional=True),
        field("maybe_genre", 66, F.TYPE_ENUM, f".{P}.Genre", oneof=4, optional=True),
        # Maps.
        field("labels", 70, F.TYPE_MESSAGE, f".{P}.Book.LabelsEntry", repeated=True),
        field("shelves_by_id", 71, F.TYPE_MESSAGE, f".{P}.Book.ShelvesByIdEntry",
              repeated=True),
        field("genre_by_flag", 72, F.TYPE_MESSAGE, f".{P}.Book.GenreByFlagEntry",
              repeated=True),
        field("stamps", 73, F.TYPE_MESSAGE, f".{P}.Book.StampsEntry", repeated=True),
        field("nested_by_fixed", 74, F.TYPE_MESSAGE,
              f".{P}.Book.NestedByFixedEntry", repeated=True),
        field("bytes_by_sint", 75, F.TYPE_MESSAGE, f".{P}.Book.BytesBySintEntry",
              repeated=True),
    ]
    book = message(
        "Book",
        book_fields,
        nested=[
            deep,
            map_entry("LabelsEntry", F.TYPE_STRING, F.TYPE_STRING),
            map_entry("ShelvesByIdEntry", F.TYPE_INT64, F.TYPE_MESSAGE, f".{P}.Shelf"),
            map_entry("GenreByFlagEntry", F.TYPE_BOOL, F.TYPE_ENUM, f".{P}.Genre"),
            map_entry("StampsEntry", F.TYPE_UINT32, F.TYPE_MESSAGE,
                      ".google.protobuf.Timestamp"),
            map_entry("NestedByFixedEntry", F.TYPE_FIXED64, F.TYPE_MESSAGE,
                      f".{P}.Book.Level1.Level2"),
            map_entry("BytesBySintEntry", F.TYPE_SINT32, F.TYPE_BYTES),
        ],
        oneofs=["identifier", "lonely", "_maybe_title", "_maybe_shelf",
                "_maybe_genre"],
    )
    lib.message_type.append(book)
    add_doc(lib, [4, 0], "A single book in the library.\n\nHas *many* fields.\n")
    add_doc(lib, [4, 0, 2, 0], "A double.\n")
    add_doc(lib, [4, 0, 2, 30], "A reserved word.\n")
    add_doc(lib, [4, 0, 3, 0, 4, 0, 2, 1], "Hard cover.\n")

    lib.message_type.extend(
        [
            message("Zebra", [field("stripes", 1, F.TYPE_INT32),
                              field("friend", 2, F.TYPE_MESSAGE, f".{P}.Book")]),
            message("Empty2"),
            message("GetBookRequest", [field("name", 1, F.TYPE_STRING)]),
            message(
                "ListBooksRequest",
                [
                    field("parent", 1, F.TYPE_STRING),
                    field("page_size", 2, F.TYPE_INT32),
                    field("page_token", 3, F.TYPE_STRING),
                ],
            ),
            message(
                "ListBooksResponse",
                [
                    field("books", 1, F.TYPE_MESSAGE, f".{P}.Book", repeated=True),
                    field("next_page_token", 2, F.TYPE_STRING),
                ],
            ),
            message("WriteBookMetadata", [field("progress", 1, F.TYPE_INT32)]),
        ]
    )
    lib.enum_type.append(
        enum("Condition", [("CONDITION_UNSPECIFIED", 0), ("NEW", 1), ("USED", 2)],
             deprecated=True)
    )
    lib.service.append(
        service(
            "Library",
            "library.example.com",
            [
                method("GetBook", f".{P}.GetBookRequest", f".{P}.Book",
                       http=("get", "/v1/{name=shelves/*/books/*}", None),
                       signature="name"),
                method("ListBooks", f".{P}.ListBooksRequest",
                       f".{P}.ListBooksResponse",
                       http=("get", "/v1/{parent=shelves/*}/books", None)),
                method("WriteBook", f".{P}.GetBookRequest",
                       ".google.longrunning.Operation",
                       http=("post", "/v1/{name=shelves/*/books/*}:write", "*"),
                       lro=("Book", "WriteBookMetadata")),
                method("WatchBooks", f".{P}.GetBookRequest", f".{P}.Book",
                       http=("get", "/v1/{name=shelves/*}:watch", None),
                       sstream=True),
                method("Chat", f".{P}.Book", f".{P}.Book", cstream=True,
                       sstream=True),
                method("DeleteBook", f".{P}.GetBookRequest",
                       ".google.protobuf.Empty",
                       http=("delete", "/v1/{name=shelves/*/books/*}", None)),
            ],
        )
    )

    extras = d.FileDescriptorProto(
        name="google/example/library/v1/sub/extras.proto",
        package=P + ".sub",
        syntax="proto3",
    )
    extras.dependency.append("google/example/library/v1/common.proto")
    extras.message_type.append(
        message(
            "Extra",
            [
                field("mode", 1, F.TYPE_ENUM, f".{P}.sub.Extra.Mode"),
                field("shelf", 2, F.TYPE_MESSAGE, f".{P}.Shelf"),
                field("more", 3, F.TYPE_MESSAGE, f".{P}.sub.Extra", repeated=True),
                field("global", 4, F.TYPE_BOOL, oneof=0),
                field("local", 5, F.TYPE_BOOL, oneof=0),
            ],
            enums=[enum("Mode", [("MODE_UNSPECIFIED", 0), ("FAST", 1)])],
            oneofs=["scope"],
        )
    )
    extras.enum_type.append(enum("Flavor", [("FLAVOR_UNSPECIFIED", 0), ("SWEET", 3)]))

    # A file with no types at all, and one with enums only.
    nothing = d.FileDescriptorProto(
        name="google/example/library/v1/nothing.proto", package=P, syntax="proto3"
    )
    enums_only = d.FileDescriptorProto(
        name="google/example/library/v1/enums_only.proto", package=P, syntax="proto3"
    )
    enums_only.enum_type.append(
        enum("Lonely", [("LONELY_UNSPECIFIED", 0), ("VERY", -1)])
    )

    files1 = common_deps + [common, extras, lib, nothing, enums_only]
    blob1 = [f.SerializeToString() for f in files1]
    cases.append(dict(name="library-grpc+rest", files=blob1, package=P, opts=""))
    cases.append(
        dict(
            name="library-rest-numeric",
            files=blob1,
            package=P,
            opts="transport=rest,rest-numeric-enums,autogen-snippets=false",
        )
    )

    # ------------------------------------------------------------------
    # Case 2: extended operations (DIREGAPIC style): messages whose status
    # field is an enum, a string, a bool and an int (every branch of the
    # `done` property), REST only.
    # ------------------------------------------------------------------
    Q = "google.cloud.tinycompute.v1"
    comp = d.FileDescriptorProto(
        name="google/cloud/tinycompute/v1/compute.proto", package=Q, syntax="proto3"
    )
    comp.dependency.extend(
        [
            "google/api/annotations.proto",
            "google/api/client.proto",
            "google/cloud/extended_operations.proto",
        ]
    )

    def op_message(name, status_type, status_type_name=None, nested_enum=None):
        fs = [
            field("name", 1, F.TYPE_STRING),
            field("status", 2, status_type, status_type_name),
            field("http_error_status_code", 3, F.TYPE_INT32),
            field("http_error_message", 4, F.TYPE_STRING),
        ]
        M = ex_ops_pb2.OperationResponseMapping
        for f, code in zip(fs, (M.NAME, M.STATUS, M.ERROR_CODE, M.ERROR_MESSAGE)):
            f.options.Extensions[ex_ops_pb2.operation_field] = code
        return message(name, fs, enums=[nested_enum] if nested_enum else [])

    comp.message_type.extend(
        [
            op_message(
                "Operation",
                F.TYPE_ENUM,
                f".{Q}.Operation.Status",
                enum("Status", [("UNDEFINED_STATUS", 0), ("DONE", 1),
                                ("RUNNING", 2)]),
            ),
            op_message("StringOperation", F.TYPE_STRING),
            op_message("BoolOperation", F.TYPE_BOOL),
            op_message("IntOperation", F.TYPE_INT32),
            message(
                "GetOperationRequest",
                [field("operation", 1, F.TYPE_STRING),
                 field("project", 2, F.TYPE_STRING)],
            ),
            message(
                "DeleteAddressRequest",
                [field("address", 1, F.TYPE_STRING),
                 field("project", 2, F.TYPE_STRING),
                 field("return", 3, F.TYPE_STRING, optional=True, oneof=0)],
                oneofs=["_return"],
            ),
        ]
    )
    get_req = comp.message_type[4]
    get_req.field[0].options.Extensions[ex_ops_pb2.operation_response_field] = "name"
    del_req = comp.message_type[5]
    del_req.field[1].options.Extensions[ex_ops_pb2.operation_request_field] = "project"

    ops_svc = service(
        "GlobalOperations",
        "tinycompute.example.com",
        [
            method("Get", f".{Q}.GetOperationRequest", f".{Q}.Operation",
                   http=("get", "/v1/projects/{project}/operations/{operation}",
                         None)),
        ],
    )
    ops_svc.method[0].options.Extensions[ex_ops_pb2.operation_polling_method] = True
    addr_svc = service(
        "Addresses",
        "tinycompute.example.com",
        [
            method("Delete", f".{Q}.DeleteAddressRequest", f".{Q}.Operation",
                   http=("delete", "/v1/projects/{project}/addresses/{address}",
                         None)),
        ],
    )
    addr_svc.method[0].options.Extensions[ex_ops_pb2.operation_service] = (
        "GlobalOperations"
    )
    comp.service.extend([ops_svc, addr_svc])
    cases.append(
        dict(
            name="tinycompute-rest",
            files=[f.SerializeToString() for f in common_deps + [comp]],
            package=Q,
            opts="transport=rest",
        )
    )

    # ------------------------------------------------------------------
    # Case 3: types only (no services, no version in the package), with a
    # dependency package that is declared proto-plus via `proto-plus-deps`
    # and one that is not; module names collide with field names and with
    # each other across packages.
    # ------------------------------------------------------------------
    R = "acme.widgets"
    depa = d.FileDescriptorProto(
        name="acme/shared/alpha/types.proto", package="acme.shared.alpha",
        syntax="proto3",
    )
    depa.message_type.append(message("Alpha", [field("id", 1, F.TYPE_STRING)]))
    depa.enum_type.append(enum("AlphaKind", [("ALPHA_KIND_UNSPECIFIED", 0)]))
    depb = d.FileDescriptorProto(
        name="acme/shared/beta_v2/types.proto", package="acme.shared.beta_v2",
        syntax="proto3",
    )
    depb.message_type.append(
        message("Beta", [field("id", 1, F.TYPE_STRING)],
                nested=[message("Inner", [field("x", 1, F.TYPE_SINT64)])])
    )
    wid = d.FileDescriptorProto(
        name="acme/widgets/widget_types.proto", package=R, syntax="proto3"
    )
    wid.dependency.extend(
        ["acme/shared/alpha/types.proto", "acme/shared/beta_v2/types.proto",
         "google/protobuf/any.proto", "google/protobuf/field_mask.proto"]
    )
    wid.message_type.extend(
        [
            message(
                "Widget",
                [
                    field("alpha", 1, F.TYPE_MESSAGE, ".acme.shared.alpha.Alpha"),
                    field("alpha_kind", 2, F.TYPE_ENUM, ".acme.shared.alpha.AlphaKind",
                          repeated=True),
                    field("beta", 3, F.TYPE_MESSAGE, ".acme.shared.beta_v2.Beta"),
                    field("inner", 4, F.TYPE_MESSAGE,
                          ".acme.shared.beta_v2.Beta.Inner", repeated=True),
                    field("types", 5, F.TYPE_STRING),
                    field("any", 6, F.TYPE_MESSAGE, ".google.protobuf.Any"),
                    field("mask", 7, F.TYPE_MESSAGE, ".google.protobuf.FieldMask",
                          oneof=0),
                    field("not", 8, F.TYPE_BOOL, oneof=0),
                    field("by_name", 9, F.TYPE_MESSAGE,
                          f".{R}.Widget.ByNameEntry", repeated=True),
                    field("part", 10, F.TYPE_MESSAGE, f".{R}.Widget.Part"),
                ],
                nested=[
                    map_entry("ByNameEntry", F.TYPE_STRING, F.TYPE_MESSAGE,
                              ".acme.shared.alpha.Alpha"),
                    message("Part", [field("whole", 1, F.TYPE_MESSAGE, f".{R}.Widget"),
                                     field("peer", 2, F.TYPE_MESSAGE,
                                           f".{R}.Widget.Part")]),
                ],
                oneofs=["choice"],
            ),
            message("_Private", [field("proto", 1, F.TYPE_INT32),
                                 field("_proto", 2, F.TYPE_INT32)]),
        ]
    )
    files3 = common_deps + [depa, depb, wid]
    cases.append(
        dict(
            name="widgets-types-only",
            files=[f.SerializeToString() for f in files3],
            package=R,
            opts="proto-plus-deps=acme.shared.alpha",
        )
    )
    cases.append(
        dict(
            name="widgets-types-only-no-deps-opt",
            files=[f.SerializeToString() for f in files3],
            package=R,
            opts="autogen-snippets=false",
        )
    )
    return cases


# ---------------------------------------------------------------------------
# Driver.
# ---------------------------------------------------------------------------
def main(argv):
    if len(argv) >= 2 and argv[1] == "--worker":
        worker(argv[2], argv[3], argv[4])
        return 0
    if len(argv) != 2:
        print(__doc__)
        return 2
    checkout = os.path.realpath(argv[1])
    tmp = tempfile.mkdtemp(prefix="twin-demo-W02-")
    try:
        pristine = os.path.join(tmp, "pristine")
        os.mkdir(pristine)
        archive = subprocess.Popen(
            ["git", "-C", checkout, "archive", "HEAD"], stdout=subprocess.PIPE
        )
        subprocess.check_call(["tar", "-x", "-C", pristine], stdin=archive.stdout)
        assert archive.wait() == 0

        cases = build_cases()
        cases_path = os.path.join(tmp, "cases.pkl")
        with open(cases_path, "wb") as fh:
            pickle.dump(cases, fh)

        outputs = {}
        env = dict(os.environ)
        env.pop("PYTHONPATH", None)
        env["PYTHONDONTWRITEBYTECODE"] = "1"
        env["PYTHONHASHSEED"] = "0"
        for label, tree in (("pristine", pristine), ("changed", checkout)):
            out_path = os.path.join(tmp, label + ".pkl")
            subprocess.check_call(
                [sys.executable, os.path.abspath(__file__), "--worker", tree,
                 cases_path, out_path],
                cwd=tmp,
                env=env,
            )
            with open(out_path, "rb") as fh:
                outputs[label] = pickle.load(fh)

        diffs = []
        total = 0
        for case in cases:
            a = outputs["pristine"][case["name"]]
            b = outputs["changed"][case["name"]]
            assert a, case["name"]
            for fn in sorted(set(a) | set(b)):
                total += 1
                if fn not in a:
                    diffs.append(f"{case['name']}: only in changed: {fn}")
                elif fn not in b:
                    diffs.append(f"{case['name']}: only in pristine: {fn}")
                elif a[fn] != b[fn]:
                    diffs.append(f"{case['name']}: differs: {fn}")
        if diffs:
            print("\n".join(diffs))
            print(f"DIFFERENT: {len(diffs)} of {total} files differ")
            return 1
        print(f"IDENTICAL: {len(cases)} APIs, {total} output files compared "
              f"byte for byte")
        return 0
    finally:
        shutil.rmtree(tmp, ignore_errors=True)


if __name__ == "__main__":
    sys.exit(main(sys.argv))
