#!/usr/bin/env python
"""Twin demo V16: behaviour-preserving refactoring of the selective GAPIC
generation code (property C16).

    /venv/bin/python demo.py <path-to-a-checkout-with-the-change>

The pristine HEAD of the checkout is exported with `git archive`; the working
tree of the checkout carries the (uncommitted) change.  A set of API
descriptions x options x service-yaml settings is generated with both trees,
each tree in its own subprocess in which only that tree can provide `gapic`.
Every output file (name and bytes), a dump of the pruned / marked schema model
and, for rejected settings, the exception text are compared.

Exit 0 + one summary line if all is identical; exit 1 + the list of
differences otherwise; exit 2 on an infrastructure problem.
"""

import json
import os
import pickle
import shutil
import subprocess
import sys
import tempfile

NAME = "V16"


# ---------------------------------------------------------------------------
# worker side
# ---------------------------------------------------------------------------
def isolate(tree):
    """Make `tree` the only possible provider of the `gapic` package."""
    tree = os.path.realpath(tree)

    def foreign_gapic(entry):
        if "__editable__" in entry:
            return True
        base = entry if entry else os.getcwd()
        try:
            if os.path.realpath(base) == tree:
                return True  # re-added below, in first position
            return os.path.isdir(os.path.join(base, "gapic"))
        except OSError:
            return False

    sys.path[:] = [tree] + [p for p in sys.path if not foreign_gapic(p)]

    def editable(obj):
        words = [type(obj).__name__, getattr(type(obj), "__module__", "")]
        for attr in ("__name__", "__qualname__", "__module__"):
            words.append(str(getattr(obj, attr, "")))
        return "editable" in " ".join(words).lower()

    sys.meta_path[:] = [f for f in sys.meta_path if not editable(f)]
    sys.path_hooks[:] = [h for h in sys.path_hooks if not editable(h)]
    sys.path_importer_cache.clear()
    for mod in [m for m in sys.modules if m == "gapic" or m.startswith("gapic.")]:
        del sys.modules[mod]


def worker(tree, cases_file, result_file):
    sys.dont_write_bytecode = True
    isolate(tree)
    root = os.path.realpath(tree) + os.sep

    import pypandoc

    def convert_text(text, to, format=None, extra_args=(), **kwargs):
        # No pandoc here: the same trivial stand-in for both trees.
        return "\n".join(line.rstrip() for line in str(text).splitlines())

    pypandoc.convert_text = convert_text

    import gapic
    from google.protobuf import descriptor_pb2
    from gapic.generator import Generator
    from gapic.schema import api as api_module
    from gapic.utils import Options

    def assert_tree(generator=None):
        for entry in list(gapic.__path__):
            assert os.path.realpath(entry).startswith(root), ("gapic.__path__", entry)
        count = 0
        for mod_name, mod in list(sys.modules.items()):
            if mod_name != "gapic" and not mod_name.startswith("gapic."):
                continue
            mod_file = getattr(mod, "__file__", None)
            if mod_file:
                count += 1
                assert os.path.realpath(mod_file).startswith(root), (mod_name, mod_file)
            for entry in list(getattr(mod, "__path__", [])):
                assert os.path.realpath(entry).startswith(root), (mod_name, entry)
        assert count >= 10, count
        if generator is not None:
            searchpath = list(generator._env.loader.searchpath)
            assert searchpath
            for entry in searchpath:
                assert os.path.realpath(entry).startswith(
                    root + "gapic" + os.sep
                ), ("template dir", entry)

    assert_tree()

    def model_dump(api_schema):
        out = []
        for proto_name, proto in api_schema.all_protos.items():
            out.append("proto %s to_generate=%s" % (proto_name, proto.file_to_generate))
            for key, svc in proto.services.items():
                out.append(
                    "  service %s client=%s async=%s internal=%s"
                    % (key, svc.client_name, svc.async_client_name, svc.is_internal)
                )
                for mkey, meth in svc.methods.items():
                    out.append(
                        "    rpc %s name=%s safe=%s internal=%s"
                        % (mkey, meth.client_method_name, meth.transport_safe_name,
                           meth.is_internal)
                    )
            out.extend("  message %s" % k for k in proto.all_messages)
            out.extend("  enum %s" % k for k in proto.all_enums)
        return "\n".join(out).encode()

    with open(cases_file, "rb") as fh:
        cases = pickle.load(fh)

    results = {}
    for case in cases:
        files = [descriptor_pb2.FileDescriptorProto.FromString(b) for b in case["files"]]
        try:
            opts = Options.build(case["opts"])
            api_schema = api_module.API.build(files, opts=opts, package=case["package"])
            generator = Generator(opts)
            assert_tree(generator)
            response = generator.get_response(api_schema, opts)
            produced = {}
            for f in response.file:
                assert f.name not in produced, f.name
                produced[f.name] = f.content.encode("utf-8")
            produced["<model>"] = model_dump(api_schema)
            results[case["id"]] = ("ok", produced)
        except AssertionError:
            raise
        except Exception as exc:  # the way it fails is compared, too
            if not case["expect_error"]:
                import traceback

                traceback.print_exc()
            text = "%s: %s" % (type(exc).__name__, exc)
            results[case["id"]] = ("error", {"<exception>": text.encode()})

    assert_tree()
    with open(result_file, "wb") as fh:
        pickle.dump(results, fh)


# ---------------------------------------------------------------------------
# API descriptions (parent process; gapic is not imported here)
# ---------------------------------------------------------------------------
def make_cases(scratch):
    from google.api import annotations_pb2, client_pb2, field_behavior_pb2, resource_pb2
    from google.cloud import extended_operations_pb2 as ex_ops_pb2
    from google.longrunning import operations_pb2
    from google.protobuf import descriptor_pb2 as pb
    from google.protobuf import descriptor_pool
    from google.protobuf import duration_pb2, empty_pb2, field_mask_pb2  # noqa: F401

    F = pb.FieldDescriptorProto
    pool = descriptor_pool.Default()

    def with_deps(*names):
        seen, ordered = set(), []

        def visit(name):
            if name in seen:
                return
            seen.add(name)
            fd = pool.FindFileByName(name)
            for dep in fd.dependencies:
                visit(dep.name)
            proto = pb.FileDescriptorProto()
            fd.CopyToProto(proto)
            ordered.append(proto)

        for name in names:
            visit(name)
        return ordered

    def fld(name, number, kind="string", ref=None, repeated=False, oneof=None,
            resource=None, child=None, required=False, op=None, op_req=None,
            op_resp=None):
        f = F(name=name, number=number,
              label=F.LABEL_REPEATED if repeated else F.LABEL_OPTIONAL)
        if ref and kind == "string":
            kind = "message"
        f.type = getattr(F, "TYPE_" + kind.upper())
        if ref:
            f.type_name = ref
        parts = name.split("_")
        f.json_name = parts[0] + "".join(p.capitalize() for p in parts[1:])
        if oneof is not None:
            f.oneof_index = oneof
        if resource:
            f.options.Extensions[resource_pb2.resource_reference].type = resource
        if child:
            f.options.Extensions[resource_pb2.resource_reference].child_type = child
        if required:
            f.options.Extensions[field_behavior_pb2.field_behavior].append(
                field_behavior_pb2.REQUIRED)
        if op is not None:
            f.options.Extensions[ex_ops_pb2.operation_field] = op
        if op_req:
            f.options.Extensions[ex_ops_pb2.operation_request_field] = op_req
        if op_resp:
            f.options.Extensions[ex_ops_pb2.operation_response_field] = op_resp
        return f

    def msg(name, *fields, nested=(), enums=(), oneofs=(), resource=None):
        m = pb.DescriptorProto(name=name, field=list(fields),
                               nested_type=list(nested), enum_type=list(enums))
        for o in oneofs:
            m.oneof_decl.add(name=o)
        if resource:
            res = m.options.Extensions[resource_pb2.resource]
            res.type = resource[0]
            res.pattern.extend(resource[1:])
        return m

    def entry(name, value_kind="string", value_ref=None):
        m = msg(name, fld("key", 1), fld("value", 2, value_kind, value_ref))
        m.options.map_entry = True
        return m

    def enum(name, *values):
        return pb.EnumDescriptorProto(
            name=name,
            value=[pb.EnumValueDescriptorProto(name=v, number=i)
                   for i, v in enumerate(values)])

    def rpc(name, request, response, http=None, body=None, sig=None,
            cstream=False, sstream=False, lro=None, op_service=None, polling=False):
        m = pb.MethodDescriptorProto(name=name, input_type=request,
                                     output_type=response,
                                     client_streaming=cstream,
                                     server_streaming=sstream)
        if http:
            rule = m.options.Extensions[annotations_pb2.http]
            setattr(rule, http[0], http[1])
            if body:
                rule.body = body
        if sig is not None:
            m.options.Extensions[client_pb2.method_signature].append(sig)
        if lro:
            info = m.options.Extensions[operations_pb2.operation_info]
            info.response_type, info.metadata_type = lro
        if op_service:
            m.options.Extensions[ex_ops_pb2.operation_service] = op_service
        if polling:
            m.options.Extensions[ex_ops_pb2.operation_polling_method] = True
        return m

    def svc(name, host, *methods):
        s = pb.ServiceDescriptorProto(name=name, method=list(methods))
        if host:
            s.options.Extensions[client_pb2.default_host] = host
            s.options.Extensions[client_pb2.oauth_scopes] = (
                "https://www.googleapis.com/auth/cloud-platform")
        return s

    def proto_file(name, package, deps=(), messages=(), enums=(), services=(),
                   resources=()):
        f = pb.FileDescriptorProto(name=name, package=package, syntax="proto3",
                                   dependency=list(deps),
                                   message_type=list(messages),
                                   enum_type=list(enums), service=list(services))
        for rtype, pattern in resources:
            f.options.Extensions[resource_pb2.resource_definition].add(
                type=rtype, pattern=[pattern])
        for i, m in enumerate(f.message_type):
            f.source_code_info.location.add(
                path=[4, i], leading_comments=" Describes a %s.\n" % m.name)
        for i, s in enumerate(f.service):
            f.source_code_info.location.add(
                path=[6, i], leading_comments=" The %s API.\n" % s.name)
            for j, meth in enumerate(s.method):
                f.source_code_info.location.add(
                    path=[6, i, 2, j],
                    leading_comments=" Performs %s.\n" % meth.name)
        return f

    # ----------------------------------------------------------------- bookshop
    # gRPC + REST; resources, maps, oneofs, nested + recursive types, paging,
    # LRO, streaming, reserved-word RPC names, two services in one file, a
    # second file of the package, a sub-package and another version.
    BP = "shop.books.v1"
    BQ = "." + BP
    RT = "books.example.com/"
    types = proto_file(
        "shop/books/v1/types.proto", BP,
        deps=["google/api/resource.proto", "google/api/field_behavior.proto",
              "google/protobuf/duration.proto"],
        resources=[(RT + "Region", "regions/{region}")],
        enums=[enum("Genre", "GENRE_UNSPECIFIED", "FICTION", "POETRY"),
               enum("Orphan", "ORPHAN_UNSPECIFIED", "ALONE")],
        messages=[
            msg("Book",
                fld("name", 1),
                fld("title", 2, required=True),
                fld("genre", 3, "enum", BQ + ".Genre"),
                fld("binding", 4, "enum", BQ + ".Book.Binding"),
                fld("chapters", 5, ref=BQ + ".Book.Chapter", repeated=True),
                fld("labels", 6, ref=BQ + ".Book.LabelsEntry", repeated=True),
                fld("reviews", 7, ref=BQ + ".Book.ReviewsEntry", repeated=True),
                fld("isbn", 8, oneof=0),
                fld("legacy_code", 9, "int64", oneof=0),
                fld("sequel", 10, ref=BQ + ".Book"),
                fld("author", 11, resource=RT + "Author"),
                fld("loan_period", 12, ref=".google.protobuf.Duration"),
                fld("from", 13),
                fld("region", 14, resource=RT + "Region"),
                fld("whatever", 15, resource="*"),
                fld("foreign", 16, child="elsewhere.example.com/Thing"),
                nested=[msg("Chapter", fld("heading", 1),
                            fld("sections", 2, ref=BQ + ".Book.Chapter", repeated=True)),
                        entry("LabelsEntry"),
                        entry("ReviewsEntry", "message", BQ + ".Review")],
                enums=[enum("Binding", "BINDING_UNSPECIFIED", "HARD", "SOFT")],
                oneofs=["identifier"],
                resource=(RT + "Book", "shelves/{shelf}/books/{book}")),
            msg("Review", fld("text", 1), fld("book", 2, ref=BQ + ".Book")),
            msg("Author", fld("name", 1), fld("publisher", 2, resource=RT + "Publisher"),
                resource=(RT + "Author", "authors/{author}")),
            msg("Publisher", fld("name", 1), fld("bestseller", 2, child=RT + "Book"),
                resource=(RT + "Publisher", "publishers/{publisher}")),
            msg("Shelf", fld("name", 1), fld("theme", 2, "enum", BQ + ".Genre"),
                resource=(RT + "Shelf", "shelves/{shelf}")),
            msg("Dusty", fld("orphan", 1, "enum", BQ + ".Orphan")),
        ])
    side = proto_file(
        "shop/books/v1/side.proto", BP,
        deps=["shop/books/v1/types.proto"],
        enums=[enum("Season", "SEASON_UNSPECIFIED", "WINTER")],
        messages=[msg("Schedule", fld("season", 1, "enum", BQ + ".Season"),
                      fld("shelf", 2, ref=BQ + ".Shelf"))])
    shop = proto_file(
        "shop/books/v1/shop.proto", BP,
        deps=["google/api/annotations.proto", "google/api/client.proto",
              "google/api/resource.proto", "google/api/field_behavior.proto",
              "google/longrunning/operations.proto", "google/protobuf/empty.proto",
              "google/protobuf/field_mask.proto",
              "shop/books/v1/types.proto", "shop/books/v1/side.proto"],
        messages=[
            msg("GetBookRequest", fld("name", 1, resource=RT + "Book", required=True)),
            msg("ListBooksRequest", fld("parent", 1, child=RT + "Book"),
                fld("page_size", 2, "int32"), fld("page_token", 3)),
            msg("ListBooksResponse", fld("books", 1, ref=BQ + ".Book", repeated=True),
                fld("next_page_token", 2)),
            msg("UpdateBookRequest", fld("book", 1, ref=BQ + ".Book"),
                fld("update_mask", 2, ref=".google.protobuf.FieldMask")),
            msg("DeleteBookRequest", fld("name", 1, resource=RT + "Book")),
            msg("WatchRequest", fld("filter", 1)),
            msg("ImportRequest", fld("uri", 1), fld("shelf", 2, resource=RT + "Shelf")),
            msg("ImportResult", fld("imported", 1, "int64")),
            msg("ImportProgress", fld("stage", 1, ref=BQ + ".ImportProgress.Stage"),
                nested=[msg("Stage", fld("percent", 1, "int32"))]),
            msg("ReturnRequest", fld("name", 1, resource=RT + "Book")),
            msg("ReturnResponse", fld("late", 1, "bool")),
            msg("AwaitRequest", fld("region", 1, resource=RT + "Region")),
            msg("CreateShelfRequest", fld("shelf", 1, ref=BQ + ".Shelf")),
            msg("GetScheduleRequest", fld("shelf", 1, resource=RT + "Shelf")),
        ],
        services=[
            svc("Catalog", "books.example.com",
                rpc("GetBook", BQ + ".GetBookRequest", BQ + ".Book",
                    http=("get", "/v1/{name=shelves/*/books/*}"), sig="name"),
                rpc("ListBooks", BQ + ".ListBooksRequest", BQ + ".ListBooksResponse",
                    http=("get", "/v1/{parent=shelves/*}/books"), sig="parent"),
                rpc("UpdateBook", BQ + ".UpdateBookRequest", BQ + ".Book",
                    http=("patch", "/v1/{book.name=shelves/*/books/*}"), body="book",
                    sig="book,update_mask"),
                rpc("DeleteBook", BQ + ".DeleteBookRequest", ".google.protobuf.Empty",
                    http=("delete", "/v1/{name=shelves/*/books/*}")),
                rpc("Watch", BQ + ".WatchRequest", BQ + ".Book",
                    http=("get", "/v1/books:watch"), sstream=True),
                # keywords once lower-cased: client_method_name appends "_"
                rpc("Import", BQ + ".ImportRequest", ".google.longrunning.Operation",
                    http=("post", "/v1/books:import"), body="*",
                    lro=("ImportResult", "ImportProgress")),
                rpc("Return", BQ + ".ReturnRequest", BQ + ".ReturnResponse",
                    http=("post", "/v1/{name=shelves/*/books/*}:return"), body="*",
                    sig="name"),
                rpc("Await", BQ + ".AwaitRequest", ".google.protobuf.Empty",
                    http=("post", "/v1/await"), body="*"),
                # soft keyword: not in keyword.kwlist, must stay as it is
                rpc("Match", BQ + ".WatchRequest", BQ + ".ListBooksResponse",
                    http=("get", "/v1/books:match"))),
            svc("Shelves", "books.example.com",
                rpc("CreateShelf", BQ + ".CreateShelfRequest", BQ + ".Shelf",
                    http=("post", "/v1/shelves"), body="shelf", sig="shelf"),
                rpc("GetSchedule", BQ + ".GetScheduleRequest", BQ + ".Schedule",
                    http=("get", "/v1/{shelf=shelves/*}/schedule"))),
        ])
    staff = proto_file(
        "shop/books/v1/staff/staff.proto", BP + ".staff",
        deps=["google/api/annotations.proto", "google/api/client.proto",
              "shop/books/v1/types.proto"],
        enums=[enum("Rank", "RANK_UNSPECIFIED", "CLERK", "MANAGER")],
        messages=[msg("HireRequest", fld("who", 1),
                      fld("rank", 2, "enum", BQ + ".staff.Rank")),
                  msg("HireResponse", fld("sponsor", 1, ref=BQ + ".Publisher")),
                  msg("Memo", fld("text", 1))],
        services=[svc("Staff", "books.example.com",
                      rpc("Hire", BQ + ".staff.HireRequest", BQ + ".staff.HireResponse",
                          http=("post", "/v1/staff:hire"), body="*"),
                      rpc("Chat", BQ + ".staff.Memo", BQ + ".staff.Memo",
                          cstream=True, sstream=True))])
    v2 = proto_file(
        "shop/books/v2/shop.proto", "shop.books.v2",
        deps=["google/api/client.proto"],
        messages=[msg("EchoRequest"), msg("EchoResponse")],
        services=[svc("Echoer", "books.example.com",
                      rpc("Echo", ".shop.books.v2.EchoRequest",
                          ".shop.books.v2.EchoResponse"))])
    book_deps = with_deps(
        "google/api/annotations.proto", "google/api/client.proto",
        "google/api/resource.proto", "google/api/field_behavior.proto",
        "google/longrunning/operations.proto", "google/protobuf/empty.proto",
        "google/protobuf/field_mask.proto", "google/protobuf/duration.proto")
    books = book_deps + [types, side, shop]
    books_sub = books + [staff]

    # -------------------------------------------------------------------- yard
    # REST only, extended operations with two operation services in the file.
    YP = "rail.yard.v1"
    YQ = "." + YP
    yard = proto_file(
        "rail/yard/v1/yard.proto", YP,
        deps=["google/api/annotations.proto", "google/api/client.proto",
              "google/api/field_behavior.proto",
              "google/cloud/extended_operations.proto"],
        messages=[
            msg("Operation",
                fld("name", 1, op=ex_ops_pb2.NAME),
                fld("status", 2, "enum", YQ + ".Operation.Status", op=ex_ops_pb2.STATUS),
                fld("http_error_status_code", 3, "int32", op=ex_ops_pb2.ERROR_CODE),
                fld("http_error_message", 4, op=ex_ops_pb2.ERROR_MESSAGE),
                fld("notices", 5, ref=YQ + ".Notice", repeated=True),
                enums=[enum("Status", "UNDEFINED_STATUS", "DONE", "PENDING", "RUNNING")]),
            msg("Notice", fld("code", 1), fld("text", 2)),
            msg("Wagon", fld("name", 1), fld("axles", 2, ref=YQ + ".Axle", repeated=True)),
            msg("Axle", fld("maker", 1), fld("gauge", 2, "enum", YQ + ".Axle.Gauge"),
                enums=[enum("Gauge", "UNDEFINED_GAUGE", "NARROW", "STANDARD")]),
            msg("Siding", fld("label", 1), fld("district", 2)),
            msg("InsertWagonRequest",
                fld("project", 1, required=True, op_req="project"),
                fld("zone", 2, required=True, op_req="zone"),
                fld("wagon_resource", 3, ref=YQ + ".Wagon", required=True)),
            msg("GetWagonRequest", fld("project", 1), fld("zone", 2), fld("wagon", 3)),
            msg("ListWagonsRequest", fld("project", 1), fld("zone", 2),
                fld("max_results", 3, "uint32"), fld("page_token", 4)),
            msg("WagonList", fld("items", 1, ref=YQ + ".Wagon", repeated=True),
                fld("next_page_token", 2)),
            msg("InsertSidingRequest",
                fld("project", 1, required=True, op_req="project"),
                fld("district", 2, required=True, op_req="district"),
                fld("siding_resource", 3, ref=YQ + ".Siding", required=True)),
            msg("GetZoneOperationRequest",
                fld("operation", 1, required=True, op_resp="name"),
                fld("project", 2, required=True), fld("zone", 3, required=True)),
            msg("DeleteZoneOperationRequest", fld("operation", 1), fld("project", 2),
                fld("zone", 3)),
            msg("DeleteZoneOperationResponse"),
            msg("GetDistrictOperationRequest",
                fld("operation", 1, required=True, op_resp="name"),
                fld("project", 2, required=True), fld("district", 3, required=True)),
            msg("WaitDistrictOperationRequest", fld("operation", 1), fld("project", 2),
                fld("district", 3)),
        ],
        services=[
            svc("Wagons", "yard.example.com",
                rpc("Insert", YQ + ".InsertWagonRequest", YQ + ".Operation",
                    http=("post", "/yard/v1/projects/{project}/zones/{zone}/wagons"),
                    body="wagon_resource", sig="project,zone,wagon_resource",
                    op_service="ZoneOperations"),
                rpc("Get", YQ + ".GetWagonRequest", YQ + ".Wagon",
                    http=("get", "/yard/v1/projects/{project}/zones/{zone}/wagons/{wagon}"),
                    sig="project,zone,wagon"),
                rpc("List", YQ + ".ListWagonsRequest", YQ + ".WagonList",
                    http=("get", "/yard/v1/projects/{project}/zones/{zone}/wagons"),
                    sig="project,zone")),
            svc("Sidings", "yard.example.com",
                rpc("Insert", YQ + ".InsertSidingRequest", YQ + ".Operation",
                    http=("post", "/yard/v1/projects/{project}/districts/{district}/sidings"),
                    body="siding_resource", sig="project,district,siding_resource",
                    op_service="DistrictOperations")),
            svc("ZoneOperations", "yard.example.com",
                rpc("Get", YQ + ".GetZoneOperationRequest", YQ + ".Operation",
                    http=("get", "/yard/v1/projects/{project}/zones/{zone}/operations/{operation}"),
                    sig="project,zone,operation", polling=True),
                rpc("Delete", YQ + ".DeleteZoneOperationRequest",
                    YQ + ".DeleteZoneOperationResponse",
                    http=("delete", "/yard/v1/projects/{project}/zones/{zone}/operations/{operation}"))),
            svc("DistrictOperations", "yard.example.com",
                rpc("Get", YQ + ".GetDistrictOperationRequest", YQ + ".Operation",
                    http=("get", "/yard/v1/projects/{project}/districts/{district}/operations/{operation}"),
                    sig="project,district,operation", polling=True),
                rpc("Wait", YQ + ".WaitDistrictOperationRequest", YQ + ".Operation",
                    http=("post", "/yard/v1/projects/{project}/districts/{district}/operations/{operation}/wait"))),
        ])
    yard_files = with_deps(
        "google/api/annotations.proto", "google/api/client.proto",
        "google/api/field_behavior.proto",
        "google/cloud/extended_operations.proto") + [yard]

    # ------------------------------------------------------------------- plain
    # No annotations at all, mutually recursive messages, keyword RPC names,
    # all streaming kinds and a service without methods.
    PP = "plain.v1alpha"
    PQ = "." + PP
    plain = pb.FileDescriptorProto(
        name="plain/v1alpha/plain.proto", package=PP, syntax="proto3",
        message_type=[
            msg("Ping", fld("pong", 1, ref=PQ + ".Ping.Pong"),
                nested=[msg("Pong", fld("ping", 1, ref=PQ + ".Ping"))]),
            msg("Ack"), msg("Stray")],
        enum_type=[enum("Shade", "SHADE_UNSPECIFIED", "DARK")],
        service=[
            svc("Plain", None,
                rpc("Send", PQ + ".Ping", PQ + ".Ack"),
                rpc("Global", PQ + ".Ack", PQ + ".Ping"),
                rpc("Yield", PQ + ".Ping", PQ + ".Ping", cstream=True),
                rpc("Del", PQ + ".Ack", PQ + ".Ack", sstream=True),
                rpc("Pass", PQ + ".Ack", PQ + ".Ack", cstream=True, sstream=True)),
            svc("Vacant", None)])
    plain_files = [plain]

    # ------------------------------------------------------------ service yaml
    counter = [0]

    def yaml_file(host, library_settings, apis=()):
        counter[0] += 1
        path = os.path.join(scratch, "svc%02d.yaml" % counter[0])
        config = {"type": "google.api.Service", "config_version": 3, "name": host,
                  "publishing": {"library_settings": library_settings}}
        if apis:
            config["apis"] = [{"name": a} for a in apis]
        with open(path, "w") as fh:
            json.dump(config, fh, indent=1, sort_keys=True)  # JSON is YAML
        return path

    def sel(version, methods, internal=None):
        block = {"methods": list(methods)}
        if internal is not None:
            block["generate_omitted_as_internal"] = internal
        return {"version": version,
                "python_settings": {"common": {"selective_gapic_generation": block}}}

    cases = []

    def case(cid, files, package, opts="", yaml=None, expect_error=False):
        if yaml:
            opts = (opts + "," if opts else "") + "service-yaml=" + yaml
        cases.append({"id": cid, "package": package, "opts": opts,
                      "expect_error": expect_error,
                      "files": [f.SerializeToString(deterministic=True) for f in files]})

    BH = "books.example.com"
    C = BP + ".Catalog."
    S = BP + ".Shelves."
    ALL_BOOK_RPCS = [C + n for n in ("GetBook", "ListBooks", "UpdateBook", "DeleteBook",
                                     "Watch", "Import", "Return", "Await", "Match")] + [
        S + "CreateShelf", S + "GetSchedule"]

    # not selective / settings that do not concern the generated package
    case("books-full", books, BP)
    case("books-sub-full-rest", books_sub, BP,
         "autogen-snippets=false,transport=rest,rest-numeric-enums")
    case("books-settings-of-other-version-only", books + [v2], BP, "transport=grpc",
         yaml_file(BH, [sel("shop.books.v2", [], True)]))
    case("books-empty-list", books, BP, "autogen-snippets=false",
         yaml_file(BH, [sel(BP, [], True)]))
    case("books-no-selective-block", books, BP, "autogen-snippets=false,transport=grpc",
         yaml_file(BH, [{"version": BP}]))
    # omit mode
    case("books-omit-get", books, BP, "", yaml_file(BH, [sel(BP, [C + "GetBook"])]))
    case("books-omit-lro-paged-rest", books, BP, "transport=rest,rest-numeric-enums",
         yaml_file(BH, [sel(BP, [C + "Import", C + "ListBooks"], False)],
                   apis=["google.longrunning.Operations"]))
    case("books-omit-keywords-stream", books, BP,
         "transport=grpc+rest,autogen-snippets=false",
         yaml_file(BH, [sel(BP, [C + "Return", C + "Await", C + "Match", C + "Watch",
                                 C + "DeleteBook"])]))
    case("books-omit-await-only", books, BP, "",
         yaml_file(BH, [sel(BP, [C + "Await"])]))
    case("books-omit-shelves-with-metadata", books, BP, "metadata",
         yaml_file(BH, [sel(BP, [S + "CreateShelf"])]))
    case("books-omit-schedule-keeps-side-file", books, BP, "transport=grpc",
         yaml_file(BH, [sel(BP, [S + "GetSchedule", S + "GetSchedule"])]))
    case("books-omit-update-plus-other-version-entry", books + [v2], BP,
         "autogen-snippets=false",
         yaml_file(BH, [sel("shop.books.v2", []), sel(BP, [C + "UpdateBook"])]))
    case("books-omit-subpackage-only", books_sub, BP, "autogen-snippets=false",
         yaml_file(BH, [sel(BP, [BP + ".staff.Staff.Hire"])]))
    case("books-omit-all-listed", books, BP, "", yaml_file(BH, [sel(BP, ALL_BOOK_RPCS)]))
    # internal mode
    case("books-internal-get", books, BP, "",
         yaml_file(BH, [sel(BP, [C + "GetBook"], True)]))
    case("books-internal-keywords-private-rest", books, BP, "transport=rest",
         yaml_file(BH, [sel(BP, [C + "ListBooks", S + "CreateShelf", S + "GetSchedule"],
                            True)]))
    case("books-internal-keywords-public", books, BP,
         "autogen-snippets=false,rest-numeric-enums",
         yaml_file(BH, [sel(BP, [C + "Import", C + "Return", C + "Await"], True)]))
    case("books-internal-all-public", books, BP, "autogen-snippets=false",
         yaml_file(BH, [sel(BP, ALL_BOOK_RPCS, True)]))
    case("books-internal-subpackage-only", books_sub, BP, "autogen-snippets=false",
         yaml_file(BH, [sel(BP, [BP + ".staff.Staff.Chat"], True)]))
    # rejected settings
    case("books-reject-unknown", books, BP, "",
         yaml_file(BH, [sel(BP, [C + "GetBook", C + "Nothing", C + "Nothing"])]),
         expect_error=True)
    case("books-reject-mismatch-and-unknown", books_sub + [v2], BP, "",
         yaml_file(BH, [sel(BP + ".staff", [C + "GetBook", BP + ".staff.Staff.Hire",
                                            BP + ".staff.Staff.Gone"]),
                        sel("shop.books.v2", ["shop.books.v2.Echoer.Echo"]),
                        sel(BP, ["shop.books.v2.Echoer.Echo", "nowhere.Nothing"], True)]),
         expect_error=True)
    case("books-reject-duplicate-version", books, BP, "",
         yaml_file(BH, [sel(BP, [C + "GetBook"]), sel(BP, [C + "Nope"]),
                        sel("x.v9", ["x.v9.A.B"])]),
         expect_error=True)

    YH = "yard.example.com"
    W = YP + ".Wagons."
    case("yard-full", yard_files, YP, "transport=rest")
    case("yard-omit-insert-pulls-polling", yard_files, YP, "transport=rest",
         yaml_file(YH, [sel(YP, [W + "Insert"])]))
    case("yard-omit-get-list", yard_files, YP,
         "transport=rest,rest-numeric-enums,autogen-snippets=false",
         yaml_file(YH, [sel(YP, [W + "Get", W + "List"])]))
    case("yard-omit-siding-and-wait", yard_files, YP, "transport=rest",
         yaml_file(YH, [sel(YP, [YP + ".Sidings.Insert",
                                 YP + ".DistrictOperations.Wait"])]))
    case("yard-omit-both-inserts", yard_files, YP, "transport=rest,autogen-snippets=false",
         yaml_file(YH, [sel(YP, [YP + ".Sidings.Insert", W + "Insert"])]))
    case("yard-internal-insert", yard_files, YP, "transport=rest",
         yaml_file(YH, [sel(YP, [W + "Insert", YP + ".ZoneOperations.Get"], True)]))

    PH = "plain.example.com"
    B = PP + ".Plain."
    case("plain-full", plain_files, PP, "transport=grpc")
    case("plain-omit-send", plain_files, PP, "", yaml_file(PH, [sel(PP, [B + "Send"])]))
    case("plain-omit-keywords", plain_files, PP, "autogen-snippets=false",
         yaml_file(PH, [sel(PP, [B + "Global", B + "Del", B + "Pass"])]))
    case("plain-internal-yield-public", plain_files, PP, "transport=grpc+rest",
         yaml_file(PH, [sel(PP, [B + "Yield"], True)]))
    case("plain-internal-keywords-private", plain_files, PP, "autogen-snippets=false",
         yaml_file(PH, [sel(PP, [B + "Send"], True)]))
    return cases


# ---------------------------------------------------------------------------
# driver
# ---------------------------------------------------------------------------
def main(argv):
    if len(argv) == 5 and argv[1] == "--worker":
        worker(argv[2], argv[3], argv[4])
        return 0
    if len(argv) != 2:
        print("usage: demo.py <path-to-a-checkout-with-the-change>")
        return 2

    checkout = os.path.abspath(argv[1])
    scratch = tempfile.mkdtemp(prefix="twin-%s-demo-" % NAME)
    try:
        pristine = os.path.join(scratch, "pristine")
        os.mkdir(pristine)
        archive = subprocess.Popen(["git", "-C", checkout, "archive", "HEAD"],
                                   stdout=subprocess.PIPE)
        untar = subprocess.call(["tar", "-x", "-C", pristine], stdin=archive.stdout)
        archive.stdout.close()
        if archive.wait() != 0 or untar != 0:
            print("could not export HEAD of %s" % checkout)
            return 2

        cases = make_cases(scratch)
        cases_file = os.path.join(scratch, "cases.pkl")
        with open(cases_file, "wb") as fh:
            pickle.dump(cases, fh)

        env = dict(os.environ, PYTHONDONTWRITEBYTECODE="1", PYTHONHASHSEED="0")
        env.pop("PYTHONPATH", None)
        cwd = os.path.join(scratch, "cwd")
        os.mkdir(cwd)
        running = []
        for label, tree in (("pristine", pristine), ("changed", checkout)):
            result_file = os.path.join(scratch, label + ".pkl")
            proc = subprocess.Popen(
                [sys.executable, os.path.abspath(__file__), "--worker", tree,
                 cases_file, result_file],
                cwd=cwd, env=env, stdout=subprocess.PIPE, stderr=subprocess.STDOUT)
            running.append((label, proc, result_file))
        results = {}
        for label, proc, result_file in running:
            log, _ = proc.communicate(timeout=600)
            if proc.returncode != 0:
                print("worker (%s tree) failed:\n%s" % (label, log.decode("utf-8", "replace")))
                return 2
            if log.strip():
                print("[%s worker]\n%s" % (label, log.decode("utf-8", "replace")))
            with open(result_file, "rb") as fh:
                results[label] = pickle.load(fh)

        problems = []
        compared = rejected = 0
        for c in cases:
            cid = c["id"]
            status_a, files_a = results["pristine"][cid]
            status_b, files_b = results["changed"][cid]
            wanted = "error" if c["expect_error"] else "ok"
            if status_a != wanted:
                problems.append("%s: pristine tree ended with %r instead of %r: %s" % (
                    cid, status_a, wanted, files_a.get("<exception>", b"")[:300]))
            if status_a != status_b:
                problems.append("%s: status %s (pristine) vs %s (changed)" % (
                    cid, status_a, status_b))
            rejected += status_a == "error"
            for fname in sorted(set(files_a) | set(files_b)):
                compared += 1
                if fname not in files_b:
                    problems.append("%s: %s missing from the changed tree" % (cid, fname))
                elif fname not in files_a:
                    problems.append("%s: %s only in the changed tree" % (cid, fname))
                elif files_a[fname] != files_b[fname]:
                    problems.append("%s: %s differs" % (cid, fname))

        if problems:
            print("DIFFERENT: %d problem(s)" % len(problems))
            for p in problems:
                print("  " + p)
            return 1
        print("IDENTICAL: %d cases (%d rejected with identical errors), "
              "%d outputs compared byte for byte" % (len(cases), rejected, compared))
        return 0
    finally:
        shutil.rmtree(scratch, ignore_errors=True)


if __name__ == "__main__":
    sys.exit(main(sys.argv))
