#!/usr/bin/env python
"""Equivalence demo for the T03 refactoring (property C03: gRPC stub creation).

Usage:  /venv/bin/python demo.py <path-to-a-checkout-with-the-change>

The script
  1. exports the pristine HEAD of the checkout into a temp directory
     (`git archive HEAD | tar -x`),
  2. builds several API descriptions in Python (no protoc),
  3. runs the generator once with the pristine tree and once with the
     checkout's working tree -- each in its own subprocess, so the two copies
     of the `gapic` package never mix,
  4. compares the sets of output files and their contents byte for byte.

Exit status 0 and a one-line summary when everything is identical; exit
status 1 and a list of the differing files otherwise.
"""
import hashlib
import os
import pickle
import shutil
import subprocess
import sys
import tempfile


# --------------------------------------------------------------------------
# Worker: runs inside a subprocess with exactly one `gapic` tree on sys.path.
# --------------------------------------------------------------------------
def worker(tree: str, cases_path: str, out_path: str) -> int:
    tree = os.path.realpath(tree)
    # Make sure nothing but `tree` can provide the `gapic` package.
    sys.path[:] = [tree] + [
        p for p in sys.path if p not in ("", ".", os.getcwd()) and os.path.realpath(p) != tree
    ]

    # pandoc is not available here: stub the conversion identically for both
    # runs with a deterministic pure-python function.
    import pypandoc  # type: ignore

    def fake_convert_text(text, to, format=None, extra_args=(), **kwargs):
        return "[rst:%s]\n%s" % (",".join(extra_args), text)

    pypandoc.convert_text = fake_convert_text

    import gapic  # noqa: F401
    from gapic.generator import generator as generator_mod
    from gapic.schema import api as api_mod
    from gapic.schema import wrappers as wrappers_mod
    from gapic.utils import Options
    from google.protobuf import descriptor_pb2

    for mod in (generator_mod, api_mod, wrappers_mod):
        origin = os.path.realpath(mod.__file__)
        if not origin.startswith(tree + os.sep):
            print("worker: %s loaded from %s, not from %s" % (mod.__name__, origin, tree))
            return 2

    with open(cases_path, "rb") as f:
        cases = pickle.load(f)

    results = {}
    for case in cases:
        fdps = []
        for blob in case["files"]:
            fdp = descriptor_pb2.FileDescriptorProto()
            fdp.ParseFromString(blob)
            fdps.append(fdp)
        opts = Options.build(case["opts"])
        api_schema = api_mod.API.build(fdps, package=case["package"], opts=opts)
        response = generator_mod.Generator(opts).get_response(api_schema, opts)
        if response.error:
            print("worker: generator reported an error for %s: %s" % (case["name"], response.error))
            return 2
        files = {}
        for out_file in response.file:
            if out_file.name in files:
                print("worker: duplicate output file %s" % out_file.name)
                return 2
            files[out_file.name] = out_file.content.encode("utf-8")
        results[case["name"]] = files

    with open(out_path, "wb") as f:
        pickle.dump(results, f)
    return 0


# --------------------------------------------------------------------------
# API descriptions.
# --------------------------------------------------------------------------
def build_cases():
    from google.api import annotations_pb2, client_pb2, field_behavior_pb2, resource_pb2
    from google.longrunning import operations_pb2
    from google.protobuf import descriptor_pb2 as d
    from google.protobuf import empty_pb2, struct_pb2, timestamp_pb2, field_mask_pb2

    F = d.FieldDescriptorProto
    OPT, REP = F.LABEL_OPTIONAL, F.LABEL_REPEATED

    # ---- dependency closure of the well-known / common protos -------------
    def closure(*modules):
        seen, ordered = set(), []

        def visit(file_desc):
            if file_desc.name in seen:
                return
            seen.add(file_desc.name)
            for dep in file_desc.dependencies:
                visit(dep)
            fdp = d.FileDescriptorProto()
            file_desc.CopyToProto(fdp)
            ordered.append(fdp)

        for module in modules:
            visit(module.DESCRIPTOR)
        return ordered

    common = closure(
        annotations_pb2,
        client_pb2,
        field_behavior_pb2,
        resource_pb2,
        operations_pb2,
        empty_pb2,
        struct_pb2,
        timestamp_pb2,
        field_mask_pb2,
    )
    common_names = [f.name for f in common]

    # ---- small builders ----------------------------------------------------
    def field(name, number, ftype, label=OPT, type_name=None, oneof_index=None,
              proto3_optional=False, required=False):
        fd = F(name=name, number=number, type=ftype, label=label,
               json_name="".join(w if i == 0 else w.capitalize()
                                 for i, w in enumerate(name.split("_"))))
        if type_name:
            fd.type_name = type_name
        if oneof_index is not None:
            fd.oneof_index = oneof_index
        if proto3_optional:
            fd.proto3_optional = True
        if required:
            fd.options.Extensions[field_behavior_pb2.field_behavior].append(
                field_behavior_pb2.REQUIRED)
        return fd

    def message(name, fields, nested=(), oneofs=(), enums=(), resource=None):
        m = d.DescriptorProto(name=name)
        m.field.extend(fields)
        m.nested_type.extend(nested)
        m.enum_type.extend(enums)
        for oneof in oneofs:
            m.oneof_decl.add(name=oneof)
        if resource:
            res = m.options.Extensions[resource_pb2.resource]
            res.type = resource[0]
            res.pattern.extend(resource[1])
        return m

    def map_entry(name, value_type, value_type_name=None):
        m = d.DescriptorProto(name=name)
        m.field.extend([
            field("key", 1, F.TYPE_STRING),
            field("value", 2, value_type, type_name=value_type_name),
        ])
        m.options.map_entry = True
        return m

    def enum(name, *values):
        e = d.EnumDescriptorProto(name=name)
        for i, v in enumerate(values):
            e.value.add(name=v, number=i)
        return e

    def method(name, inp, out, client_streaming=False, server_streaming=False,
               http=None, signatures=(), lro=None, deprecated=False):
        m = d.MethodDescriptorProto(name=name, input_type=inp, output_type=out)
        if client_streaming:
            m.client_streaming = True
        if server_streaming:
            m.server_streaming = True
        if http:
            verb, uri, body = http
            rule = m.options.Extensions[annotations_pb2.http]
            setattr(rule, verb, uri)
            if body:
                rule.body = body
        for sig in signatures:
            m.options.Extensions[client_pb2.method_signature].append(sig)
        if lro:
            info = m.options.Extensions[operations_pb2.operation_info]
            info.response_type, info.metadata_type = lro
        if deprecated:
            m.options.deprecated = True
        return m

    def service(name, methods, host=None, scopes=None):
        s = d.ServiceDescriptorProto(name=name)
        s.method.extend(methods)
        if host:
            s.options.Extensions[client_pb2.default_host] = host
        if scopes:
            s.options.Extensions[client_pb2.oauth_scopes] = scopes
        return s

    def proto_file(name, package, messages=(), services=(), enums=(), deps=(), comments=()):
        f = d.FileDescriptorProto(name=name, package=package, syntax="proto3")
        f.dependency.extend(deps)
        f.message_type.extend(messages)
        f.enum_type.extend(enums)
        f.service.extend(services)
        for path, text in comments:
            loc = f.source_code_info.location.add()
            loc.path.extend(path)
            loc.leading_comments = text
        return f

    def paged_pair(pkg, item, prefix):
        req = message("List%ssRequest" % prefix, [
            field("parent", 1, F.TYPE_STRING, required=True),
            field("page_size", 2, F.TYPE_INT32),
            field("page_token", 3, F.TYPE_STRING),
        ])
        resp = message("List%ssResponse" % prefix, [
            field("%ss" % prefix.lower(), 1, F.TYPE_MESSAGE, REP, ".%s.%s" % (pkg, item)),
            field("next_page_token", 2, F.TYPE_STRING),
        ])
        return req, resp

    def blobs(*fdps):
        return [f.SerializeToString(deterministic=True) for f in fdps]

    cases = []

    # ======================================================================
    # Case 1: a "library" API: two services, every streaming arity, void,
    # names that collide with transport members / keywords, paging, LRO,
    # request/response types from dependency packages, maps/oneofs/enums,
    # http annotations, documentation comments (incl. markdown).
    # ======================================================================
    pkg = "google.example.library.v1"
    P = "." + pkg + "."
    book = message(
        "Book",
        [
            field("name", 1, F.TYPE_STRING),
            field("title", 2, F.TYPE_STRING),
            field("labels", 3, F.TYPE_MESSAGE, REP, P + "Book.LabelsEntry"),
            field("genre", 4, F.TYPE_ENUM, type_name=P + "Genre"),
            field("isbn", 5, F.TYPE_STRING, oneof_index=0),
            field("serial", 6, F.TYPE_INT64, oneof_index=0),
            field("tags", 7, F.TYPE_STRING, REP),
            field("rating", 8, F.TYPE_DOUBLE, oneof_index=1, proto3_optional=True),
            field("create_time", 9, F.TYPE_MESSAGE, type_name=".google.protobuf.Timestamp"),
            field("class", 10, F.TYPE_STRING),
        ],
        nested=[map_entry("LabelsEntry", F.TYPE_STRING)],
        oneofs=["identifier", "_rating"],
        resource=("library.example.com/Book", ["shelves/{shelf}/books/{book}"]),
    )
    get_book = message("GetBookRequest", [field("name", 1, F.TYPE_STRING, required=True)])
    create_book = message("CreateBookRequest", [
        field("parent", 1, F.TYPE_STRING, required=True),
        field("book", 2, F.TYPE_MESSAGE, type_name=P + "Book", required=True),
    ])
    delete_book = message("DeleteBookRequest", [field("name", 1, F.TYPE_STRING)])
    update_book = message("UpdateBookRequest", [
        field("book", 1, F.TYPE_MESSAGE, type_name=P + "Book"),
        field("update_mask", 2, F.TYPE_MESSAGE, type_name=".google.protobuf.FieldMask"),
    ])
    list_req, list_resp = paged_pair(pkg, "Book", "Book")
    import_req = message("ImportBooksRequest", [
        field("parent", 1, F.TYPE_STRING),
        field("from", 2, F.TYPE_STRING),
    ])
    import_resp = message("ImportBooksResponse", [field("count", 1, F.TYPE_INT32)])
    import_meta = message("ImportBooksMetadata", [field("progress", 1, F.TYPE_FLOAT)])
    chat = message("ChatMessage", [field("text", 1, F.TYPE_STRING)])
    library_msgs = [book, get_book, create_book, delete_book, update_book, list_req,
                    list_resp, import_req, import_resp, import_meta, chat]

    library_service = service(
        "Library",
        [
            method("GetBook", P + "GetBookRequest", P + "Book",
                   http=("get", "/v1/{name=shelves/*/books/*}", None), signatures=["name"]),
            method("CreateBook", P + "CreateBookRequest", P + "Book",
                   http=("post", "/v1/{parent=shelves/*}/books", "book"),
                   signatures=["parent,book"]),
            method("DeleteBook", P + "DeleteBookRequest", ".google.protobuf.Empty",
                   http=("delete", "/v1/{name=shelves/*/books/*}", None), signatures=["name"]),
            method("UpdateBook", P + "UpdateBookRequest", P + "Book",
                   http=("patch", "/v1/{book.name=shelves/*/books/*}", "book"),
                   signatures=["book,update_mask"]),
            method("ListBooks", P + "ListBooksRequest", P + "ListBooksResponse",
                   http=("get", "/v1/{parent=shelves/*}/books", None), signatures=["parent"]),
            method("ImportBooks", P + "ImportBooksRequest", ".google.longrunning.Operation",
                   http=("post", "/v1/{parent=shelves/*}/books:import", "*"),
                   lro=("ImportBooksResponse", "ImportBooksMetadata")),
            # Names that collide with transport members or python keywords.
            method("Import", P + "ImportBooksRequest", P + "ImportBooksResponse",
                   http=("post", "/v1/{parent=shelves/*}:import", "*")),
            method("CreateChannel", P + "GetBookRequest", P + "Book",
                   http=("post", "/v1/{name=shelves/*/books/*}:createChannel", "*")),
            method("GrpcChannel", P + "GetBookRequest", ".google.protobuf.Empty",
                   http=("post", "/v1/{name=shelves/*/books/*}:grpcChannel", "*")),
            method("OperationsClient", ".google.protobuf.Empty", ".google.protobuf.Struct",
                   http=("get", "/v1/operationsClient", None)),
            method("Close", P + "GetBookRequest", P + "Book", deprecated=True,
                   http=("post", "/v1/{name=shelves/*/books/*}:close", "*")),
            # Streaming arities.
            method("StreamBooks", P + "ListBooksRequest", P + "Book", server_streaming=True,
                   http=("get", "/v1/{parent=shelves/*}/books:stream", None)),
            method("UploadBooks", P + "CreateBookRequest", P + "ImportBooksResponse",
                   client_streaming=True),
            method("Chat", P + "ChatMessage", P + "ChatMessage",
                   client_streaming=True, server_streaming=True),
            method("DrainBooks", P + "DeleteBookRequest", ".google.protobuf.Empty",
                   client_streaming=True),
        ],
        host="library.example.com",
        scopes="https://www.googleapis.com/auth/cloud-platform,"
               "https://www.googleapis.com/auth/library.readonly",
    )
    archive_service = service(
        "ArchiveService",
        [
            method("Yield", P + "GetBookRequest", P + "Book"),
            method("Lambda", ".google.protobuf.Struct", ".google.protobuf.Empty"),
            method("ListArchivedBooks", P + "ListBooksRequest", P + "ListBooksResponse"),
        ],
        host="archive.example.com:8443",
    )
    library_file = proto_file(
        "google/example/library/v1/library.proto", pkg,
        messages=library_msgs, services=[library_service, archive_service],
        enums=[enum("Genre", "GENRE_UNSPECIFIED", "FICTION", "None")],
        deps=common_names,
        comments=[
            ([4, 0], " A single *book* in the `library`.\n"),
            ([4, 8], " The result of an import; see [Book][google.example.library.v1.Book].\n"),
            ([6, 0], " The library service.\n Manages books on shelves.\n"),
            ([6, 0, 2, 0], " Gets a book. Returns NOT_FOUND if the book does not exist.\n"),
            ([6, 0, 2, 5], " Imports books in *bulk*.\n\n The operation is long running.\n"),
            ([6, 0, 2, 6], " Plain import with \"\"\" quotes and a trailing backslash \\\n"),
            ([6, 0, 2, 13], " Bidirectional chat.\n"),
        ],
    )
    for opts in ("", "transport=grpc+rest,metadata", "autogen-snippets=false,add-iam-methods"):
        cases.append(dict(name="library[%s]" % opts, package=pkg, opts=opts,
                          files=blobs(*(common + [library_file]))))

    # ======================================================================
    # Case 2: no annotations at all, API with a sub-package, several files,
    # proto2-free plain messages, lazy-import / old-naming options.
    # ======================================================================
    pkg = "acme.widgets.v2beta1"
    P = "." + pkg + "."
    types_file = proto_file(
        "acme/widgets/v2beta1/types.proto", pkg,
        messages=[
            message("Widget", [
                field("id", 1, F.TYPE_UINT64),
                field("payload", 2, F.TYPE_BYTES),
                field("children", 3, F.TYPE_MESSAGE, REP, P + "Widget"),
                field("attrs", 4, F.TYPE_MESSAGE, REP, P + "Widget.AttrsEntry"),
            ], nested=[map_entry("AttrsEntry", F.TYPE_MESSAGE, P + "Widget")]),
            message("WidgetQuery", []),
        ],
    )
    svc_file = proto_file(
        "acme/widgets/v2beta1/widget_service.proto", pkg,
        services=[service("Widgets", [
            method("Make", P + "Widget", P + "Widget"),
            method("Query", P + "WidgetQuery", P + "Widget", server_streaming=True),
            method("Return", P + "Widget", ".google.protobuf.Empty"),
        ])],
        deps=["acme/widgets/v2beta1/types.proto", "google/protobuf/empty.proto"],
    )
    SP = P + "admin."
    admin_file = proto_file(
        "acme/widgets/v2beta1/admin/admin.proto", pkg + ".admin",
        messages=[
            message("PurgeRequest", [field("force", 1, F.TYPE_BOOL)]),
            message("PurgeReport", [field("purged", 1, F.TYPE_MESSAGE, REP, P + "Widget")]),
        ],
        services=[service("AdminService", [
            method("Purge", SP + "PurgeRequest", SP + "PurgeReport"),
            method("PurgeAll", SP + "PurgeRequest", SP + "PurgeReport",
                   client_streaming=True, server_streaming=True),
            method("Global", P + "Widget", ".google.protobuf.Empty"),
        ])],
        deps=["acme/widgets/v2beta1/types.proto", "google/protobuf/empty.proto"],
    )
    empty_only = closure(empty_pb2)
    # (snippet generation cannot handle services in a sub-package at this commit,
    # in either tree, so it is switched off for this API.)
    for opts in ("autogen-snippets=false", "lazy-import,autogen-snippets=false", "old-naming"):
        cases.append(dict(name="widgets[%s]" % opts, package=pkg, opts=opts,
                          files=blobs(*(empty_only + [types_file, svc_file, admin_file]))))

    # ======================================================================
    # Case 3: REST only / REST + numeric enums (the gRPC transports are not
    # rendered for transport=rest; checks nothing else depends on the edits).
    # ======================================================================
    pkg = "google.cloud.gizmo.v1"
    P = "." + pkg + "."
    gz_list_req, gz_list_resp = paged_pair(pkg, "Gizmo", "Gizmo")
    gizmo_file = proto_file(
        "google/cloud/gizmo/v1/gizmo.proto", pkg,
        messages=[
            message("Gizmo", [
                field("name", 1, F.TYPE_STRING),
                field("state", 2, F.TYPE_ENUM, type_name=P + "Gizmo.State"),
                field("sizes", 3, F.TYPE_INT32, REP),
            ], enums=[enum("State", "STATE_UNSPECIFIED", "ON", "OFF")]),
            message("GetGizmoRequest", [field("name", 1, F.TYPE_STRING, required=True)]),
            message("DeleteGizmoRequest", [field("name", 1, F.TYPE_STRING, required=True)]),
            gz_list_req, gz_list_resp,
        ],
        services=[service("GizmoService", [
            method("GetGizmo", P + "GetGizmoRequest", P + "Gizmo",
                   http=("get", "/v1/{name=gizmos/*}", None), signatures=["name"]),
            method("DeleteGizmo", P + "DeleteGizmoRequest", ".google.protobuf.Empty",
                   http=("delete", "/v1/{name=gizmos/*}", None)),
            method("ListGizmos", P + "ListGizmosRequest", P + "ListGizmosResponse",
                   http=("get", "/v1/{parent=projects/*}/gizmos", None)),
            method("WatchGizmos", P + "ListGizmosRequest", P + "Gizmo", server_streaming=True,
                   http=("get", "/v1/{parent=projects/*}/gizmos:watch", None)),
            method("Pass", P + "GetGizmoRequest", P + "Gizmo",
                   http=("post", "/v1/{name=gizmos/*}:pass", "*")),
        ], host="gizmo.googleapis.com")],
        deps=common_names,
    )
    for opts in ("transport=rest", "transport=rest,rest-numeric-enums", "transport=grpc+rest"):
        cases.append(dict(name="gizmo[%s]" % opts, package=pkg, opts=opts,
                          files=blobs(*(common + [gizmo_file]))))

    # ======================================================================
    # Case 4: request / response / LRO result types taken from another
    # (non-google) package: decides `_pb2` vs proto-plus (de)serializers,
    # with and without the proto-plus-deps option.
    # ======================================================================
    dep_pkg = "example.shared.types.v1"
    DP = "." + dep_pkg + "."
    shared_file = proto_file(
        "example/shared/types/v1/shared.proto", dep_pkg,
        messages=[
            message("Ticket", [field("id", 1, F.TYPE_STRING)]),
            message("Receipt", [field("ticket", 1, F.TYPE_MESSAGE, type_name=DP + "Ticket")]),
            message("Progress", [field("percent", 1, F.TYPE_INT32)]),
        ],
        comments=[([4, 1], " A receipt for a `Ticket`.\n")],
    )
    pkg = "example.booking.v3"
    P = "." + pkg + "."
    booking_file = proto_file(
        "example/booking/v3/booking.proto", pkg,
        messages=[message("BookRequest", [
            field("ticket", 1, F.TYPE_MESSAGE, type_name=DP + "Ticket"),
            field("async", 2, F.TYPE_BOOL),
        ])],
        services=[service("Booking", [
            method("Book", P + "BookRequest", DP + "Receipt"),
            method("Redeem", DP + "Ticket", DP + "Receipt"),
            method("RedeemMany", DP + "Ticket", DP + "Receipt",
                   client_streaming=True, server_streaming=True),
            method("Cancel", DP + "Ticket", ".google.protobuf.Empty"),
            method("BookLater", P + "BookRequest", ".google.longrunning.Operation",
                   lro=(dep_pkg + ".Receipt", dep_pkg + ".Progress")),
            method("CancelLater", DP + "Ticket", ".google.longrunning.Operation",
                   lro=("google.protobuf.Empty", dep_pkg + ".Progress")),
            method("GetOperation", ".google.longrunning.GetOperationRequest",
                   ".google.longrunning.Operation",
                   lro=("google.protobuf.Struct", "google.protobuf.Struct")),
        ], host="booking.example.com")],
        deps=common_names + ["example/shared/types/v1/shared.proto"],
    )
    for opts in ("", "proto-plus-deps=" + dep_pkg, "transport=grpc+rest,proto-plus-deps=" + dep_pkg):
        cases.append(dict(name="booking[%s]" % opts, package=pkg, opts=opts,
                          files=blobs(*(common + [shared_file, booking_file]))))

    return cases


# --------------------------------------------------------------------------
# Coverage sanity: make sure the inputs actually reach the refactored code.
# --------------------------------------------------------------------------
def coverage_problems(results):
    everything = {}
    for case, files in results.items():
        for name, content in files.items():
            everything[(case, name)] = content.decode("utf-8")

    def grpc_files(async_):
        suffix = "transports/grpc_asyncio.py" if async_ else "transports/grpc.py"
        return [text for (case, name), text in everything.items() if name.endswith(suffix)]

    problems = []
    for async_ in (False, True):
        texts = grpc_files(async_)
        joined = "\n".join(texts)
        if len(texts) < 8:
            problems.append("too few gRPC transports rendered (async=%s): %d" % (async_, len(texts)))
        for token in (
            "_logged_channel.unary_unary(", "_logged_channel.unary_stream(",
            "_logged_channel.stream_unary(", "_logged_channel.stream_stream(",
            ".SerializeToString,", ".serialize,", ".FromString,", ".deserialize,",
            "def import_(self)", "def create_channel_(self)", "def grpc_channel_(self)",
            "def operations_client_(self)", "self._stubs['return_']", "def close(self)",
            "'/google.example.library.v1.Library/Import'",
            "'/acme.widgets.v2beta1.admin.AdminService/Global'",
        ):
            if token not in joined:
                problems.append("token %r never rendered (async=%s)" % (token, async_))
    all_text = "\n".join(everything.values())
    for token in ("operation.Operation", "operation_async.AsyncOperation",
                  "ListBooksPager", "ListBooksAsyncPager", "The result type for the operation will be"):
        if token not in all_text:
            problems.append("token %r never rendered" % token)
    return problems


# --------------------------------------------------------------------------
def main(argv):
    if len(argv) == 5 and argv[1] == "--worker":
        return worker(argv[2], argv[3], argv[4])
    if len(argv) != 2:
        print("usage: demo.py <checkout-with-the-change>")
        return 2

    checkout = os.path.realpath(argv[1])
    tmp = tempfile.mkdtemp(prefix="twin-demo-T03-")
    try:
        pristine = os.path.join(tmp, "pristine")
        os.mkdir(pristine)
        archive = subprocess.Popen(["git", "-C", checkout, "archive", "HEAD"],
                                   stdout=subprocess.PIPE)
        subprocess.check_call(["tar", "-x", "-C", pristine], stdin=archive.stdout)
        archive.stdout.close()
        if archive.wait() != 0:
            print("git archive failed")
            return 2

        cases = build_cases()
        cases_path = os.path.join(tmp, "cases.pkl")
        with open(cases_path, "wb") as f:
            pickle.dump(cases, f)

        env = dict(os.environ)
        env.pop("PYTHONPATH", None)
        env["PYTHONDONTWRITEBYTECODE"] = "1"
        env["PYTHONHASHSEED"] = "0"
        procs = {}
        for label, tree in (("pristine", pristine), ("changed", checkout)):
            out_path = os.path.join(tmp, label + ".pkl")
            procs[label] = (out_path, subprocess.Popen(
                [sys.executable, os.path.abspath(__file__), "--worker", tree, cases_path, out_path],
                cwd=tmp, env=env))
        outputs = {}
        for label, (out_path, proc) in procs.items():
            if proc.wait() != 0:
                print("generator run failed for the %s tree" % label)
                return 2
            with open(out_path, "rb") as f:
                outputs[label] = pickle.load(f)

        differing = []
        total = 0
        digest = hashlib.sha256()
        for case in cases:
            name = case["name"]
            before, after = outputs["pristine"][name], outputs["changed"][name]
            if list(before) != list(after):
                for fname in sorted(set(before) - set(after)):
                    differing.append("%s: %s only produced by the pristine tree" % (name, fname))
                for fname in sorted(set(after) - set(before)):
                    differing.append("%s: %s only produced by the changed tree" % (name, fname))
                if set(before) == set(after):
                    differing.append("%s: same files but emitted in a different order" % name)
            for fname in before:
                if fname in after:
                    total += 1
                    digest.update(before[fname])
                    if before[fname] != after[fname]:
                        differing.append("%s: %s differs" % (name, fname))

        # Is there a change at all? (informational)
        diff = subprocess.run(["git", "-C", checkout, "diff", "--quiet", "HEAD", "--", "gapic"])
        changed_note = "working tree differs from HEAD" if diff.returncode else \
            "NOTE: working tree has no change under gapic/"

        if differing:
            print("DIFFERENT: %d problem(s) in %d cases (%s)" % (len(differing), len(cases), changed_note))
            for line in differing:
                print("  " + line)
            return 1
        problems = coverage_problems(outputs["changed"])
        if problems:
            print("demo inputs do not exercise the refactored code:")
            for p in problems:
                print("  " + p)
            return 2

        print("IDENTICAL: %d cases, %d output files byte-for-byte equal (sha256 %s; %s)"
              % (len(cases), total, digest.hexdigest()[:16], changed_note))
        return 0
    finally:
        shutil.rmtree(tmp, ignore_errors=True)


if __name__ == "__main__":
    sys.exit(main(sys.argv))
