#!/venv/bin/python
"""Twin W20: show that the refactoring of wrap / rst / fix_whitespace keeps
the generator's output byte for byte.

Usage:  /venv/bin/python demo.py <path-to-a-checkout-with-the-change>

The script exports the checkout's HEAD (pristine tree), then runs the
generator from the pristine tree and from the checkout's working tree (each in
its own subprocess) on several API descriptions and compares all files.
"""
import importlib
import os
import pickle
import shutil
import subprocess
import sys
import tempfile
import textwrap


# ---------------------------------------------------------------------------
# Worker: runs in a subprocess, generates all specs with ONE tree.
# ---------------------------------------------------------------------------
def _fake_convert_text(text, to, format=None, extra_args=()):
    """Deterministic stand-in for pandoc (not installed here).

    Produces multi-line output that depends on the text, on the source format
    and on the requested number of columns, surrounded by blank space, so the
    strip / re-indent code that follows the call has something to do.
    """
    columns = 72
    for arg in extra_args:
        if arg.startswith("--columns="):
            columns = int(arg.split("=", 1)[1])
    paragraphs = []
    for para in text.split("\n\n"):
        para = para.replace("`", "``")
        filled = textwrap.fill(para, width=max(columns, 8), break_long_words=False)
        paragraphs.append(filled)
    return "\n\n" + "\n\n".join(paragraphs) + f"\n\n.. from {format} to {to}\n\n"


def worker(tree, specs_path, out_path):
    tree = os.path.realpath(tree)

    # The tree under test comes first; nothing else may provide `gapic`.
    sys.meta_path[:] = [
        f for f in sys.meta_path if "editable" not in repr(f).lower()
    ]
    sys.path_hooks[:] = [
        h for h in sys.path_hooks if "editable" not in repr(h).lower()
    ]
    cleaned = []
    for entry in sys.path:
        if "__editable__" in entry:
            continue
        real = os.path.realpath(entry or os.getcwd())
        if real == tree:
            continue
        if os.path.isdir(os.path.join(real, "gapic")):
            continue
        cleaned.append(entry)
    sys.path[:] = [tree] + cleaned
    sys.path_importer_cache.clear()
    importlib.invalidate_caches()
    for name in list(sys.modules):
        if name == "gapic" or name.startswith("gapic."):
            del sys.modules[name]
    os.chdir(tree)

    import pypandoc

    pypandoc.convert_text = _fake_convert_text

    from google.protobuf import descriptor_pb2
    from gapic.generator import Generator
    from gapic.schema.api import API
    from gapic.utils import Options
    import gapic.utils.rst  # noqa: F401

    rst_module = sys.modules["gapic.utils.rst"]
    assert rst_module.pypandoc.convert_text is _fake_convert_text

    with open(specs_path, "rb") as fh:
        specs = pickle.load(fh)

    results = {}
    for spec in specs:
        fdps = [descriptor_pb2.FileDescriptorProto.FromString(b) for b in spec["files"]]
        opts = Options.build(spec["opts"])
        for tdir in opts.templates:
            assert os.path.realpath(tdir).startswith(tree + os.sep), tdir
        api = API.build(fdps, package=spec["package"], opts=opts)
        response = Generator(opts).get_response(api, opts)
        files = {}
        for f in response.file:
            assert f.name not in files, f.name
            files[f.name] = f.content
        results[spec["name"]] = files

    loaded = 0
    for name, mod in sorted(sys.modules.items()):
        if name == "gapic" or name.startswith("gapic."):
            # (`gapic` itself may be a namespace package without __file__.)
            path = getattr(mod, "__file__", None)
            paths = [path] if path else list(getattr(mod, "__path__", []))
            assert paths, name
            for path in paths:
                assert os.path.realpath(path).startswith(tree + os.sep), (name, path)
            loaded += 1
    assert loaded > 10, loaded

    with open(out_path, "wb") as fh:
        pickle.dump(results, fh)


# ---------------------------------------------------------------------------
# Building the API descriptions (no protoc: descriptors are built by hand).
# ---------------------------------------------------------------------------
def build_specs():
    from google.api import annotations_pb2, client_pb2, field_behavior_pb2, resource_pb2
    from google.longrunning import operations_pb2
    from google.protobuf import descriptor_pb2 as d
    from google.protobuf import empty_pb2

    F = d.FieldDescriptorProto

    def closure(*file_descriptors):
        """Serialized FileDescriptorProtos of the given files and their deps."""
        seen, order = set(), []

        def visit(fd):
            if fd.name in seen:
                return
            seen.add(fd.name)
            for dep in fd.dependencies:
                visit(dep)
            order.append(fd.serialized_pb)

        for fd in file_descriptors:
            visit(fd)
        return order

    common = closure(
        annotations_pb2.DESCRIPTOR,
        client_pb2.DESCRIPTOR,
        field_behavior_pb2.DESCRIPTOR,
        resource_pb2.DESCRIPTOR,
        operations_pb2.DESCRIPTOR,
        empty_pb2.DESCRIPTOR,
    )
    common_names = [
        "google/api/annotations.proto",
        "google/api/client.proto",
        "google/api/field_behavior.proto",
        "google/api/resource.proto",
        "google/longrunning/operations.proto",
        "google/protobuf/empty.proto",
    ]

    def field(name, number, type_=F.TYPE_STRING, label=F.LABEL_OPTIONAL, type_name=None, oneof=None, required=False):
        f = F(name=name, number=number, type=type_, label=label, json_name=name)
        if type_name:
            f.type_name = type_name
        if oneof is not None:
            f.oneof_index = oneof
        if required:
            f.options.Extensions[field_behavior_pb2.field_behavior].append(field_behavior_pb2.REQUIRED)
        return f

    def message(name, fields, nested=(), oneofs=(), enums=()):
        m = d.DescriptorProto(name=name, field=fields, nested_type=nested, enum_type=enums)
        for o in oneofs:
            m.oneof_decl.add(name=o)
        return m

    def map_entry(name, value_type=F.TYPE_STRING, type_name=None):
        entry = message(name, [field("key", 1), field("value", 2, value_type, type_name=type_name)])
        entry.options.map_entry = True
        return entry

    def method(name, inp, out, *, http=None, sig=None, cs=False, ss=False, lro=None):
        m = d.MethodDescriptorProto(name=name, input_type=inp, output_type=out, client_streaming=cs, server_streaming=ss)
        if http:
            verb, uri, body = http
            rule = m.options.Extensions[annotations_pb2.http]
            setattr(rule, verb, uri)
            if body:
                rule.body = body
        if sig is not None:
            m.options.Extensions[client_pb2.method_signature].append(sig)
        if lro:
            info = m.options.Extensions[operations_pb2.operation_info]
            info.response_type, info.metadata_type = lro
        return m

    def service(name, methods, host="example.googleapis.com"):
        s = d.ServiceDescriptorProto(name=name, method=methods)
        s.options.Extensions[client_pb2.default_host] = host
        s.options.Extensions[client_pb2.oauth_scopes] = "https://www.googleapis.com/auth/cloud-platform"
        return s

    def proto_file(name, package, messages=(), services=(), enums=(), deps=common_names, comments=()):
        fd = d.FileDescriptorProto(
            name=name, package=package, syntax="proto3", message_type=messages, service=services,
            enum_type=enums, dependency=list(deps),
        )
        for path, kinds in comments:
            loc = fd.source_code_info.location.add(path=path, span=[0, 0, 0])
            for kind, value in kinds.items():
                if kind == "detached":
                    loc.leading_detached_comments.extend(value)
                else:
                    setattr(loc, kind, value)
        return fd

    long_url = "https://example.com/a-very/long-url-with-hyphens/that-cannot-be-broken/anywhere-at-all/really/index.html"
    plain_long = (
        " This is a long plain comment without any markup characters whatsoever so that the fast path is\n"
        " taken and the text needs to be wrapped over several lines because it is simply far too long.\n"
        " Allowed values:\n"
        " - first bullet that goes on and on and on so that the continuation line has to be indented by two\n"
        " - second bullet\n"
        " + plus bullet\n"
        " 1. numbered item which is also rather long and will need a hanging indent of four columns here\n"
        " 22. double digit item\n"
        "\n"
        " A paragraph after a blank line:\n"
        " with a colon before it and\ta tab inside and   runs   of   spaces.\n"
        f" See {long_url} for details.\n"
    )
    first_line_long = (
        " The very first line of this comment is much longer than what is left over on the first line once the offset has been taken off, "
        "so it is split.\n And then it simply continues here.\n"
    )
    first_line_then_list = (
        " The very first line of this comment is much longer than what is left over on the first line after the offset:\n"
        " - item one\n - item two\n"
    )
    markup = (
        " Uses `backticks`, *emphasis*, a [link](http://x.y/z) and snake_case words,\n"
        " so the (stubbed) pandoc path is taken for this comment which is long enough to be re-flowed.\n\n"
        " | a | table |\n"
    )
    quotes = ' He said "stop"'
    triple = ' Contains """ in the middle and at the end """'
    triple_markup = ' A `code` span and a """ run, ending in a "quote"'
    backslash = " A Windows path C:\\temp\\"
    colon_first = " Values:\n one\n two\n"

    specs = []

    # 1. plain comments of all kinds; one service; gRPC only.
    msgs = [
        message("Book", [
            field("name", 1), field("title", 2), field("pages", 3, F.TYPE_INT32),
            field("tags", 4, label=F.LABEL_REPEATED),
            field("labels", 5, F.TYPE_MESSAGE, F.LABEL_REPEATED, ".google.example.library.v1.Book.LabelsEntry"),
        ], nested=[map_entry("LabelsEntry")]),
        message("GetBookRequest", [field("name", 1, required=True)]),
    ]
    svc = service("Library", [method("GetBook", ".google.example.library.v1.GetBookRequest", ".google.example.library.v1.Book", sig="name")])
    comments = [
        ([4, 0], {"leading_comments": plain_long}),
        ([4, 0, 2, 0], {"leading_comments": first_line_long}),
        ([4, 0, 2, 1], {"trailing_comments": quotes}),
        ([4, 0, 2, 2], {"detached": [" Detached one.\n", " Detached two:\n - a\n - b\n"]}),
        ([4, 0, 2, 3], {"leading_comments": first_line_then_list}),
        ([4, 0, 2, 4], {"leading_comments": backslash}),
        ([4, 1], {"leading_comments": colon_first}),
        ([4, 1, 2, 0], {"leading_comments": triple, "trailing_comments": " ignored trailing"}),
        ([6, 0], {"leading_comments": " The library service.\n\n It has one method:\n GetBook\n"}),
        ([6, 0, 2, 0], {"leading_comments": plain_long + "\n" + first_line_long}),
    ]
    specs.append(dict(
        name="plain-grpc", package="google.example.library.v1", opts="",
        files=common + [proto_file("google/example/library/v1/library.proto", "google.example.library.v1", msgs, [svc], comments=comments).SerializeToString()],
    ))

    # 2. markup comments (pandoc stub), enums, REST + gRPC, numeric enums.
    pkg = "google.example.shelf.v1"
    enum = d.EnumDescriptorProto(name="Kind", value=[
        d.EnumValueDescriptorProto(name="KIND_UNSPECIFIED", number=0),
        d.EnumValueDescriptorProto(name="FICTION", number=1),
    ])
    msgs = [
        message("Shelf", [
            field("name", 1), field("kind", 2, F.TYPE_ENUM, type_name=f".{pkg}.Kind"),
            field("class", 3), field("from", 4, F.TYPE_INT64),
            field("text_value", 5, oneof=0), field("int_value", 6, F.TYPE_INT32, oneof=0),
        ], oneofs=["value"]),
        message("GetShelfRequest", [field("name", 1, required=True)]),
        message("UpdateShelfRequest", [field("shelf", 1, F.TYPE_MESSAGE, type_name=f".{pkg}.Shelf"), field("in", 2)]),
    ]
    svc = service("Shelves", [
        method("GetShelf", f".{pkg}.GetShelfRequest", f".{pkg}.Shelf", http=("get", "/v1/{name=shelves/*}", None), sig="name"),
        method("UpdateShelf", f".{pkg}.UpdateShelfRequest", f".{pkg}.Shelf", http=("patch", "/v1/{shelf.name=shelves/*}", "shelf"), sig="shelf,in"),
    ])
    comments = [
        ([5, 0], {"leading_comments": markup}),
        ([5, 0, 2, 0], {"leading_comments": " Not specified, see `Kind`."}),
        ([5, 0, 2, 1], {"trailing_comments": plain_long}),
        ([4, 0], {"leading_comments": markup + "\n" + plain_long}),
        ([4, 0, 2, 0], {"leading_comments": triple_markup}),
        ([4, 0, 2, 1], {"leading_comments": " The *kind*\\"}),
        ([4, 0, 2, 2], {"leading_comments": " A reserved word field with snake_case."}),
        ([4, 0, 2, 4], {"leading_comments": quotes}),
        ([4, 2], {"detached": [markup, plain_long]}),
        ([4, 2, 2, 1], {"leading_comments": backslash}),
        ([6, 0], {"leading_comments": markup}),
        ([6, 0, 2, 0], {"leading_comments": first_line_long + markup}),
        ([6, 0, 2, 1], {"leading_comments": triple}),
    ]
    specs.append(dict(
        name="markup-grpc+rest", package=pkg, opts="transport=grpc+rest,rest-numeric-enums",
        files=common + [proto_file("google/example/shelf/v1/shelf.proto", pkg, msgs, [svc], [enum], comments=comments).SerializeToString()],
    ))

    # 3. LRO, paging, streaming, two services, no snippets.
    pkg = "google.example.ops.v1"
    msgs = [
        message("Item", [field("name", 1), field("attrs", 2, F.TYPE_MESSAGE, F.LABEL_REPEATED, f".{pkg}.Item.AttrsEntry")], nested=[map_entry("AttrsEntry", F.TYPE_INT32)]),
        message("ListItemsRequest", [field("parent", 1), field("page_size", 2, F.TYPE_INT32), field("page_token", 3)]),
        message("ListItemsResponse", [field("items", 1, F.TYPE_MESSAGE, F.LABEL_REPEATED, f".{pkg}.Item"), field("next_page_token", 2)]),
        message("ImportItemsRequest", [field("parent", 1), field("uri", 2)]),
        message("ImportItemsResponse", [field("count", 1, F.TYPE_INT32)]),
        message("ImportItemsMetadata", [field("progress", 1, F.TYPE_INT32)]),
        message("ChatMessage", [field("text", 1)]),
    ]
    svc_a = service("Items", [
        method("ListItems", f".{pkg}.ListItemsRequest", f".{pkg}.ListItemsResponse", http=("get", "/v1/{parent=projects/*}/items", None), sig="parent"),
        method("ImportItems", f".{pkg}.ImportItemsRequest", ".google.longrunning.Operation", http=("post", "/v1/{parent=projects/*}/items:import", "*"),
               lro=("ImportItemsResponse", "ImportItemsMetadata")),
    ])
    svc_b = service("Chat", [
        method("Talk", f".{pkg}.ChatMessage", f".{pkg}.ChatMessage", cs=True, ss=True),
        method("Listen", f".{pkg}.ChatMessage", f".{pkg}.ChatMessage", ss=True),
        method("Upload", f".{pkg}.ChatMessage", f".{pkg}.ChatMessage", cs=True),
    ], host="chat.example.com:8443")
    comments = [
        ([4, 0], {"leading_comments": " An item.\n"}),
        ([4, 0, 2, 1], {"leading_comments": first_line_then_list}),
        ([4, 1], {"leading_comments": plain_long}),
        ([4, 1, 2, 1], {"leading_comments": colon_first}),
        ([4, 2, 2, 1], {"trailing_comments": " Token for the next page.\n Empty when done."}),
        ([4, 3], {"leading_comments": first_line_long}),
        ([4, 5], {"leading_comments": triple}),
        ([6, 0], {"leading_comments": " Items service:\n lists and imports."}),
        ([6, 0, 2, 0], {"leading_comments": plain_long}),
        ([6, 0, 2, 1], {"leading_comments": " Imports items. Long running:\n\n 1. start\n 2. poll\n 10. done and this last entry is long enough that it has to be wrapped onto another line\n"}),
        ([6, 1], {"detached": [" Only detached.", " Two of them."]}),
        ([6, 1, 2, 0], {"leading_comments": quotes}),
        ([6, 1, 2, 1], {"leading_comments": backslash}),
        ([6, 1, 2, 2], {"leading_comments": " x" * 120}),
    ]
    specs.append(dict(
        name="lro-paging-streaming-nosnippets", package=pkg, opts="autogen-snippets=false,transport=grpc+rest",
        files=common + [proto_file("google/example/ops/v1/ops.proto", pkg, msgs, [svc_a, svc_b], comments=comments).SerializeToString()],
    ))

    # 4. sub-package, no comments at all, REST only.
    pkg = "google.example.bare.v1"
    sub = "google.example.bare.v1.types"
    sub_file = proto_file("google/example/bare/v1/types/thing.proto", sub, [message("Thing", [field("name", 1), field("size", 2, F.TYPE_DOUBLE)])])
    top_file = proto_file(
        "google/example/bare/v1/bare.proto", pkg,
        [message("GetThingRequest", [field("name", 1)]), message("DeleteThingRequest", [field("name", 1)])],
        [service("Bare", [
            method("GetThing", f".{pkg}.GetThingRequest", f".{sub}.Thing", http=("get", "/v1/{name=things/*}", None)),
            method("DeleteThing", f".{pkg}.DeleteThingRequest", ".google.protobuf.Empty", http=("delete", "/v1/{name=things/*}", None)),
        ])],
        deps=common_names + ["google/example/bare/v1/types/thing.proto"],
    )
    specs.append(dict(
        name="bare-subpackage-rest", package=pkg, opts="transport=rest",
        files=common + [sub_file.SerializeToString(), top_file.SerializeToString()],
    ))

    # 5. comment edge shapes only: short, whitespace, unbreakable, endings.
    pkg = "google.example.edge.v1"
    edge_texts = [
        " x", " \n", "\n leading blank\n", " ends with colon:", " a:\n b:\n c", " " + "y" * 150,
        ' "', ' ""', ' """', " \\", " tab\tseparated\twords that go on for quite a while so that wrapping is needed somewhere along the way\tend",
        " - only a list item", " 1. numbered only", " 1.", " - ", " text\n\n\n\n more text after many blank lines\n",
        " short\n lines\n all\n the\n way\n", " trailing spaces   \n and more   \n",
        " A line that is exactly around the three quarter mark of the width ok\n next line follows right after it\n",
        " Non-ASCII caf\u00e9 na\u00efve \u2014 dash and\u00a0no-break space.",
    ]
    fields = [field(f"f{i}", i + 1) for i in range(len(edge_texts))]
    comments = [([4, 0, 2, i], {"leading_comments": t}) for i, t in enumerate(edge_texts)]
    comments += [([4, 1, 2, i], {"trailing_comments": t + " `m`"}) for i, t in enumerate(edge_texts)]
    msgs = [message("Edge", fields), message("EdgeMarkup", [field(f"g{i}", i + 1) for i in range(len(edge_texts))])]
    svc = service("Edges", [method(f"Do{i}", f".{pkg}.Edge", f".{pkg}.EdgeMarkup") for i in range(len(edge_texts))])
    comments += [([6, 0, 2, i], {"leading_comments": t}) for i, t in enumerate(edge_texts)]
    specs.append(dict(
        name="edge-comments", package=pkg, opts="",
        files=common + [proto_file("google/example/edge/v1/edge.proto", pkg, msgs, [svc], comments=comments).SerializeToString()],
    ))
    return specs


# ---------------------------------------------------------------------------
# Driver
# ---------------------------------------------------------------------------
def main(checkout):
    checkout = os.path.realpath(checkout)
    tmp = tempfile.mkdtemp(prefix="twin-W20-demo-")
    try:
        pristine = os.path.join(tmp, "pristine")
        os.mkdir(pristine)
        archive = subprocess.Popen(["git", "-C", checkout, "archive", "HEAD"], stdout=subprocess.PIPE)
        subprocess.check_call(["tar", "-x", "-C", pristine], stdin=archive.stdout)
        archive.stdout.close()
        assert archive.wait() == 0

        specs_path = os.path.join(tmp, "specs.pkl")
        with open(specs_path, "wb") as fh:
            pickle.dump(build_specs(), fh)

        outputs = {}
        env = dict(os.environ, PYTHONDONTWRITEBYTECODE="1", PYTHONHASHSEED="0")
        env.pop("PYTHONPATH", None)
        for label, tree in (("pristine", pristine), ("changed", checkout)):
            out_path = os.path.join(tmp, f"{label}.pkl")
            subprocess.check_call(
                [sys.executable, os.path.abspath(__file__), "--worker", tree, specs_path, out_path],
                env=env, cwd=tmp,
            )
            with open(out_path, "rb") as fh:
                outputs[label] = pickle.load(fh)

        differing = []
        total = 0
        for spec_name in sorted(set(outputs["pristine"]) | set(outputs["changed"])):
            a = outputs["pristine"].get(spec_name, {})
            b = outputs["changed"].get(spec_name, {})
            assert a, spec_name
            for fname in sorted(set(a) | set(b)):
                total += 1
                if fname not in a:
                    differing.append(f"{spec_name}: {fname} only with the change")
                elif fname not in b:
                    differing.append(f"{spec_name}: {fname} only in pristine")
                elif a[fname].encode("utf-8") != b[fname].encode("utf-8"):
                    differing.append(f"{spec_name}: {fname} differs")
        if differing:
            print(f"DIFFERENT: {len(differing)} of {total} files differ")
            for line in differing:
                print("  " + line)
            return 1
        print(f"IDENTICAL: {len(outputs['pristine'])} APIs, {total} generated files byte-identical between pristine HEAD and changed tree")
        return 0
    finally:
        shutil.rmtree(tmp, ignore_errors=True)


if __name__ == "__main__":
    if len(sys.argv) == 5 and sys.argv[1] == "--worker":
        worker(sys.argv[2], sys.argv[3], sys.argv[4])
        sys.exit(0)
    if len(sys.argv) != 2:
        print(__doc__)
        sys.exit(2)
    sys.exit(main(sys.argv[1]))
