#!/usr/bin/env python
"""Twin U07 (property C07, pagination): the refactoring must not change the generator's output.

Usage:  /venv/bin/python demo.py <path-to-a-checkout-with-the-change>

* "pristine" tree  = `git archive HEAD` of the checkout (the code before the change)
* "modified" tree  = a copy of the checkout's working tree (gapic/ only is needed)
Both trees generate the same set of API descriptions in separate subprocesses;
every output file (name and content) is compared byte for byte.
Exit 0 + one summary line when identical, exit 1 + list of differing files otherwise.
"""
import hashlib
import os
import pickle
import shutil
import subprocess
import sys
import tempfile

# --------------------------------------------------------------------------- #
# Worker: runs inside a subprocess with exactly one `gapic` tree importable.
# --------------------------------------------------------------------------- #
WORKER = r'''
import importlib, os, pickle, sys

tree, in_path, out_path = sys.argv[1:4]
tree = os.path.realpath(tree)

# 1. The tree under test goes FIRST; drop everything else that could provide `gapic`
#    (the venv has an editable install of another checkout).
def _provides_gapic(p):
    if "__editable__" in p:
        return True
    try:
        return os.path.isdir(os.path.join(p or os.getcwd(), "gapic"))
    except OSError:
        return False

sys.path[:] = [tree] + [p for p in sys.path if os.path.realpath(p or ".") != tree and not _provides_gapic(p)]
sys.meta_path[:] = [f for f in sys.meta_path if "editable" not in (getattr(f, "__module__", "") + repr(f)).lower()]
sys.path_hooks[:] = [h for h in sys.path_hooks if "editable" not in (getattr(h, "__module__", "") + repr(h)).lower()]
sys.path_importer_cache.clear()
for name in [m for m in sys.modules if m == "gapic" or m.startswith("gapic.")]:
    del sys.modules[name]
importlib.invalidate_caches()

# 2. pandoc is not installed: stub pypandoc.convert_text identically for both runs.
import pypandoc
def _convert_text(text, to, format=None, extra_args=(), **kw):
    return "<<rst " + " ".join(extra_args) + ">> " + text
pypandoc.convert_text = _convert_text

from google.protobuf import descriptor_pb2
from gapic.schema import api as gapic_api
from gapic.generator import generator as gapic_generator
from gapic.utils import Options

# 2b. The generator post-processes every rendering with formatter.fix_whitespace (which collapses
#     runs of blank lines). Record the RAW renderings too, so that whitespace-only differences
#     that the post-processing would hide are still compared.
from gapic.generator import formatter as gapic_formatter
assert gapic_generator.formatter is gapic_formatter
_raw = []
_orig_fix_whitespace = gapic_formatter.fix_whitespace
def _recording_fix_whitespace(code):
    _raw.append(code)
    return _orig_fix_whitespace(code)
gapic_formatter.fix_whitespace = _recording_fix_whitespace

with open(in_path, "rb") as fh:
    cases = pickle.load(fh)

results = {}
for case in cases:
    fds = [descriptor_pb2.FileDescriptorProto.FromString(b) for b in case["files"]]
    opts = Options.build(case["opts"])
    for t in opts.templates:
        assert os.path.realpath(t).startswith(tree + os.sep), ("template dir outside tree", t, tree)
    schema = gapic_api.API.build(fds, package=case["package"], opts=opts)
    resp = gapic_generator.Generator(opts).get_response(schema, opts)
    out = {}
    for f in resp.file:
        assert f.name not in out, ("duplicate output file", f.name)
        out[f.name] = f.content
    assert len(_raw) >= len(out)
    for i, code in enumerate(_raw):
        out["__raw_render__/%04d" % i] = code
    del _raw[:]
    results[case["name"]] = out

# 3. Every gapic module that got loaded must come from the tree under test.
for name, mod in list(sys.modules.items()):
    if name == "gapic" or name.startswith("gapic."):
        origin = getattr(mod, "__file__", None) or list(getattr(mod, "__path__", ["?"]))[0]
        assert os.path.realpath(origin).startswith(tree + os.sep), (name, origin, tree)

with open(out_path, "wb") as fh:
    pickle.dump(results, fh)
'''

# --------------------------------------------------------------------------- #
# Descriptor construction (parent process; never imports gapic).
# --------------------------------------------------------------------------- #
from google.protobuf import descriptor_pb2 as dp  # noqa: E402
from google.protobuf import descriptor_pool  # noqa: E402
from google.api import annotations_pb2, client_pb2, field_behavior_pb2, resource_pb2  # noqa: E402,F401
from google.longrunning import operations_pb2  # noqa: E402
from google.cloud import extended_operations_pb2 as ex_ops_pb2  # noqa: E402
from google.protobuf import empty_pb2, wrappers_pb2, struct_pb2  # noqa: E402,F401

F = dp.FieldDescriptorProto
OPT, REP = F.LABEL_OPTIONAL, F.LABEL_REPEATED
STR, I32, I64, U32, BOOL, MSG, ENUM, DBL = (
    F.TYPE_STRING, F.TYPE_INT32, F.TYPE_INT64, F.TYPE_UINT32, F.TYPE_BOOL,
    F.TYPE_MESSAGE, F.TYPE_ENUM, F.TYPE_DOUBLE,
)


def fld(name, number, typ, label=OPT, type_name=None, oneof=None, proto3_optional=False, op_field=None,
        op_request_field=None, op_response_field=None, required=False):
    f = F(name=name, number=number, type=typ, label=label, json_name=name)
    if type_name:
        f.type_name = type_name
    if oneof is not None:
        f.oneof_index = oneof
    if proto3_optional:
        f.proto3_optional = True
    if op_field is not None:
        f.options.Extensions[ex_ops_pb2.operation_field] = op_field
    if op_request_field:
        f.options.Extensions[ex_ops_pb2.operation_request_field] = op_request_field
    if op_response_field:
        f.options.Extensions[ex_ops_pb2.operation_response_field] = op_response_field
    if required:
        f.options.Extensions[field_behavior_pb2.field_behavior].append(field_behavior_pb2.REQUIRED)
    return f


def msg(name, fields=(), nested=(), enums=(), oneofs=(), resource=None):
    m = dp.DescriptorProto(name=name)
    m.field.extend(fields)
    m.nested_type.extend(nested)
    m.enum_type.extend(enums)
    for o in oneofs:
        m.oneof_decl.add(name=o)
    if resource:
        r = m.options.Extensions[resource_pb2.resource]
        r.type, pattern = resource
        r.pattern.append(pattern)
    return m


def map_entry(name, value_type, value_type_name=None):
    m = dp.DescriptorProto(name=name)
    m.field.append(fld("key", 1, STR))
    m.field.append(fld("value", 2, value_type, type_name=value_type_name))
    m.options.map_entry = True
    return m


def enum(name, *values):
    e = dp.EnumDescriptorProto(name=name)
    for i, v in enumerate(values):
        e.value.add(name=v, number=i)
    return e


def rpc(name, inp, out, http=None, sigs=(), cs=False, ss=False, lro=None, op_service=None, polling=False,
        deprecated=False):
    m = dp.MethodDescriptorProto(name=name, input_type=inp, output_type=out,
                                 client_streaming=cs, server_streaming=ss)
    if http:
        verb, path, body = http
        rule = m.options.Extensions[annotations_pb2.http]
        setattr(rule, verb, path)
        if body:
            rule.body = body
    for s in sigs:
        m.options.Extensions[client_pb2.method_signature].append(s)
    if lro:
        info = m.options.Extensions[operations_pb2.operation_info]
        info.response_type, info.metadata_type = lro
    if op_service:
        m.options.Extensions[ex_ops_pb2.operation_service] = op_service
    if polling:
        m.options.Extensions[ex_ops_pb2.operation_polling_method] = True
    if deprecated:
        m.options.deprecated = True
    return m


def svc(name, methods, host="example.googleapis.com", scopes="https://www.googleapis.com/auth/cloud-platform"):
    s = dp.ServiceDescriptorProto(name=name)
    s.method.extend(methods)
    if host:
        s.options.Extensions[client_pb2.default_host] = host
    if scopes:
        s.options.Extensions[client_pb2.oauth_scopes] = scopes
    return s


def fdp(name, package, deps=(), messages=(), services=(), enums=(), comments=None):
    fd = dp.FileDescriptorProto(name=name, package=package, syntax="proto3")
    fd.dependency.extend(deps)
    fd.message_type.extend(messages)
    fd.service.extend(services)
    fd.enum_type.extend(enums)
    for path, text in (comments or {}).items():
        loc = fd.source_code_info.location.add()
        loc.path.extend(path)
        loc.leading_comments = text
    return fd


def with_deps(files):
    """Prepend the transitive well-known dependencies (from the default pool), dependency-first."""
    own = {f.name for f in files}
    pool = descriptor_pool.Default()
    ordered, seen = [], set()

    def visit(name):
        if name in seen or name in own:
            return
        seen.add(name)
        fd = pool.FindFileByName(name)
        for d in fd.dependencies:
            visit(d.name)
        ordered.append(dp.FileDescriptorProto.FromString(fd.serialized_pb))

    for f in files:
        for d in f.dependency:
            visit(d)
    return [f.SerializeToString(deterministic=True) for f in ordered + list(files)]


ANN = "google/api/annotations.proto"
CLI = "google/api/client.proto"
FB = "google/api/field_behavior.proto"
RES = "google/api/resource.proto"
LRO = "google/longrunning/operations.proto"
EMPTY = "google/protobuf/empty.proto"
WRAP = "google/protobuf/wrappers.proto"
EXOPS = "google/cloud/extended_operations.proto"


def case_library():
    """Classic AIP-158 paging next to unary / streaming / void / LRO methods; gRPC + REST; docs with markup."""
    p = ".google.example.library.v1."
    messages = [
        msg("Book", [fld("name", 1, STR), fld("title", 2, STR), fld("class", 3, STR)],
            resource=("library.example.com/Book", "shelves/{shelf}/books/{book}")),
        msg("ListBooksRequest", [fld("parent", 1, STR, required=True), fld("page_size", 2, I32),
                                 fld("page_token", 3, STR), fld("filter", 4, STR)]),
        msg("ListBooksResponse", [fld("books", 1, MSG, REP, p + "Book"), fld("next_page_token", 2, STR),
                                  fld("unreachable", 3, STR, REP)]),
        msg("GetBookRequest", [fld("name", 1, STR)]),
        msg("DeleteBookRequest", [fld("name", 1, STR)]),
        msg("WriteBookMetadata", [fld("progress", 1, I32)]),
        # Looks paged but streams: client_streaming + paged_result_field at once.
        msg("StreamBooksRequest", [fld("page_size", 1, I32), fld("page_token", 2, STR)]),
    ]
    methods = [
        rpc("ListBooks", p + "ListBooksRequest", p + "ListBooksResponse",
            http=("get", "/v1/{parent=shelves/*}/books", None), sigs=["parent", "parent,filter"]),
        rpc("GetBook", p + "GetBookRequest", p + "Book", http=("get", "/v1/{name=shelves/*/books/*}", None),
            sigs=["name"]),
        rpc("DeleteBook", p + "DeleteBookRequest", ".google.protobuf.Empty",
            http=("delete", "/v1/{name=shelves/*/books/*}", None), sigs=["name"]),
        rpc("WriteBook", p + "GetBookRequest", ".google.longrunning.Operation",
            http=("post", "/v1/{name=shelves/*/books/*}:write", "*"), lro=("Book", "WriteBookMetadata")),
        rpc("WatchBooks", p + "ListBooksRequest", p + "ListBooksResponse", ss=True,
            http=("get", "/v1/{parent=shelves/*}/books:watch", None)),
        rpc("UploadBooks", p + "StreamBooksRequest", p + "ListBooksResponse", cs=True),
        rpc("ChatBooks", p + "StreamBooksRequest", p + "ListBooksResponse", cs=True, ss=True),
    ]
    comments = {
        (4, 1): "Request for `ListBooks`.\n\n* one\n* two",
        (4, 2): "Response of [ListBooks][google.example.library.v1.Library.ListBooks].",
        (6, 0): "The *library* service.",
        (6, 0, 2, 0): "Lists books in a shelf. Uses `page_token`.",
    }
    fd = fdp("google/example/library/v1/library.proto", "google.example.library.v1",
             [ANN, CLI, FB, RES, LRO, EMPTY], messages, [svc("Library", methods, host="library.googleapis.com")],
             comments=comments)
    return dict(name="library-default", package="google.example.library.v1", opts="", files=with_deps([fd]))


def case_legacy():
    """Legacy max_results (+ wrapper types), map / scalar item fields, near misses; grpc only, no snippets."""
    p = ".acme.legacy.v2."
    messages = [
        msg("Item", [fld("id", 1, I64), fld("from", 2, STR)]),
        # max_results as UInt32Value, result is a map
        msg("ListMapRequest", [fld("max_results", 1, MSG, type_name=".google.protobuf.UInt32Value"),
                               fld("page_token", 2, STR), fld("project", 3, STR)]),
        msg("ListMapResponse", [fld("next_page_token", 1, STR),
                                fld("items", 2, MSG, REP, p + "ListMapResponse.ItemsEntry"),
                                fld("more", 3, MSG, REP, p + "Item")],
            nested=[map_entry("ItemsEntry", MSG, p + "Item")]),
        # both max_results (int32) and page_size present; repeated scalar items
        msg("ListNamesRequest", [fld("page_size", 1, I32), fld("max_results", 2, I32), fld("page_token", 3, STR)]),
        msg("ListNamesResponse", [fld("next_page_token", 1, STR), fld("names", 2, STR, REP),
                                  fld("items", 3, MSG, REP, p + "Item")]),
        # Int32Value wrapper for max_results
        msg("ListWrappedRequest", [fld("max_results", 1, MSG, type_name=".google.protobuf.Int32Value"),
                                   fld("page_token", 2, STR)]),
        msg("ListWrappedResponse", [fld("items", 1, MSG, REP, p + "Item"), fld("next_page_token", 2, STR)]),
        # near misses (not paged)
        msg("BadTokenRequest", [fld("page_size", 1, I32), fld("page_token", 2, I32)]),
        msg("BadSizeRequest", [fld("page_size", 1, STR), fld("page_token", 2, STR)]),
        msg("BoolWrapRequest", [fld("max_results", 1, MSG, type_name=".google.protobuf.BoolValue"),
                                fld("page_token", 2, STR)]),
        msg("NoSizeRequest", [fld("page_token", 2, STR)]),
        msg("NoRepeatedResponse", [fld("item", 1, MSG, type_name=p + "Item"), fld("next_page_token", 2, STR)]),
        msg("NoNextTokenResponse", [fld("items", 1, MSG, REP, p + "Item")]),
    ]
    methods = [
        rpc("ListMap", p + "ListMapRequest", p + "ListMapResponse", sigs=["project"]),
        rpc("ListNames", p + "ListNamesRequest", p + "ListNamesResponse"),
        rpc("ListWrapped", p + "ListWrappedRequest", p + "ListWrappedResponse", deprecated=True),
        rpc("BadToken", p + "BadTokenRequest", p + "ListWrappedResponse"),
        rpc("BadSize", p + "BadSizeRequest", p + "ListWrappedResponse"),
        rpc("BoolWrap", p + "BoolWrapRequest", p + "ListWrappedResponse"),
        rpc("NoSize", p + "NoSizeRequest", p + "ListWrappedResponse"),
        rpc("NoRepeated", p + "ListWrappedRequest", p + "NoRepeatedResponse"),
        rpc("NoNextToken", p + "ListWrappedRequest", p + "NoNextTokenResponse"),
        rpc("VoidPaged", p + "ListWrappedRequest", ".google.protobuf.Empty"),
    ]
    fd = fdp("acme/legacy/v2/legacy.proto", "acme.legacy.v2", [CLI, WRAP, EMPTY], messages,
             [svc("Legacy", methods), svc("Unpaged", [rpc("Ping", p + "Item", p + "Item")])])
    return dict(name="legacy-grpc-nosnippets", package="acme.legacy.v2",
                opts="transport=grpc,autogen-snippets=false", files=with_deps([fd]))


def case_subpackages():
    """Sub-packages, several services, items from another file, reserved words, oneofs; REST only, numeric enums."""
    common = fdp("corp/fleet/v1/common/things.proto", "corp.fleet.v1.common", [],
                 [msg("Thing", [fld("name", 1, STR), fld("kind", 2, ENUM, type_name=".corp.fleet.v1.common.Kind")])],
                 enums=[enum("Kind", "KIND_UNSPECIFIED", "SMALL", "LARGE")])
    p = ".corp.fleet.v1.inventory."
    inv_messages = [
        msg("ImportRequest", [fld("page_size", 1, I32), fld("page_token", 2, STR),
                              fld("parent", 3, STR), fld("tags", 4, STR, REP),
                              fld("labels", 5, MSG, REP, p + "ImportRequest.LabelsEntry"),
                              fld("by_name", 6, STR, oneof=0), fld("by_id", 7, I64, oneof=0),
                              fld("hint", 8, STR, oneof=1, proto3_optional=True)],
            nested=[map_entry("LabelsEntry", STR)], oneofs=["selector", "_hint"]),
        msg("ImportResponse", [fld("next_page_token", 1, STR),
                               fld("things", 2, MSG, REP, ".corp.fleet.v1.common.Thing"),
                               fld("total", 3, I32)]),
        msg("ListKindsRequest", [fld("page_size", 1, I32), fld("page_token", 2, STR)]),
        msg("ListKindsResponse", [fld("scores", 1, DBL, REP), fld("kind", 3, ENUM, type_name=".corp.fleet.v1.common.Kind"),
                                  fld("next_page_token", 2, STR)]),
    ]
    inv = fdp("corp/fleet/v1/inventory/inventory.proto", "corp.fleet.v1.inventory",
              [ANN, CLI, "corp/fleet/v1/common/things.proto"], inv_messages,
              [svc("Inventory", [
                  rpc("Import", p + "ImportRequest", p + "ImportResponse",
                      http=("post", "/v1/{parent=fleets/*}/things:import", "*"), sigs=["parent,tags,labels"]),
                  rpc("ListKinds", p + "ListKindsRequest", p + "ListKindsResponse",
                      http=("get", "/v1/kinds", None)),
              ], host="fleet.example.com:8443"),
               svc("Yield", [
                   rpc("List", p + "ListKindsRequest", p + "ImportResponse", http=("get", "/v1/yield", None)),
               ], host="fleet.example.com")])
    q = ".corp.fleet.v1."
    top = fdp("corp/fleet/v1/fleet.proto", "corp.fleet.v1", [ANN, CLI, "corp/fleet/v1/common/things.proto"],
              [msg("ListFleetRequest", [fld("page_token", 1, STR), fld("page_size", 2, I32)]),
               msg("ListFleetResponse", [fld("next_page_token", 1, STR),
                                         fld("fleet", 2, MSG, REP, ".corp.fleet.v1.common.Thing")])],
              [svc("FleetService", [rpc("ListFleet", q + "ListFleetRequest", q + "ListFleetResponse",
                                        http=("get", "/v1/fleet", None))], host="fleet.example.com")])
    return dict(name="subpackages-rest-numeric", package="corp.fleet.v1",
                opts="transport=rest,rest-numeric-enums,autogen-snippets=false", files=with_deps([common, inv, top]))


def case_extended_lro():
    """Compute-style API: extended operations + legacy paged List in the same service; grpc+rest, old naming off."""
    p = ".cloudy.compute.v1."
    M = ex_ops_pb2
    messages = [
        msg("Operation", [fld("name", 1, STR, op_field=M.NAME),
                          fld("status", 2, ENUM, type_name=p + "Operation.Status", op_field=M.STATUS),
                          fld("http_error_status_code", 3, I32, op_field=M.ERROR_CODE),
                          fld("http_error_message", 4, STR, op_field=M.ERROR_MESSAGE),
                          fld("region", 5, STR)],
            enums=[enum("Status", "UNDEFINED_STATUS", "DONE", "PENDING", "RUNNING")]),
        msg("Address", [fld("name", 1, STR), fld("address", 2, STR)]),
        msg("InsertAddressRequest", [fld("project", 1, STR, op_request_field="project"),
                                     fld("region", 2, STR, op_request_field="region"),
                                     fld("address_resource", 3, MSG, type_name=p + "Address")]),
        msg("ListAddressesRequest", [fld("project", 1, STR), fld("region", 2, STR),
                                     fld("max_results", 3, U32), fld("page_token", 4, STR),
                                     fld("order_by", 5, STR, oneof=0, proto3_optional=True)],
            oneofs=["_order_by"]),
        msg("AddressList", [fld("id", 1, STR), fld("items", 2, MSG, REP, p + "Address"),
                            fld("next_page_token", 3, STR), fld("warnings", 4, STR, REP)]),
        msg("GetRegionOperationRequest", [fld("operation", 1, STR, op_response_field="name"),
                                          fld("project", 2, STR), fld("region", 3, STR)]),
        msg("ListRegionOperationsRequest", [fld("project", 1, STR), fld("region", 2, STR),
                                            fld("max_results", 3, U32), fld("page_token", 4, STR)]),
        msg("OperationList", [fld("items", 1, MSG, REP, p + "Operation"), fld("next_page_token", 2, STR)]),
    ]
    addresses = svc("Addresses", [
        rpc("Insert", p + "InsertAddressRequest", p + "Operation",
            http=("post", "/compute/v1/projects/{project}/regions/{region}/addresses", "address_resource"),
            sigs=["project,region,address_resource"], op_service="RegionOperations"),
        rpc("List", p + "ListAddressesRequest", p + "AddressList",
            http=("get", "/compute/v1/projects/{project}/regions/{region}/addresses", None),
            sigs=["project,region"]),
    ], host="compute.googleapis.com")
    region_ops = svc("RegionOperations", [
        rpc("Get", p + "GetRegionOperationRequest", p + "Operation",
            http=("get", "/compute/v1/projects/{project}/regions/{region}/operations/{operation}", None),
            sigs=["project,region,operation"], polling=True),
        rpc("List", p + "ListRegionOperationsRequest", p + "OperationList",
            http=("get", "/compute/v1/projects/{project}/regions/{region}/operations", None),
            sigs=["project,region"]),
    ], host="compute.googleapis.com")
    fd = fdp("cloudy/compute/v1/compute.proto", "cloudy.compute.v1", [ANN, CLI, EXOPS], messages,
             [addresses, region_ops])
    return dict(name="extended-lro-rest", package="cloudy.compute.v1", opts="transport=rest", files=with_deps([fd]))


def case_old_naming_both():
    """Old naming, explicit grpc+rest, metadata json, un-versioned package, two paged methods sharing messages."""
    p = ".solo.notes."
    messages = [
        msg("Note", [fld("text", 1, STR)]),
        msg("ListNotesRequest", [fld("page_size", 1, I32), fld("page_token", 2, STR), fld("request", 3, STR),
                                 fld("retry", 4, STR), fld("notes", 5, MSG, REP, p + "Note")]),
        msg("ListNotesResponse", [fld("notes", 1, MSG, REP, p + "Note"), fld("drafts", 2, MSG, REP, p + "Note"),
                                  fld("next_page_token", 3, STR)]),
    ]
    methods = [
        rpc("ListNotes", p + "ListNotesRequest", p + "ListNotesResponse", http=("get", "/notes", None),
            sigs=["request", "notes"]),
        rpc("SearchNotes", p + "ListNotesRequest", p + "ListNotesResponse", http=("post", "/notes:search", "*")),
    ]
    fd = fdp("solo/notes/notes.proto", "solo.notes", [ANN, CLI], messages, [svc("Notes", methods)])
    return dict(name="unversioned-oldnaming-metadata", package="solo.notes",
                opts="old-naming,metadata,transport=grpc+rest", files=with_deps([fd]))


CASES = [case_library, case_legacy, case_subpackages, case_extended_lro, case_old_naming_both]


# --------------------------------------------------------------------------- #
def run_worker(worker_py, tree, in_path, out_path, cwd):
    env = dict(os.environ)
    env.pop("PYTHONPATH", None)
    env["PYTHONHASHSEED"] = "0"
    env["PYTHONDONTWRITEBYTECODE"] = "1"
    proc = subprocess.run([sys.executable, worker_py, tree, in_path, out_path], cwd=cwd, env=env,
                          stdout=subprocess.PIPE, stderr=subprocess.STDOUT, text=True, timeout=600)
    if proc.returncode != 0:
        print(proc.stdout)
        raise SystemExit("worker failed for tree %s (exit %d)" % (tree, proc.returncode))
    with open(out_path, "rb") as fh:
        return pickle.load(fh)


def main(argv):
    if len(argv) != 2:
        print(__doc__)
        return 2
    checkout = os.path.realpath(argv[1])
    tmp = tempfile.mkdtemp(prefix="twin-U07-")
    try:
        pristine = os.path.join(tmp, "pristine")
        modified = os.path.join(tmp, "modified")
        os.makedirs(pristine)
        os.makedirs(modified)
        # pristine = HEAD of the checkout
        archive = subprocess.run(["git", "-C", checkout, "archive", "HEAD"], stdout=subprocess.PIPE, check=True)
        subprocess.run(["tar", "-x", "-C", pristine], input=archive.stdout, check=True)
        # modified = the working tree's generator sources (copied so that both runs are symmetric)
        shutil.copytree(os.path.join(checkout, "gapic"), os.path.join(modified, "gapic"),
                        ignore=shutil.ignore_patterns("__pycache__", "*.pyc"))

        cases = [c() for c in CASES]
        in_path = os.path.join(tmp, "cases.pickle")
        with open(in_path, "wb") as fh:
            pickle.dump(cases, fh)
        worker_py = os.path.join(tmp, "worker.py")
        with open(worker_py, "w") as fh:
            fh.write(WORKER)
        rundir = os.path.join(tmp, "cwd")
        os.makedirs(rundir)

        before = run_worker(worker_py, pristine, in_path, os.path.join(tmp, "before.pickle"), rundir)
        after = run_worker(worker_py, modified, in_path, os.path.join(tmp, "after.pickle"), rundir)

        changed_sources = [
            rel for rel in subprocess.run(["git", "-C", checkout, "diff", "--name-only", "HEAD"],
                                          stdout=subprocess.PIPE, text=True, check=True).stdout.split("\n") if rel
        ]

        diffs, nfiles, nraw, npagers, nwraps = [], 0, 0, 0, 0
        for case in cases:
            a, b = before[case["name"]], after[case["name"]]
            for name in sorted(set(a) | set(b)):
                if name not in a:
                    diffs.append("%s: %s only in modified output" % (case["name"], name))
                elif name not in b:
                    diffs.append("%s: %s only in pristine output" % (case["name"], name))
                elif a[name] != b[name]:
                    diffs.append("%s: %s differs" % (case["name"], name))
            nfiles += len([n for n in a if not n.startswith("__raw_render__/")])
            nraw += len([n for n in a if n.startswith("__raw_render__/")])
            for name, content in a.items():
                if name.endswith("pagers.py") and "Pager" in content:
                    npagers += 1
                if name.endswith("client.py") and not name.startswith("__raw_render__/"):
                    nwraps += content.count("# This method is paged; wrap the response in a pager")
        # sanity: the inputs really reach the refactored code
        assert npagers >= 6, npagers
        assert nwraps >= 12, nwraps

        digest = hashlib.sha256()
        for case in cases:
            for name in sorted(before[case["name"]]):
                digest.update(name.encode())
                digest.update(before[case["name"]][name].encode())
        if diffs:
            print("DIFFERENT: %d of %d outputs (files + raw renderings) differ" % (len(diffs), nfiles + nraw))
            for d in diffs:
                print("  " + d)
            return 1
        print("IDENTICAL: %d APIs, %d output files + %d raw template renderings (%d non-empty pagers modules, "
              "%d pager wrappings) byte-identical; "
              "changed sources: %s; sha256=%s" % (len(cases), nfiles, nraw, npagers, nwraps,
                                                  ",".join(os.path.basename(s) for s in changed_sources) or "none",
                                                  digest.hexdigest()[:16]))
        return 0
    finally:
        shutil.rmtree(tmp, ignore_errors=True)


if __name__ == "__main__":
    sys.exit(main(sys.argv))
