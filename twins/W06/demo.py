#!/venv/bin/python
"""Equivalence demo for the W06 refactoring (property C06, routing headers).

Usage:  /venv/bin/python demo.py <path-to-a-checkout-with-the-change> [--raw]

* exports the pristine HEAD of the checkout (`git archive HEAD`) into a
  temporary directory,
* builds several API descriptions that exercise the x-goog-request-params
  code (explicit `google.api.routing` rules of every shape, implicit routing
  from the http annotation, reserved words, nested fields, streaming, LRO,
  paging, several services, gRPC / REST transports, ...),
* runs the generator on each of them with BOTH trees, each run in its own
  subprocess so that the two copies of the `gapic` package never mix,
* compares all output files (names and bytes).

Exit code 0 and a one line summary when everything is identical, exit code 1
and a list of the differing files otherwise.

`--raw` (used during development only) additionally turns
`formatter.fix_whitespace` into the identity in both runs, i.e. compares the
raw template renderings.
"""
import hashlib
import os
import pickle
import shutil
import subprocess
import sys
import tempfile


# --------------------------------------------------------------------------
# Worker: runs inside a subprocess, with exactly one tree importable.
# --------------------------------------------------------------------------
def _isolate(tree):
    """Make `tree` the only provider of the `gapic` package."""
    tree = os.path.realpath(tree)
    # Drop the editable-install finder of the venv (it serves /repo's gapic).
    sys.meta_path[:] = [
        finder
        for finder in sys.meta_path
        if "editable" not in (type(finder).__name__ + getattr(finder, "__name__", "")).lower()
        and "editable" not in str(getattr(finder, "__module__", "")).lower()
    ]
    sys.path_hooks[:] = [
        hook for hook in sys.path_hooks if "editable" not in repr(hook).lower()
    ]
    kept = []
    for entry in sys.path:
        if "__editable__" in entry:
            continue
        probe = entry or os.getcwd()
        if os.path.isdir(os.path.join(probe, "gapic")) and os.path.realpath(probe) != tree:
            continue
        if entry == "":
            continue
        kept.append(entry)
    sys.path[:] = [tree] + [e for e in kept if os.path.realpath(e) != tree]
    sys.path_importer_cache.clear()
    for name in list(sys.modules):
        if name == "gapic" or name.startswith("gapic."):
            del sys.modules[name]
    return tree


def _std_file_protos():
    """FileDescriptorProtos of all the well-known / google.api imports."""
    from google.protobuf import descriptor_pb2
    from google.api import annotations_pb2, client_pb2, field_behavior_pb2
    from google.api import resource_pb2, routing_pb2, field_info_pb2
    from google.longrunning import operations_pb2
    from google.protobuf import empty_pb2, field_mask_pb2, timestamp_pb2, struct_pb2

    seen = {}

    def visit(fd):
        if fd.name in seen:
            return
        for dep in fd.dependencies:
            visit(dep)
        seen[fd.name] = descriptor_pb2.FileDescriptorProto.FromString(fd.serialized_pb)

    for mod in (
        annotations_pb2,
        client_pb2,
        field_behavior_pb2,
        resource_pb2,
        routing_pb2,
        field_info_pb2,
        operations_pb2,
        empty_pb2,
        field_mask_pb2,
        timestamp_pb2,
        struct_pb2,
    ):
        visit(mod.DESCRIPTOR)
    return list(seen.values())


class _B:
    """A tiny FileDescriptorProto builder."""

    def __init__(self, name, package, deps=()):
        from google.protobuf import descriptor_pb2

        self.pb2 = descriptor_pb2
        self.fd = descriptor_pb2.FileDescriptorProto(
            name=name, package=package, syntax="proto3"
        )
        self.fd.dependency.extend(
            [
                "google/api/annotations.proto",
                "google/api/client.proto",
                "google/api/field_behavior.proto",
                "google/api/resource.proto",
                "google/api/routing.proto",
                "google/api/field_info.proto",
                "google/longrunning/operations.proto",
                "google/protobuf/empty.proto",
                "google/protobuf/field_mask.proto",
                "google/protobuf/struct.proto",
            ]
        )
        self.fd.dependency.extend(deps)
        self.package = package

    # field spec: (name, type[, label][, extra-dict])
    def message(self, name, fields, oneofs=(), nested=None):
        F = self.pb2.FieldDescriptorProto
        msg = self.fd.message_type.add(name=name)
        for oneof in oneofs:
            msg.oneof_decl.add(name=oneof)
        for number, spec in enumerate(fields, start=1):
            fname, ftype = spec[0], spec[1]
            extra = {}
            label = F.LABEL_OPTIONAL
            for item in spec[2:]:
                if isinstance(item, dict):
                    extra = item
                elif item == "repeated":
                    label = F.LABEL_REPEATED
            f = msg.field.add(name=fname, number=number, label=label)
            scalar = {
                "string": F.TYPE_STRING,
                "int32": F.TYPE_INT32,
                "int64": F.TYPE_INT64,
                "bool": F.TYPE_BOOL,
                "bytes": F.TYPE_BYTES,
                "double": F.TYPE_DOUBLE,
            }
            if ftype in scalar:
                f.type = scalar[ftype]
            elif ftype.startswith("enum:"):
                f.type = F.TYPE_ENUM
                f.type_name = ftype[5:]
            else:
                f.type = F.TYPE_MESSAGE
                f.type_name = ftype
            if "oneof" in extra:
                f.oneof_index = extra["oneof"]
            if extra.get("optional"):
                f.proto3_optional = True
                msg.oneof_decl.add(name="_" + fname)
                f.oneof_index = len(msg.oneof_decl) - 1
            if extra.get("required"):
                from google.api import field_behavior_pb2

                f.options.Extensions[field_behavior_pb2.field_behavior].append(
                    field_behavior_pb2.REQUIRED
                )
            if extra.get("uuid4"):
                from google.api import field_info_pb2

                f.options.Extensions[field_info_pb2.field_info].format = (
                    field_info_pb2.FieldInfo.UUID4
                )
            if "json_name" in extra:
                f.json_name = extra["json_name"]
        if nested:
            nested(msg)
        return msg

    def map_field(self, msg, name, number, value_type="string"):
        F = self.pb2.FieldDescriptorProto
        entry_name = "".join(p.capitalize() for p in name.split("_")) + "Entry"
        entry = msg.nested_type.add(name=entry_name)
        entry.options.map_entry = True
        entry.field.add(name="key", number=1, type=F.TYPE_STRING, label=F.LABEL_OPTIONAL)
        entry.field.add(name="value", number=2, type=F.TYPE_STRING, label=F.LABEL_OPTIONAL)
        msg.field.add(
            name=name,
            number=number,
            type=F.TYPE_MESSAGE,
            label=F.LABEL_REPEATED,
            type_name=f".{self.package}.{msg.name}.{entry_name}",
        )

    def enum(self, name, values):
        e = self.fd.enum_type.add(name=name)
        for i, v in enumerate(values):
            e.value.add(name=v, number=i)

    def resource(self, msg, rtype, pattern):
        from google.api import resource_pb2

        res = msg.options.Extensions[resource_pb2.resource]
        res.type = rtype
        res.pattern.append(pattern)

    def service(self, name, host="example.googleapis.com", version=None, scopes=None):
        from google.api import client_pb2

        svc = self.fd.service.add(name=name)
        svc.options.Extensions[client_pb2.default_host] = host
        if scopes:
            svc.options.Extensions[client_pb2.oauth_scopes] = scopes
        if version:
            svc.options.Extensions[client_pb2.api_version] = version
        return svc

    def method(
        self,
        svc,
        name,
        inp,
        out,
        http=None,
        routing=None,
        signatures=(),
        client_streaming=False,
        server_streaming=False,
        lro=None,
        deprecated=False,
    ):
        from google.api import annotations_pb2, client_pb2, routing_pb2
        from google.longrunning import operations_pb2

        m = svc.method.add(
            name=name,
            input_type=inp,
            output_type=out,
            client_streaming=client_streaming,
            server_streaming=server_streaming,
        )
        if http is not None:
            rule = m.options.Extensions[annotations_pb2.http]
            self._fill_http(rule, http)
        if routing is not None:
            rr = m.options.Extensions[routing_pb2.routing]
            for field, template in routing:
                rr.routing_parameters.add(field=field, path_template=template)
        for sig in signatures:
            m.options.Extensions[client_pb2.method_signature].append(sig)
        if lro:
            info = m.options.Extensions[operations_pb2.operation_info]
            info.response_type, info.metadata_type = lro
        if deprecated:
            m.options.deprecated = True
        return m

    def _fill_http(self, rule, http):
        verb, path = http["verb"], http["path"]
        if verb == "custom":
            rule.custom.kind = http.get("kind", "fetch")
            rule.custom.path = path
        else:
            setattr(rule, verb, path)
        if "body" in http:
            rule.body = http["body"]
        for extra in http.get("additional", ()):
            self._fill_http(rule.additional_bindings.add(), extra)


def _api_routing(package="google.example.routing.v1"):
    """Every shape of explicit routing rule + implicit routing, one service."""
    b = _B("google/example/routing/v1/routing.proto", package)
    P = "." + package
    b.message("Inner", [("name", "string"), ("class", "string"), ("region", "string")])
    b.message("Outer", [("inner", P + ".Inner"), ("from", P + ".Inner"), ("id", "string")])
    b.message(
        "RouteRequest",
        [
            ("name", "string"),
            ("table_name", "string"),
            ("app_profile_id", "string"),
            ("class", "string"),
            ("from", "string"),
            ("outer", P + ".Outer"),
            ("parent", "string"),
            ("routing_id", "string"),
            ("in", P + ".Outer"),
        ],
    )
    b.message("RouteResponse", [("value", "string")])
    svc = b.service("Router", scopes="https://www.googleapis.com/auth/cloud-platform")
    req, resp = P + ".RouteRequest", P + ".RouteResponse"

    # explicit routing
    b.method(svc, "NoTemplate", req, resp, routing=[("app_profile_id", "")],
             http={"verb": "get", "path": "/v1/{name=projects/*}"})
    b.method(svc, "SingleStar", req, resp, routing=[("app_profile_id", "{routing_id=*}")])
    b.method(svc, "DoubleStar", req, resp, routing=[("app_profile_id", "{routing_id=**}")],
             http={"verb": "post", "path": "/v1/{parent=projects/*}/routes", "body": "*"})
    b.method(svc, "PrefixSuffix", req, resp, routing=[
        ("table_name", "{table_name=projects/*/instances/*/**}"),
        ("table_name", "projects/*/{instance_id=instances/*}/**"),
        ("table_name", "{project_id=projects/*}/instances/*/**"),
        ("table_name", "projects/*/instances/{instance=*}/tables/*"),
    ])
    b.method(svc, "SharedKey", req, resp, routing=[
        ("table_name", "{routing_id=projects/*}/**"),
        ("table_name", "{routing_id=regions/*}/**"),
        ("app_profile_id", "{routing_id=**}"),
        ("name", ""),
        ("name", "{name=shelves/*/books/*}"),
    ], signatures=["name,table_name"])
    b.method(svc, "Nested", req, resp, routing=[
        ("outer.inner.name", "{inner_name=**}"),
        ("outer.inner.region", ""),
        ("outer.id", "ids/{id=*}"),
    ])
    b.method(svc, "Reserved", req, resp, routing=[
        ("class", ""),
        ("from", "{from=*}"),
        ("outer.inner.class", "{klass=classes/*}"),
        ("outer.from.name", ""),
        ("in.from.class", "{in=**}"),
    ])
    b.method(svc, "DeepTemplate", req, resp, routing=[
        ("table_name", "{t=projects/*/databases/**/tables/*}"),
        ("parent", "a/b/{c=d/*/e}/f/**"),
    ])
    b.method(svc, "RoutedUpload", req, resp, routing=[("name", "{name=**}")],
             client_streaming=True)
    b.method(svc, "RoutedWatch", req, resp, routing=[("name", ""), ("parent", "{p=*}")],
             server_streaming=True)
    b.method(svc, "RoutedChat", req, resp, routing=[("name", "")],
             client_streaming=True, server_streaming=True)

    # implicit routing
    b.method(svc, "ImplicitGet", req, resp,
             http={"verb": "get", "path": "/v1/{name=projects/*/things/*}"},
             signatures=["name"])
    b.method(svc, "ImplicitTwo", req, resp,
             http={"verb": "post", "path": "/v1/{parent=projects/*}/things/{routing_id}:do",
                   "body": "*"})
    b.method(svc, "ImplicitDotted", req, resp,
             http={"verb": "patch", "path": "/v1/{outer.inner.name=projects/*}",
                   "body": "outer"})
    b.method(svc, "ImplicitReserved", req, resp,
             http={"verb": "delete",
                   "path": "/v1/{class=classes/*}/{from}/{outer.from.class}/{in.inner.name=**}"})
    b.method(svc, "ImplicitAdditional", req, resp,
             http={"verb": "get", "path": "/v1/{table_name=tables/*}",
                   "additional": [{"verb": "get", "path": "/v1/{name=projects/*}/x"}]})
    b.method(svc, "ImplicitCustom", req, resp,
             http={"verb": "custom", "kind": "fetch", "path": "/v1/{name=projects/*}:fetch"})
    b.method(svc, "ImplicitPut", req, resp,
             http={"verb": "put", "path": "/v1/{name}/{name}", "body": "*"})
    b.method(svc, "NoVariables", req, resp, http={"verb": "get", "path": "/v1/things"})
    b.method(svc, "NoAnnotation", req, resp)
    b.method(svc, "ImplicitUpload", req, resp, client_streaming=True,
             http={"verb": "post", "path": "/v1/{name=projects/*}:upload", "body": "*"})
    b.method(svc, "ImplicitWatch", req, resp, server_streaming=True,
             http={"verb": "get", "path": "/v1/{name=projects/*}:watch"})
    b.method(svc, "ImplicitChat", req, resp, client_streaming=True, server_streaming=True)
    return [b.fd], package


def _api_library(package="google.example.library.v1"):
    """Two services in two files: LRO, paging, void, maps/repeated/oneofs,
    flattening, resources, api version, uuid4 auto population."""
    P = "." + package
    b = _B("google/example/library/v1/library.proto", package)
    b.enum("Genre", ["GENRE_UNSPECIFIED", "FICTION", "POETRY"])
    shelf = b.message("Shelf", [("name", "string"), ("theme", "string")])
    b.resource(shelf, "library.example.com/Shelf", "shelves/{shelf}")
    book = b.message(
        "Book",
        [
            ("name", "string"),
            ("author", "string"),
            ("genre", "enum:" + P + ".Genre"),
            ("tags", "string", "repeated"),
            ("isbn", "string", {"oneof": 0}),
            ("serial", "int64", {"oneof": 0}),
            ("class", "string"),
        ],
        oneofs=["identifier"],
    )
    b.map_field(book, "labels", 20)
    b.resource(book, "library.example.com/Book", "shelves/{shelf}/books/{book}")
    b.message("GetBookRequest", [("name", "string", {"required": True})])
    b.message(
        "ListBooksRequest",
        [("parent", "string"), ("page_size", "int32"), ("page_token", "string"),
         ("filter", "string", {"optional": True})],
    )
    b.message("ListBooksResponse",
              [("books", P + ".Book", "repeated"), ("next_page_token", "string")])
    create = b.message(
        "CreateBookRequest",
        [("parent", "string"), ("book", P + ".Book"), ("request_id", "string", {"uuid4": True}),
         ("tags", "string", "repeated")],
    )
    b.map_field(create, "annotations", 9)
    b.message("UpdateBookRequest",
              [("book", P + ".Book"), ("update_mask", ".google.protobuf.FieldMask")])
    b.message("DeleteBookRequest", [("name", "string"), ("force", "bool")])
    b.message("MoveBookRequest", [("name", "string"), ("other_shelf_name", "string")])
    b.message("MoveBookMetadata", [("progress", "int32")])
    svc = b.service("Library", host="library.example.com", version="2024-05-01",
                    scopes="https://www.googleapis.com/auth/cloud-platform,"
                           "https://www.googleapis.com/auth/books")
    b.method(svc, "GetBook", P + ".GetBookRequest", P + ".Book",
             http={"verb": "get", "path": "/v1/{name=shelves/*/books/*}"}, signatures=["name"])
    b.method(svc, "ListBooks", P + ".ListBooksRequest", P + ".ListBooksResponse",
             http={"verb": "get", "path": "/v1/{parent=shelves/*}/books"},
             signatures=["parent"])
    b.method(svc, "CreateBook", P + ".CreateBookRequest", P + ".Book",
             http={"verb": "post", "path": "/v1/{parent=shelves/*}/books", "body": "book"},
             signatures=["parent,book", "parent,book,tags,annotations"])
    b.method(svc, "UpdateBook", P + ".UpdateBookRequest", P + ".Book",
             http={"verb": "patch", "path": "/v1/{book.name=shelves/*/books/*}",
                   "body": "book"},
             signatures=["book,update_mask"])
    b.method(svc, "UpdateBookClass", P + ".UpdateBookRequest", P + ".Book",
             http={"verb": "patch", "path": "/v1/{book.class=classes/*}", "body": "*"})
    b.method(svc, "DeleteBook", P + ".DeleteBookRequest", ".google.protobuf.Empty",
             http={"verb": "delete", "path": "/v1/{name=shelves/*/books/*}"},
             signatures=["name"], deprecated=True)
    b.method(svc, "MoveBook", P + ".MoveBookRequest", ".google.longrunning.Operation",
             http={"verb": "post", "path": "/v1/{name=shelves/*/books/*}:move", "body": "*"},
             lro=("Book", "MoveBookMetadata"), signatures=["name,other_shelf_name"])
    b.method(svc, "RoutedMoveBook", P + ".MoveBookRequest", ".google.longrunning.Operation",
             http={"verb": "post", "path": "/v1/{name=shelves/*/books/*}:routedMove",
                   "body": "*"},
             routing=[("name", "{shelf=shelves/*}/books/*"),
                      ("other_shelf_name", "{shelf=shelves/*}")],
             lro=("Book", "MoveBookMetadata"))
    b.method(svc, "RoutedListBooks", P + ".ListBooksRequest", P + ".ListBooksResponse",
             http={"verb": "get", "path": "/v1/{parent=shelves/*}/routedBooks"},
             routing=[("parent", "")], signatures=["parent"])
    b.method(svc, "RoutedDeleteBook", P + ".DeleteBookRequest", ".google.protobuf.Empty",
             http={"verb": "delete", "path": "/v1/{name=shelves/*/books/*}:routed"},
             routing=[("name", "shelves/{shelf_id=*}/**")])

    b2 = _B("google/example/library/v1/shelves.proto", package,
            deps=["google/example/library/v1/library.proto"])
    b2.message("GetShelfRequest", [("name", "string")])
    b2.message("StreamShelvesRequest", [("parent", "string"), ("list", "string")])
    svc2 = b2.service("ShelfService", host="shelves.example.com:443")
    b2.method(svc2, "GetShelf", P + ".GetShelfRequest", P + ".Shelf",
              http={"verb": "get", "path": "/v1/{name=shelves/*}"}, signatures=["name"])
    b2.method(svc2, "StreamShelves", P + ".StreamShelvesRequest", P + ".Shelf",
              http={"verb": "get", "path": "/v1/{parent=libraries/*}/shelves:stream/{list}"},
              server_streaming=True)
    b2.method(svc2, "RoutedStreamShelves", P + ".StreamShelvesRequest", P + ".Shelf",
              routing=[("list", "{list_id=lists/*}/**"), ("parent", "{parent=**}")],
              server_streaming=True)
    return [b.fd, b2.fd], package


def _api_subpackage(package="google.example.fleet.v2"):
    """Services living in a sub-package, and requests imported from another
    file of the API (no flattening, non-trivial module names)."""
    P = "." + package
    types = _B("google/example/fleet/v2/types/common.proto", package + ".types")
    T = "." + package + ".types"
    types.message("Vehicle", [("name", "string"), ("global", "string"), ("license", "string")])
    types.message("VehicleRef", [("vehicle", T + ".Vehicle"), ("except", T + ".Vehicle")])
    b = _B("google/example/fleet/v2/admin/admin.proto", package + ".admin",
           deps=["google/example/fleet/v2/types/common.proto"])
    A = "." + package + ".admin"
    b.message("TrackRequest", [("ref", T + ".VehicleRef"), ("zone", "string"),
                               ("return", "string")])
    b.message("TrackResponse", [("position", "string")])
    svc = b.service("FleetAdmin", host="fleet.example.com")
    b.method(svc, "Track", A + ".TrackRequest", A + ".TrackResponse",
             http={"verb": "post", "path": "/v2/{ref.vehicle.name=vehicles/*}:track",
                   "body": "*"})
    b.method(svc, "TrackReserved", A + ".TrackRequest", A + ".TrackResponse",
             http={"verb": "post",
                   "path": "/v2/{ref.except.global=globals/*}/{return}/{ref.vehicle.license}",
                   "body": "*"})
    b.method(svc, "TrackRouted", A + ".TrackRequest", A + ".TrackResponse",
             http={"verb": "post", "path": "/v2/{zone=zones/*}:trackRouted", "body": "*"},
             routing=[("ref.except.license", "{license=licenses/*}/**"),
                      ("return", ""), ("zone", "zones/{zone_id=*}"),
                      ("ref.vehicle.global", "{zone_id=**}")])
    b.method(svc, "TrackMany", A + ".TrackRequest", A + ".TrackResponse",
             client_streaming=True, server_streaming=True,
             routing=[("zone", "")])
    top = _B("google/example/fleet/v2/fleet.proto", package,
             deps=["google/example/fleet/v2/types/common.proto"])
    top.message("PingRequest", [("name", "string")])
    tsvc = top.service("Fleet", host="fleet.example.com")
    top.method(tsvc, "Ping", P + ".PingRequest", T + ".Vehicle",
               http={"verb": "get", "path": "/v2/{name=vehicles/*}:ping"})
    top.method(tsvc, "PingRouted", P + ".PingRequest", T + ".Vehicle",
               routing=[("name", "vehicles/{vehicle=*}")])
    return [types.fd, b.fd, top.fd], package


def _api_plain(package="example.plain.v1beta1"):
    """No routing and no http annotation at all (and a one-method service)."""
    P = "." + package
    b = _B("example/plain/v1beta1/plain.proto", package)
    b.message("EchoRequest", [("content", "string"), ("name", "string")])
    b.message("EchoResponse", [("content", "string")])
    svc = b.service("Echo", host="echo.example.com")
    b.method(svc, "Echo", P + ".EchoRequest", P + ".EchoResponse", signatures=["content"])
    b.method(svc, "Collect", P + ".EchoRequest", P + ".EchoResponse", client_streaming=True)
    b.method(svc, "Expand", P + ".EchoRequest", P + ".EchoResponse", server_streaming=True)
    svc2 = b.service("Solo", host="solo.example.com")
    b.method(svc2, "OnlyRouted", P + ".EchoRequest", P + ".EchoResponse",
             routing=[("name", "{name=**}")])
    return [b.fd], package


CASES = [
    # (label, api builder, option string)
    ("routing/default", "_api_routing", ""),
    ("routing/rest", "_api_routing", "transport=rest,rest-numeric-enums"),
    ("routing/grpc-nosnippets", "_api_routing", "transport=grpc,autogen-snippets=false"),
    ("library/default", "_api_library", ""),
    ("library/grpc+rest-numeric", "_api_library",
     "transport=grpc+rest,rest-numeric-enums,autogen-snippets=false"),
    ("library/old-naming", "_api_library", "old-naming,autogen-snippets=false"),
    ("fleet/default", "_api_subpackage", "autogen-snippets=false"),
    ("fleet/rest", "_api_subpackage", "transport=rest,autogen-snippets=false"),
    ("plain/default", "_api_plain", ""),
    ("plain/rest", "_api_plain", "transport=rest,autogen-snippets=false"),
]


def worker(tree, out_path, raw):
    tree = _isolate(tree)

    import pypandoc

    def _convert_text(source, to, format=None, extra_args=(), **kwargs):  # noqa: A002
        # Deterministic stand-in for pandoc (not installed): identical in both runs.
        return source

    pypandoc.convert_text = _convert_text

    import gapic
    from gapic.generator import generator as generator_module
    from gapic.generator import formatter
    from gapic.schema import api as api_module
    from gapic.utils import Options
    import gapic.schema.wrappers  # noqa: F401

    if raw:
        formatter.fix_whitespace = lambda code: code

    results = {}
    for label, builder, opt_string in CASES:
        fds, package = globals()[builder]()
        opts = Options.build(opt_string)
        for template_dir in opts.templates:
            assert os.path.realpath(template_dir).startswith(tree + os.sep), (
                template_dir,
                tree,
            )
        api = api_module.API.build(_std_file_protos() + fds, package=package, opts=opts)
        response = generator_module.Generator(opts).get_response(api, opts)
        files = {f.name: f.content.encode("utf-8") for f in response.file}
        assert len(files) == len(response.file), "duplicate output file names"
        results[label] = files

    for name, module in sorted(sys.modules.items()):
        if name == "gapic" or name.startswith("gapic."):
            origin = getattr(module, "__file__", None) or list(module.__path__)[0]
            assert os.path.realpath(origin).startswith(tree + os.sep), (name, origin)
    assert os.path.realpath(gapic.__path__[0]) == os.path.join(tree, "gapic")

    with open(out_path, "wb") as fh:
        pickle.dump(results, fh)


# --------------------------------------------------------------------------
# Driver
# --------------------------------------------------------------------------
def main(argv):
    if len(argv) >= 2 and argv[1] == "--worker":
        worker(argv[2], argv[3], argv[4] == "raw")
        return 0

    args = [a for a in argv[1:] if not a.startswith("--")]
    raw = "--raw" in argv[1:]
    if len(args) != 1:
        print(__doc__)
        return 2
    checkout = os.path.realpath(args[0])

    tmp = tempfile.mkdtemp(prefix="w06-demo-")
    try:
        pristine = os.path.join(tmp, "pristine")
        os.mkdir(pristine)
        archive = subprocess.Popen(
            ["git", "-C", checkout, "archive", "HEAD"], stdout=subprocess.PIPE
        )
        subprocess.check_call(["tar", "-x", "-C", pristine], stdin=archive.stdout)
        archive.stdout.close()
        if archive.wait() != 0:
            raise RuntimeError("git archive failed")

        outputs = {}
        env = dict(os.environ, PYTHONHASHSEED="0", PYTHONDONTWRITEBYTECODE="1")
        env.pop("PYTHONPATH", None)
        procs = []
        for tag, tree in (("pristine", pristine), ("changed", checkout)):
            out_path = os.path.join(tmp, tag + ".pkl")
            procs.append(
                (
                    tag,
                    out_path,
                    subprocess.Popen(
                        [sys.executable, os.path.abspath(__file__), "--worker", tree,
                         out_path, "raw" if raw else "cooked"],
                        cwd=tmp,
                        env=env,
                    ),
                )
            )
        for tag, out_path, proc in procs:
            if proc.wait() != 0:
                print(f"worker for the {tag} tree failed")
                return 1
            with open(out_path, "rb") as fh:
                outputs[tag] = pickle.load(fh)

        differing = []
        n_files = 0
        digest = hashlib.sha256()
        for label, _, _ in CASES:
            old, new = outputs["pristine"][label], outputs["changed"][label]
            for name in sorted(set(old) | set(new)):
                n_files += 1
                if name not in old:
                    differing.append(f"{label}: {name} only produced by the changed tree")
                elif name not in new:
                    differing.append(f"{label}: {name} only produced by the pristine tree")
                elif old[name] != new[name]:
                    differing.append(f"{label}: {name} differs")
                else:
                    digest.update(name.encode() + b"\0" + old[name])
            assert old, label
        if differing:
            print(f"DIFFERENT: {len(differing)} of {n_files} files differ")
            for line in differing:
                print("  " + line)
            return 1
        print(
            f"IDENTICAL: {len(CASES)} generator runs, {n_files} output files, "
            f"byte for byte equal between pristine HEAD and {checkout} "
            f"(sha256 {digest.hexdigest()[:16]}{', raw renderings' if raw else ''})"
        )
        return 0
    finally:
        shutil.rmtree(tmp, ignore_errors=True)


if __name__ == "__main__":
    sys.exit(main(sys.argv))
