#!/usr/bin/env python
"""Equivalence demo for the U14 refactoring (property C14: generated samples,
their metadata and the snippet embedded in the client docstrings).

Usage:  /venv/bin/python demo.py <path-to-a-checkout-with-the-change>

The script exports the checkout's HEAD (pristine tree) into a temp dir, builds
several API descriptions in Python (no protoc), runs the generator on each with
BOTH trees (one subprocess per tree and case, so the two ``gapic`` packages
never mix) and compares every output file byte for byte.

Refactored code that is exercised:
  * gapic/samplegen/samplegen.py      _fill_sample_metadata
  * gapic/generator/generator.py      Generator._generate_samples_and_manifest
  * gapic/templates/.../%service/_client_macros.j2   (docstring_code_block)
  * gapic/templates/examples/feature_fragments.j2    (render_method_call,
                                                      render_request_params_unary)

Exit 0 + a one line summary if everything is identical, exit 1 otherwise.
"""
import os
import pickle
import shutil
import subprocess
import sys
import tempfile


# --------------------------------------------------------------------------- #
# Child mode: run the generator of one tree over one case.
# --------------------------------------------------------------------------- #
def _isolate(tree: str) -> str:
    """Make ``tree`` the only possible provider of the ``gapic`` package."""
    tree = os.path.realpath(tree)
    sys.dont_write_bytecode = True
    assert "gapic" not in sys.modules, "gapic imported too early"

    # The venv has an editable install of another checkout: drop its meta path
    # finder, its path hook and its pseudo path entry.
    def _is_editable(obj) -> bool:
        mod = getattr(obj, "__module__", "") or ""
        name = getattr(obj, "__qualname__", "") or ""
        return "__editable__" in mod or "editable" in mod.lower() or "Editable" in name

    sys.meta_path[:] = [f for f in sys.meta_path if not _is_editable(f)]
    sys.path_hooks[:] = [h for h in sys.path_hooks if not _is_editable(h)]

    # Drop every other path entry that could provide ``gapic`` (the script's
    # directory, the cwd, an exported checkout, ...).
    kept = []
    for entry in sys.path:
        if "__editable__" in entry:
            continue
        real = os.path.realpath(entry or os.getcwd())
        if real != tree and (
            os.path.isdir(os.path.join(real, "gapic"))
            or os.path.isfile(os.path.join(real, "gapic.py"))
        ):
            continue
        if real == tree:
            continue
        kept.append(entry)
    sys.path[:] = [tree] + kept
    sys.path_importer_cache.clear()

    import importlib.util

    spec = importlib.util.find_spec("gapic")
    assert spec is not None and spec.submodule_search_locations, "gapic not found"
    locations = [os.path.realpath(p) for p in spec.submodule_search_locations]
    assert locations == [os.path.join(tree, "gapic")], (locations, tree)
    return tree


def _assert_isolated(tree: str, template_dirs) -> None:
    root = tree + os.sep
    n = 0
    for mod_name, mod in list(sys.modules.items()):
        if mod_name == "gapic" or mod_name.startswith("gapic."):
            mod_file = getattr(mod, "__file__", None)
            if mod_file is not None:
                assert os.path.realpath(mod_file).startswith(root), (mod_file, tree)
                n += 1
            for p in getattr(mod, "__path__", []) or []:
                assert os.path.realpath(p).startswith(root), (p, tree)
    assert n > 10, "suspiciously few gapic modules loaded"
    assert template_dirs, "no template directory seen"
    for t in template_dirs:
        assert os.path.realpath(t).startswith(root), (t, tree)


def child(tree: str, case_path: str, out_path: str) -> int:
    tree = _isolate(tree)

    import pypandoc  # type: ignore

    def _convert_text(text, to, format=None, extra_args=(), **kw):
        # pandoc is not installed: deterministic identity-like stub, the same
        # for both trees.
        return "PANDOC[" + text + "]"

    pypandoc.convert_text = _convert_text

    from google.protobuf import descriptor_pb2
    from gapic.schema import api
    from gapic.generator import Generator
    from gapic.utils import Options

    with open(case_path, "rb") as f:
        case = pickle.load(f)

    result = {}
    template_dirs = set()
    if case.get("unit"):
        result = unit_level(template_dirs)
    else:
        try:
            fds = descriptor_pb2.FileDescriptorSet.FromString(case["fds"])
            opts = Options.build(case["opts"])
            template_dirs.update(opts.templates)
            api_schema = api.API.build(list(fds.file), opts=opts, package=case["package"])
            generator = Generator(opts)
            template_dirs.update(generator._env.loader.searchpath)
            res = generator.get_response(api_schema, opts)
            for f in res.file:
                assert f.name not in result, f.name
                result[f.name] = f.content.encode("utf8")
            if case.get("raw"):
                # Second run with the whitespace post-processing switched off
                # (identically for both trees): `fix_whitespace` collapses runs
                # of blank lines, which would hide whitespace-only differences
                # in what the templates themselves emit.
                from gapic.generator import formatter, generator as generator_module

                assert generator_module.formatter is formatter
                formatter.fix_whitespace = lambda code: code
                api_schema = api.API.build(
                    list(fds.file), opts=opts, package=case["package"])
                for f in Generator(opts).get_response(api_schema, opts).file:
                    assert "raw/" + f.name not in result, f.name
                    result["raw/" + f.name] = f.content.encode("utf8")
        except Exception as exc:  # compare failures too
            result = {"<EXCEPTION>": f"{type(exc).__name__}: {exc}".encode("utf8")}
    _assert_isolated(tree, template_dirs)
    with open(out_path, "wb") as f:
        pickle.dump(result, f)
    return 0


def unit_level(template_dirs):
    """Exercise, below the level of whole APIs, the branches that whole-API runs
    reach rarely or never (flattened sample calls, page-by-page calling form,
    odd method shapes in the snippet metadata) and return
    {pseudo file name: bytes}."""
    import itertools
    from collections import OrderedDict
    from types import SimpleNamespace as NS

    from google.protobuf import json_format

    from gapic.generator import Generator
    from gapic.samplegen import samplegen
    from gapic.samplegen_utils import types
    from gapic.utils import Options

    out = {}
    opts = Options.build("")
    generator = Generator(opts)
    env = generator._env
    template_dirs.update(opts.templates)
    template_dirs.update(env.loader.searchpath)

    # --- render_method_call / render_request_params_unary over the whole matrix
    driver = env.from_string(
        '{% import "examples/feature_fragments.j2" as frags %}'
        "[{{ frags.render_method_call(sample, form, enum, transport) }}]"
        "@@@"
        "[{{ frags.render_request_params_unary(sample.request) }}]"
        "@@@"
        "[{{ frags.render_calling_form(frags.render_method_call(sample, form, enum, transport),"
        " form, enum, transport, statements) }}]"
    )
    T = samplegen.TransformedRequest
    A = samplegen.AttributeRequestSetup
    requests = {
        "empty": samplegen.FullRequest(request_list=[], flattenable=False),
        "empty_flat": samplegen.FullRequest(request_list=[], flattenable=True),
        "mixed": samplegen.FullRequest(
            request_list=[
                T(base="parent", body=None, single=A(value='"parent_value"')),
                T(base="book",
                  body=[A(field="name", value='"name_value"'),
                        A(field="cover", value="'path/cover.jpg'",
                          input_parameter="cover_path", value_is_file=True)],
                  single=None),
                T(base="empty_body", body=[], single=A(value="7")),
            ],
            flattenable=False),
        "flat": samplegen.FullRequest(
            request_list=[
                T(base="name", body=None, single=A(value='"n"')),
                T(base="book", body=[A(field="name", value='"b"')], single=None),
                T(base="count", body=[], single=A(value="0")),
                T(base="neither", body=None, single=None),
            ],
            flattenable=True),
        "flat_none": samplegen.FullRequest(
            request_list=[T(base="x", body=None, single=A(value="None"))],
            flattenable=None),
    }
    statement_sets = {
        "none": [],
        "print": [{"print": ["%s", "$resp"]}],
    }
    for form, transport, (rname, request), (sname, statements), internal, rpc in (
            itertools.product(
                list(types.CallingForm), ["grpc", "grpc-async", "rest"],
                requests.items(), statement_sets.items(), [False, True],
                ["DoThing", "Import", "getIAMPolicy"])):
        sample = {"rpc": rpc, "is_internal": internal, "request": request}
        key = f"unit/{form.name}/{transport}/{rname}/{sname}/{internal}/{rpc}"
        try:
            out[key] = driver.render(
                form=form, enum=types.CallingForm, transport=transport,
                sample=sample, statements=statements).encode("utf8")
        except Exception as exc:
            out[key] = f"EXC {type(exc).__name__}: {exc}".encode("utf8")

    # --- _fill_sample_metadata over method shapes (including ones that real
    # APIs cannot produce, e.g. a client-streaming method with flattened fields)
    def ident(name):
        return NS(sphinx=name)

    rows = []
    flattened_sets = {
        "none": OrderedDict(),
        "one": OrderedDict([("name", NS(name="name", ident=ident("str")))]),
        "three": OrderedDict([
            ("parent", NS(name="parent", ident=ident("str"))),
            ("book.title", NS(name="title", ident=ident("a.b.types.Title"))),
            ("class", NS(name="class_", ident=ident("MutableSequence[int]"))),
        ]),
    }
    for (fname, flattened), void, ss, cs, transport, namespace in itertools.product(
            flattened_sets.items(), [False, True], [False, True], [False, True],
            ["grpc", "grpc-async", "rest"], [(), ("google", "cloud")]):
        method = NS(
            name="DoThing", client_method_name="_DoThing" if void else "DoThing",
            void=void, server_streaming=ss, client_streaming=cs,
            flattened_fields=flattened,
            input=NS(ident=ident("a.b.types.DoThingRequest")),
            client_output=NS(ident=ident("a.b.pagers.DoThingPager")),
            client_output_async=NS(ident=ident("a.b.pagers.DoThingAsyncPager")),
        )
        service = NS(name="Svc", client_name="SvcClient",
                     async_client_name="SvcAsyncClient",
                     methods={"DoThing": method})
        api_like = NS(naming=NS(proto_package="a.b.v1"),
                      services={"a.b.v1.Svc": service})
        sample = {"service": "a.b.v1.Svc", "rpc": "DoThing", "transport": transport,
                  "region_tag": f"ab_v1_generated_Svc_DoThing_{transport}",
                  "module_namespace": namespace, "module_name": "b_v1"}
        before = repr(sample)
        md = samplegen._fill_sample_metadata(sample, api_like)
        assert repr(sample) == before
        rows.append(f"## {fname} void={void} ss={ss} cs={cs} {transport} {namespace}")
        rows.append(json_format.MessageToJson(md, sort_keys=True))
        rows.append(md.SerializeToString(deterministic=True).hex())
    out["unit/fill_sample_metadata"] = "\n".join(rows).encode("utf8")
    return out


# --------------------------------------------------------------------------- #
# Descriptor building helpers (parent mode)
# --------------------------------------------------------------------------- #
def _build_cases(tmpdir):
    from google.protobuf import descriptor_pb2 as d
    from google.protobuf import (
        any_pb2, duration_pb2, empty_pb2, field_mask_pb2, timestamp_pb2,
        struct_pb2, wrappers_pb2,
    )
    from google.api import (
        annotations_pb2, client_pb2, field_behavior_pb2, http_pb2, resource_pb2,
        launch_stage_pb2,
    )
    from google.longrunning import operations_pb2
    from google.rpc import status_pb2

    F = d.FieldDescriptorProto

    def dep_file(mod):
        fdp = d.FileDescriptorProto()
        fdp.ParseFromString(mod.DESCRIPTOR.serialized_pb)
        return fdp

    def closure(mods):
        """File protos of the given modules and of everything they import, in
        dependency order."""
        seen, order = set(), []

        def visit(fd):
            if fd.name in seen:
                return
            seen.add(fd.name)
            for dep in fd.dependencies:
                visit(dep)
            fdp = d.FileDescriptorProto()
            fdp.ParseFromString(fd.serialized_pb)
            order.append(fdp)

        for m in mods:
            visit(m.DESCRIPTOR)
        return order

    COMMON = closure([
        annotations_pb2, client_pb2, field_behavior_pb2, resource_pb2,
        operations_pb2, empty_pb2, field_mask_pb2, timestamp_pb2, duration_pb2,
        any_pb2, status_pb2, struct_pb2, wrappers_pb2, http_pb2, launch_stage_pb2,
    ])

    REQUIRED = field_behavior_pb2.REQUIRED

    def field(name, number, type_, *, type_name=None, repeated=False,
              required=False, oneof_index=None, resource_ref=None,
              proto3_optional=False, doc=None):
        f = F(name=name, number=number, type=type_,
              label=F.LABEL_REPEATED if repeated else F.LABEL_OPTIONAL)
        if type_name:
            f.type_name = type_name
        if required:
            f.options.Extensions[field_behavior_pb2.field_behavior].append(REQUIRED)
        if oneof_index is not None:
            f.oneof_index = oneof_index
        if proto3_optional:
            f.proto3_optional = True
        if resource_ref:
            f.options.Extensions[resource_pb2.resource_reference].type = resource_ref
        return f

    def message(name, fields, *, oneofs=(), nested=(), enums=(), resource=None,
                map_entry=False):
        m = d.DescriptorProto(name=name)
        m.field.extend(fields)
        for o in oneofs:
            m.oneof_decl.add(name=o)
        m.nested_type.extend(nested)
        m.enum_type.extend(enums)
        if map_entry:
            m.options.map_entry = True
        if resource:
            r = m.options.Extensions[resource_pb2.resource]
            r.type = resource[0]
            r.pattern.extend(resource[1])
        return m

    def enum(name, values):
        e = d.EnumDescriptorProto(name=name)
        for i, v in enumerate(values):
            e.value.add(name=v, number=i)
        return e

    def method(name, inp, out, *, cs=False, ss=False, http=None, sigs=(),
               lro=None):
        m = d.MethodDescriptorProto(name=name, input_type=inp, output_type=out,
                                    client_streaming=cs, server_streaming=ss)
        if http:
            verb, uri, body = http
            rule = m.options.Extensions[annotations_pb2.http]
            setattr(rule, verb, uri)
            if body:
                rule.body = body
        for s in sigs:
            m.options.Extensions[client_pb2.method_signature].append(s)
        if lro:
            info = m.options.Extensions[operations_pb2.operation_info]
            info.response_type, info.metadata_type = lro
        return m

    def service(name, methods, *, host=None, scopes=None):
        s = d.ServiceDescriptorProto(name=name)
        s.method.extend(methods)
        if host is not None:
            s.options.Extensions[client_pb2.default_host] = host
        if scopes:
            s.options.Extensions[client_pb2.oauth_scopes] = scopes
        return s

    def file_(name, package, *, deps, messages=(), enums=(), services=(),
              comments=None):
        f = d.FileDescriptorProto(name=name, package=package, syntax="proto3")
        f.dependency.extend(deps)
        f.message_type.extend(messages)
        f.enum_type.extend(enums)
        f.service.extend(services)
        for path, text in (comments or {}).items():
            loc = f.source_code_info.location.add()
            loc.path.extend(path)
            loc.leading_comments = text
        return f

    STD_DEPS = [
        "google/api/annotations.proto", "google/api/client.proto",
        "google/api/field_behavior.proto", "google/api/resource.proto",
        "google/longrunning/operations.proto", "google/protobuf/empty.proto",
        "google/protobuf/field_mask.proto", "google/protobuf/timestamp.proto",
        "google/protobuf/duration.proto",
    ]

    def pack(files, package, opts, raw=False):
        fds = d.FileDescriptorSet()
        fds.file.extend(COMMON)
        fds.file.extend(files)
        return {"fds": fds.SerializeToString(), "package": package, "opts": opts,
                "raw": raw}

    cases = {}

    # ------------------------------------------------------------------ #
    # Case 1: "library" - every calling form, required fields of every
    # kind, oneofs, resource references, gRPC + REST.
    # ------------------------------------------------------------------ #
    def library_files(pkg="google.example.library.v1", host="library.googleapis.com"):
        P = "." + pkg
        kind = enum("Kind", ["KIND_UNSPECIFIED", "HARDBACK", "PAPERBACK"])
        shelf = message(
            "Shelf",
            [field("name", 1, F.TYPE_STRING),
             field("theme", 2, F.TYPE_STRING, required=True),
             field("kind", 3, F.TYPE_ENUM, type_name=P + ".Kind")],
            resource=("library.googleapis.com/Shelf", ["shelves/{shelf}"]))
        book = message(
            "Book",
            [field("name", 1, F.TYPE_STRING, required=True),
             field("author", 2, F.TYPE_STRING),
             field("isbn", 3, F.TYPE_INT64, oneof_index=0),
             field("issn", 4, F.TYPE_STRING, oneof_index=0),
             field("kind", 5, F.TYPE_ENUM, type_name=P + ".Kind", required=True),
             field("pages", 6, F.TYPE_INT32, repeated=True),
             field("rating", 7, F.TYPE_DOUBLE, proto3_optional=True, oneof_index=1),
             field("labels", 8, F.TYPE_MESSAGE, type_name=P + ".Book.LabelsEntry",
                   repeated=True)],
            oneofs=["identifier", "_rating"],
            nested=[message("LabelsEntry",
                            [field("key", 1, F.TYPE_STRING),
                             field("value", 2, F.TYPE_STRING)], map_entry=True)],
            resource=("library.googleapis.com/Book",
                      ["shelves/{shelf}/books/{book}",
                       "publishers/{publisher}/books/{book}"]))
        create_shelf = message(
            "CreateShelfRequest",
            [field("shelf", 1, F.TYPE_MESSAGE, type_name=P + ".Shelf", required=True),
             field("shelf_id", 2, F.TYPE_STRING)])
        get_book = message(
            "GetBookRequest",
            [field("name", 1, F.TYPE_STRING, required=True,
                   resource_ref="library.googleapis.com/Book")])
        delete_book = message(
            "DeleteBookRequest",
            [field("name", 1, F.TYPE_STRING, required=True,
                   resource_ref="library.googleapis.com/Book"),
             field("force", 2, F.TYPE_BOOL, required=True),
             field("etag", 3, F.TYPE_BYTES, required=True),
             field("weight", 4, F.TYPE_FLOAT, required=True)])
        create_book = message(
            "CreateBookRequest",
            [field("parent", 1, F.TYPE_STRING, required=True,
                   resource_ref="library.googleapis.com/Shelf"),
             field("book", 2, F.TYPE_MESSAGE, type_name=P + ".Book", required=True),
             field("kinds", 3, F.TYPE_ENUM, type_name=P + ".Kind", required=True,
                   repeated=True),
             field("by_id", 4, F.TYPE_STRING, oneof_index=0),
             field("by_shelf", 5, F.TYPE_MESSAGE, type_name=P + ".Shelf",
                   oneof_index=0),
             field("mode", 6, F.TYPE_ENUM, type_name=P + ".Kind", oneof_index=1),
             field("mode_name", 7, F.TYPE_STRING, oneof_index=1)],
            oneofs=["source", "mode_choice"])
        list_books = message(
            "ListBooksRequest",
            [field("parent", 1, F.TYPE_STRING, required=True,
                   resource_ref="library.googleapis.com/Shelf"),
             field("page_size", 2, F.TYPE_INT32),
             field("page_token", 3, F.TYPE_STRING)])
        list_books_resp = message(
            "ListBooksResponse",
            [field("books", 1, F.TYPE_MESSAGE, type_name=P + ".Book", repeated=True),
             field("next_page_token", 2, F.TYPE_STRING)])
        move_book = message(
            "MoveBookRequest",
            [field("name", 1, F.TYPE_STRING, required=True,
                   resource_ref="library.googleapis.com/Book"),
             field("other_shelf_name", 2, F.TYPE_STRING, required=True,
                   resource_ref="library.googleapis.com/Shelf"),
             field("update_mask", 3, F.TYPE_MESSAGE,
                   type_name=".google.protobuf.FieldMask")])
        move_meta = message("MoveBookMetadata",
                            [field("progress", 1, F.TYPE_INT32)])
        stream_req = message(
            "StreamBooksRequest",
            [field("shelf", 1, F.TYPE_STRING, required=True),
             field("count", 2, F.TYPE_UINT32, required=True)])
        stream_opt = message("DiscussBookRequest",
                             [field("comment", 1, F.TYPE_STRING)])
        comment = message("Comment", [field("text", 1, F.TYPE_STRING)])

        mth = [
            method("CreateShelf", P + ".CreateShelfRequest", P + ".Shelf",
                   http=("post", "/v1/shelves", "shelf"), sigs=["shelf", "shelf,shelf_id"]),
            method("GetBook", P + ".GetBookRequest", P + ".Book",
                   http=("get", "/v1/{name=shelves/*/books/*}", None), sigs=["name"]),
            method("DeleteBook", P + ".DeleteBookRequest", ".google.protobuf.Empty",
                   http=("delete", "/v1/{name=shelves/*/books/*}", None), sigs=["name"]),
            method("CreateBook", P + ".CreateBookRequest", P + ".Book",
                   http=("post", "/v1/{parent=shelves/*}/books", "book"),
                   sigs=["parent,book"]),
            method("ListBooks", P + ".ListBooksRequest", P + ".ListBooksResponse",
                   http=("get", "/v1/{parent=shelves/*}/books", None), sigs=["parent"]),
            method("MoveBook", P + ".MoveBookRequest", ".google.longrunning.Operation",
                   http=("post", "/v1/{name=shelves/*/books/*}:move", "*"),
                   sigs=["name,other_shelf_name"],
                   lro=("Book", "MoveBookMetadata")),
            method("PurgeBooks", P + ".ListBooksRequest", ".google.longrunning.Operation",
                   http=("post", "/v1/{parent=shelves/*}/books:purge", "*"),
                   lro=("google.protobuf.Empty", "MoveBookMetadata")),
            method("StreamBooks", P + ".StreamBooksRequest", P + ".Book", ss=True,
                   http=("get", "/v1/{shelf=shelves/*}:stream", None)),
            method("UploadBooks", P + ".CreateBookRequest", P + ".Shelf", cs=True),
            method("DiscussBook", P + ".DiscussBookRequest", P + ".Comment",
                   cs=True, ss=True),
        ]
        svc = service("LibraryService", mth, host=host,
                      scopes="https://www.googleapis.com/auth/cloud-platform")
        # comments: message 1 (Book) / service 0 / method 1
        comments = {
            (4, 1): " A single book in the library.\n Has *markup* and `code`.\n",
            (6, 0): " This API represents a simple digital library.\n",
            (6, 0, 2, 1): " Gets a book. Returns NOT_FOUND if the book does not exist.\n",
            (6, 0, 2, 4): " Lists books in a shelf.\n\n Second paragraph with a [link][google.example.Book].\n",
        }
        return [file_(
            pkg.replace(".", "/") + "/library.proto", pkg, deps=STD_DEPS,
            messages=[shelf, book, create_shelf, get_book, delete_book, create_book,
                      list_books, list_books_resp, move_book, move_meta, stream_req,
                      stream_opt, comment],
            enums=[kind], services=[svc], comments=comments)]

    cases["library_grpc_rest"] = pack(
        library_files(), "google.example.library.v1", "transport=grpc+rest,metadata", raw=True)
    cases["library_grpc_default"] = pack(
        library_files(), "google.example.library.v1", "")
    cases["library_rest_numeric"] = pack(
        library_files(), "google.example.library.v1",
        "transport=rest,rest-numeric-enums")
    cases["library_no_snippets"] = pack(
        library_files(), "google.example.library.v1",
        "autogen-snippets=false,transport=grpc+rest", raw=True)

    # selective gapic generation: some methods become internal ("_internal"
    # region tags, underscore method names in samples)
    yaml_path = os.path.join(tmpdir, "library_v1.yaml")
    with open(yaml_path, "w") as f:
        f.write(
            "type: google.api.Service\n"
            "config_version: 3\n"
            "name: library.googleapis.com\n"
            "publishing:\n"
            "  library_settings:\n"
            "  - version: google.example.library.v1\n"
            "    python_settings:\n"
            "      common:\n"
            "        selective_gapic_generation:\n"
            "          methods:\n"
            "          - google.example.library.v1.LibraryService.GetBook\n"
            "          - google.example.library.v1.LibraryService.MoveBook\n"
            "          - google.example.library.v1.LibraryService.ListBooks\n"
            "          generate_omitted_as_internal: true\n")
    cases["library_selective_internal"] = pack(
        library_files(), "google.example.library.v1",
        "transport=grpc+rest,service-yaml=" + yaml_path)

    # ------------------------------------------------------------------ #
    # Case 2: reserved words, maps, several services, no annotations on
    # some, no version in the package, unusual / missing host.
    # ------------------------------------------------------------------ #
    def odd_files():
        pkg = "acme.widgets"
        P = "." + pkg
        color = enum("Color", ["COLOR_UNSPECIFIED", "RED", "None", "class"])
        inner = message(
            "Inner",
            [field("from", 1, F.TYPE_STRING, required=True),
             field("in", 2, F.TYPE_ENUM, type_name=P + ".Color", required=True),
             field("deep", 3, F.TYPE_MESSAGE, type_name=P + ".Inner.Deeper",
                   required=True)],
            nested=[message("Deeper",
                            [field("global", 1, F.TYPE_SINT32, required=True),
                             field("opt", 2, F.TYPE_STRING)])])
        imp_req = message(
            "ImportRequest",
            [field("class", 1, F.TYPE_STRING, required=True),
             field("import", 2, F.TYPE_MESSAGE, type_name=P + ".Inner", required=True),
             field("tags", 3, F.TYPE_MESSAGE, type_name=P + ".ImportRequest.TagsEntry",
                   repeated=True),
             field("not", 4, F.TYPE_FIXED64, required=True),
             field("names", 5, F.TYPE_STRING, repeated=True, required=True),
             field("return", 6, F.TYPE_ENUM, type_name=P + ".Color", oneof_index=0),
             field("yield", 7, F.TYPE_STRING, oneof_index=0),
             field("request", 8, F.TYPE_STRING, required=True)],
            oneofs=["lambda"],
            nested=[message("TagsEntry",
                            [field("key", 1, F.TYPE_STRING),
                             field("value", 2, F.TYPE_MESSAGE, type_name=P + ".Inner")],
                            map_entry=True)])
        imp_resp = message("ImportResponse", [field("def", 1, F.TYPE_STRING)])
        empty_req = message("PingRequest", [])
        list_req = message(
            "ListWidgetsRequest",
            [field("filter", 1, F.TYPE_STRING),
             field("page_size", 2, F.TYPE_INT32),
             field("page_token", 3, F.TYPE_STRING)])
        list_resp = message(
            "ListWidgetsResponse",
            [field("widgets", 1, F.TYPE_STRING, repeated=True),
             field("next_page_token", 2, F.TYPE_STRING)])
        svc1 = service(
            "Importer",
            [method("Import", P + ".ImportRequest", P + ".ImportResponse",
                    http=("post", "/v1/import", "*"), sigs=["class,import"]),
             method("Ping", P + ".PingRequest", ".google.protobuf.Empty",
                    http=("get", "/v1/ping", None)),
             method("ListWidgets", P + ".ListWidgetsRequest", P + ".ListWidgetsResponse",
                    http=("get", "/v1/widgets", None)),
             method("Yield", P + ".PingRequest", P + ".ImportResponse", ss=True)],
            host="widgets-api.example.com:8443")
        svc2 = service(
            "HostlessService",
            [method("Ping", P + ".PingRequest", P + ".ImportResponse"),
             method("Continue", P + ".ImportRequest", P + ".ImportResponse", cs=True)])
        svc3 = service("EmptyService", [], host="empty.example.com")
        return [file_("acme/widgets/widgets.proto", pkg, deps=STD_DEPS,
                      messages=[inner, imp_req, imp_resp, empty_req, list_req, list_resp],
                      enums=[color], services=[svc1, svc2, svc3])], pkg

    files, pkg = odd_files()
    cases["odd_grpc"] = pack(files, pkg, "", raw=True)
    files, pkg = odd_files()
    cases["odd_rest"] = pack(files, pkg, "transport=rest")
    files, pkg = odd_files()
    cases["odd_named"] = pack(
        files, pkg,
        "transport=grpc+rest,python-gapic-namespace=Acme+Cloud,"
        "python-gapic-name=Gizmos,warehouse-package-name=acme-gizmos")

    # ------------------------------------------------------------------ #
    # Case 3: requests / responses from another package, several files,
    # several services, a service in a sub-package.
    # ------------------------------------------------------------------ #
    def cross_files(with_sub):
        common_pkg = "example.shared.type"
        CP = "." + common_pkg
        common = file_(
            "example/shared/type/common.proto", common_pkg, deps=STD_DEPS,
            messages=[
                message("SharedRequest",
                        [field("id", 1, F.TYPE_STRING, required=True),
                         field("level", 2, F.TYPE_ENUM, type_name=CP + ".Level",
                               required=True),
                         field("detail", 3, F.TYPE_MESSAGE, type_name=CP + ".Detail",
                               required=True)]),
                message("Detail", [field("note", 1, F.TYPE_STRING, required=True),
                                   field("at", 2, F.TYPE_MESSAGE,
                                         type_name=".google.protobuf.Timestamp")]),
                message("SharedResponse", [field("ok", 1, F.TYPE_BOOL)])],
            enums=[enum("Level", ["LEVEL_UNSPECIFIED", "LOW", "HIGH"])])
        pkg = "example.fleet.v2beta1"
        P = "." + pkg
        res_file = file_(
            "example/fleet/v2beta1/resources.proto", pkg, deps=STD_DEPS,
            messages=[
                message("Truck",
                        [field("name", 1, F.TYPE_STRING),
                         field("plate", 2, F.TYPE_STRING, required=True)],
                        resource=("fleet.example.com/Truck",
                                  ["projects/{project}/trucks/{truck}"])),
                message("UpdateTruckRequest",
                        [field("truck", 1, F.TYPE_MESSAGE, type_name=P + ".Truck",
                               required=True),
                         field("shared", 2, F.TYPE_MESSAGE,
                               type_name=CP + ".SharedRequest", required=True),
                         field("update_mask", 3, F.TYPE_MESSAGE,
                               type_name=".google.protobuf.FieldMask")])])
        svc_file = file_(
            "example/fleet/v2beta1/fleet_service.proto", pkg,
            deps=STD_DEPS + ["example/shared/type/common.proto",
                             "example/fleet/v2beta1/resources.proto"],
            services=[
                service("FleetService",
                        [method("Check", CP + ".SharedRequest", CP + ".SharedResponse",
                                http=("post", "/v2beta1/check", "*"), sigs=["id"]),
                         method("UpdateTruck", P + ".UpdateTruckRequest", P + ".Truck",
                                http=("patch", "/v2beta1/{truck.name=projects/*/trucks/*}",
                                      "truck"), sigs=["truck,update_mask"]),
                         method("WatchChecks", CP + ".SharedRequest",
                                CP + ".SharedResponse", ss=True),
                         method("Wait", ".google.protobuf.Duration",
                                ".google.protobuf.Empty")],
                        host="fleet.example.com"),
                service("DepotService",
                        [method("Check", CP + ".SharedRequest", P + ".Truck",
                                http=("post", "/v2beta1/depot:check", "*"))],
                        host="depot.fleet.example.com")])
        files = [common, res_file, svc_file]
        if with_sub:
            sub_pkg = pkg + ".admin"
            SP = "." + sub_pkg
            files.append(file_(
                "example/fleet/v2beta1/admin/admin.proto", sub_pkg,
                deps=STD_DEPS + ["example/fleet/v2beta1/resources.proto"],
                messages=[message("AuditRequest",
                                  [field("truck", 1, F.TYPE_STRING, required=True,
                                         resource_ref="fleet.example.com/Truck")]),
                          message("AuditResponse", [field("log", 1, F.TYPE_STRING)])],
                services=[service("AdminService",
                                  [method("Audit", SP + ".AuditRequest",
                                          SP + ".AuditResponse")],
                                  host="fleet.example.com")]))
        return files, pkg

    files, pkg = cross_files(False)
    cases["cross_grpc_rest"] = pack(files, pkg, "transport=grpc+rest", raw=True)
    files, pkg = cross_files(False)
    cases["cross_rest_only"] = pack(files, pkg, "transport=rest,rest-numeric-enums")
    files, pkg = cross_files(True)
    # (a service in a sub-package: whatever happens - output or exception -
    # must be the same for both trees)
    cases["cross_subpackage"] = pack(files, pkg, "")

    # ------------------------------------------------------------------ #
    # Case 4: handwritten sample configs on top of the generated ones:
    # two specs that share an id (-> both get their hash appended), a spec
    # with its own id, one that falls back to the region tag, one flattened
    # nowhere but with explicit request/response statements.
    # ------------------------------------------------------------------ #
    samples_yaml = os.path.join(tmpdir, "library_samples.yaml")
    with open(samples_yaml, "w") as f:
        f.write(
            "type: com.google.api.codegen.samplegen.v1p2.SampleConfigProto\n"
            "schema_version: 1.2.0\n"
            "samples:\n"
            "- id: shared_id\n"
            "  region_tag: handwritten_get_book_one\n"
            "  service: google.example.library.v1.LibraryService\n"
            "  rpc: GetBook\n"
            "  description: first of two samples with the same id\n"
            "  request:\n"
            "  - field: name\n"
            "    value: shelves/s1/books/b1\n"
            "  response:\n"
            "  - print: ['Got %s', '$resp.author']\n"
            "- id: shared_id\n"
            "  region_tag: handwritten_get_book_two\n"
            "  service: google.example.library.v1.LibraryService\n"
            "  rpc: GetBook\n"
            "  description: second of two samples with the same id\n"
            "  request:\n"
            "  - field: name\n"
            "    value: shelves/s2/books/b2\n"
            "    input_parameter: book_name\n"
            "  response:\n"
            "  - comment: ['the author of %s', '$resp.name']\n"
            "  - define: author=$resp.author\n"
            "  - print: ['%s wrote it', author]\n"
            "- id: MyOwnListBooksID\n"
            "  region_tag: handwritten_list_books\n"
            "  service: google.example.library.v1.LibraryService\n"
            "  rpc: ListBooks\n"
            "  request:\n"
            "  - field: parent\n"
            "    value: shelves/s1\n"
            "- region_tag: handwritten_delete_book_regiontag_only\n"
            "  service: google.example.library.v1.LibraryService\n"
            "  rpc: DeleteBook\n"
            "  request:\n"
            "  - field: name\n"
            "    value: shelves/s1/books/b1\n"
            "  - field: force\n"
            "    value: true\n"
            "- region_tag: handwritten_stream_books\n"
            "  service: google.example.library.v1.LibraryService\n"
            "  rpc: StreamBooks\n"
            "  transport: grpc-async\n"
            "  request:\n"
            "  - field: shelf\n"
            "    value: shelves/s1\n"
            "  response:\n"
            "  - print: ['%s', '$resp.name']\n")
    cases["library_handwritten"] = pack(
        library_files(), "google.example.library.v1",
        "transport=grpc+rest,samples=" + samples_yaml, raw=True)
    cases["library_handwritten_only"] = pack(
        library_files(), "google.example.library.v1",
        "autogen-snippets=false,samples=" + samples_yaml)

    # the same spec twice -> DuplicateSample from both trees
    dup_yaml = os.path.join(tmpdir, "dup_samples.yaml")
    with open(dup_yaml, "w") as f:
        spec = (
            "- region_tag: dup_tag\n"
            "  service: google.example.library.v1.LibraryService\n"
            "  rpc: GetBook\n")
        f.write(
            "type: com.google.api.codegen.samplegen.v1p2.SampleConfigProto\n"
            "schema_version: 1.2.0\n"
            "samples:\n" + spec + spec)
    cases["library_duplicate_spec"] = pack(
        library_files(), "google.example.library.v1", "samples=" + dup_yaml)

    # ------------------------------------------------------------------ #
    # Case 5: no API at all - macro / helper level matrix (see unit_level)
    # ------------------------------------------------------------------ #
    cases["unit_level_matrix"] = {"unit": True}

    return cases


# --------------------------------------------------------------------------- #
# Parent mode
# --------------------------------------------------------------------------- #
def main(argv):
    if len(argv) >= 2 and argv[1] == "--child":
        return child(argv[2], argv[3], argv[4])
    if len(argv) != 2:
        print(__doc__)
        return 2

    checkout = os.path.abspath(argv[1])
    tmpdir = tempfile.mkdtemp(prefix="twin-demo-U14-")
    try:
        pristine = os.path.join(tmpdir, "pristine")
        os.mkdir(pristine)
        archive = subprocess.Popen(
            ["git", "-C", checkout, "archive", "HEAD"], stdout=subprocess.PIPE)
        subprocess.check_call(["tar", "-x", "-C", pristine], stdin=archive.stdout)
        if archive.wait() != 0:
            print("git archive failed")
            return 1

        cases = _build_cases(tmpdir)
        env = dict(os.environ, PYTHONDONTWRITEBYTECODE="1", PYTHONHASHSEED="0")
        env.pop("PYTHONPATH", None)

        jobs = []
        for name, case in cases.items():
            case_path = os.path.join(tmpdir, name + ".case")
            with open(case_path, "wb") as f:
                pickle.dump(case, f)
            for label, tree in (("old", pristine), ("new", checkout)):
                out_path = os.path.join(tmpdir, f"{name}.{label}.out")
                jobs.append((name, label, out_path, [
                    sys.executable, os.path.abspath(__file__), "--child", tree,
                    case_path, out_path]))

        # run the children a few at a time
        width = max(2, min(12, os.cpu_count() or 2))
        failed = False
        outputs = {}
        pending = list(jobs)
        running = []
        while pending or running:
            while pending and len(running) < width:
                name, label, out_path, cmd = pending.pop(0)
                p = subprocess.Popen(cmd, cwd=tmpdir, env=env,
                                     stdout=subprocess.PIPE, stderr=subprocess.STDOUT)
                running.append((name, label, out_path, p))
            name, label, out_path, p = running.pop(0)
            log = p.communicate()[0].decode("utf8", "replace")
            if p.returncode != 0 or not os.path.exists(out_path):
                failed = True
                print(f"[{name}/{label}] generator subprocess failed:\n{log[-2000:]}")
                continue
            with open(out_path, "rb") as f:
                outputs[(name, label)] = pickle.load(f)
        if failed:
            return 1

        diffs = []
        total_files = 0
        total_samples = 0
        total_raw = 0
        total_docstring_snippets = 0
        exceptions = []
        for name in cases:
            old, new = outputs[(name, "old")], outputs[(name, "new")]
            total_files += sum(1 for k in old if not k.startswith("raw/"))
            total_raw += sum(1 for k in old if k.startswith("raw/"))
            total_samples += sum(
                1 for k in old if k.startswith("samples/generated_samples/"))
            total_docstring_snippets += sum(
                v.count(b".. code-block:: python") for k, v in old.items()
                if k.endswith("/client.py") and not k.startswith("raw/"))
            if "<EXCEPTION>" in old:
                exceptions.append(f"{name}: {old['<EXCEPTION>'].decode()[:90]}")
            for fname in sorted(set(old) | set(new)):
                if fname not in new:
                    diffs.append(f"{name}: {fname} missing with the change")
                elif fname not in old:
                    diffs.append(f"{name}: {fname} only with the change")
                elif old[fname] != new[fname]:
                    diffs.append(f"{name}: {fname} differs")

        if diffs:
            print(f"DIFFERENT: {len(diffs)} file(s)")
            for line in diffs:
                print("  " + line)
            return 1
        extra = f"; identical exceptions in: {exceptions}" if exceptions else ""
        print(f"IDENTICAL: {len(cases)} cases, {total_files} output files "
              f"({total_samples} under samples/generated_samples, "
              f"{total_docstring_snippets} snippets embedded in sync client docstrings) "
              f"byte-for-byte equal between HEAD and the working tree, and so are "
              f"{total_raw} files re-generated without whitespace post-processing{extra}")
        return 0
    finally:
        shutil.rmtree(tmpdir, ignore_errors=True)


if __name__ == "__main__":
    sys.exit(main(sys.argv))
