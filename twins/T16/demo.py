#!/usr/bin/env python
"""Twin demo for T16 (selective GAPIC generation refactoring).

Usage:  /venv/bin/python demo.py <path-to-a-checkout-with-the-change>

The script exports the pristine HEAD of the checkout, builds several API
descriptions in Python (no protoc), runs the generator of BOTH trees on each
(API description x options x service-yaml) case in separate subprocesses and
compares all emitted files byte for byte.  Cases that are expected to be
rejected (invalid selective_gapic_generation settings) compare the exception
type and message instead.
"""

import json
import os
import pickle
import shutil
import subprocess
import sys
import tempfile


# --------------------------------------------------------------------------
# Worker: runs inside a subprocess with exactly one copy of `gapic` importable.
# --------------------------------------------------------------------------
def worker(tree: str, cases_path: str, out_path: str) -> None:
    sys.path.insert(0, tree)
    sys.dont_write_bytecode = True

    import pypandoc  # type: ignore

    def _fake_convert_text(text, to, format=None, extra_args=(), **kwargs):
        # pandoc is not installed; the same deterministic stub is used for both trees.
        return "\n".join(line.rstrip() for line in str(text).splitlines())

    pypandoc.convert_text = _fake_convert_text

    import gapic
    from google.protobuf import descriptor_pb2
    from gapic.schema import api as gapic_api
    from gapic.generator import Generator
    from gapic.utils import Options

    def check_modules_come_from_tree():
        # `gapic` is a namespace package (an editable install may also be on the path):
        # make sure that every gapic module that was actually loaded comes from `tree`.
        root = os.path.realpath(tree) + os.sep
        for mod_name, mod in list(sys.modules.items()):
            if mod_name == "gapic" or mod_name.startswith("gapic."):
                mod_file = getattr(mod, "__file__", None)
                if mod_file is not None:
                    assert os.path.realpath(mod_file).startswith(root), (mod_name, mod_file, tree)
        assert os.path.realpath(list(gapic.__path__)[0]).startswith(root), list(gapic.__path__)

    check_modules_come_from_tree()

    with open(cases_path, "rb") as f:
        cases = pickle.load(f)

    results = {}
    for case in cases:
        fdps = [descriptor_pb2.FileDescriptorProto.FromString(b) for b in case["files"]]
        try:
            opts = Options.build(case["opts"])
            api_schema = gapic_api.API.build(fdps, opts=opts, package=case["package"])
            res = Generator(opts).get_response(api_schema, opts)
            files = {}
            for out_file in res.file:
                assert out_file.name not in files, out_file.name
                files[out_file.name] = out_file.content.encode("utf-8")
            # Also record the model-level facts the property talks about.
            model = []
            for proto_name, proto in sorted(api_schema.all_protos.items()):
                model.append("proto " + proto_name)
                for svc_name, svc in proto.services.items():
                    model.append(
                        "  service %s client=%s async=%s internal=%s"
                        % (svc_name, svc.client_name, svc.async_client_name, svc.is_internal)
                    )
                    for m_name, m in svc.methods.items():
                        model.append(
                            "    rpc %s -> %s internal=%s"
                            % (m_name, m.client_method_name, m.is_internal)
                        )
                model.extend("  message " + k for k in proto.all_messages)
                model.extend("  enum " + k for k in proto.all_enums)
            files["<model>"] = "\n".join(model).encode("utf-8")
            results[case["id"]] = ("ok", files)
        except Exception as exc:  # noqa: BLE001 - the failure mode is part of the comparison
            if not case.get("expect_error"):
                import traceback

                traceback.print_exc()
            results[case["id"]] = ("error", {"<exception>": ("%s: %s" % (type(exc).__name__, exc)).encode("utf-8")})

    check_modules_come_from_tree()
    with open(out_path, "wb") as f:
        pickle.dump(results, f)


# --------------------------------------------------------------------------
# Descriptor construction helpers (parent process only).
# --------------------------------------------------------------------------
def build_cases(scratch: str):
    from google.protobuf import descriptor_pb2 as d
    from google.protobuf import descriptor_pool
    from google.api import annotations_pb2, client_pb2, field_behavior_pb2, resource_pb2
    from google.cloud import extended_operations_pb2 as ex_ops_pb2
    from google.longrunning import operations_pb2
    from google.protobuf import empty_pb2, field_mask_pb2, timestamp_pb2  # noqa: F401

    T = d.FieldDescriptorProto
    pool = descriptor_pool.Default()

    def dependency_closure(names):
        """FileDescriptorProtos of `names` and everything they import, deps first."""
        ordered, seen = [], set()

        def visit(name):
            if name in seen:
                return
            seen.add(name)
            fd = pool.FindFileByName(name)
            for dep in fd.dependencies:
                visit(dep.name)
            fdp = d.FileDescriptorProto()
            fd.CopyToProto(fdp)
            ordered.append(fdp)

        for n in names:
            visit(n)
        return ordered

    def field(name, number, type_=T.TYPE_STRING, type_name=None, label=T.LABEL_OPTIONAL,
              oneof_index=None, resource_ref=None, child_ref=None, required=False,
              op_field=None, op_request_field=None, op_response_field=None):
        f = T(name=name, number=number, type=type_, label=label,
              json_name="".join(w if i == 0 else w.capitalize() for i, w in enumerate(name.split("_"))))
        if type_name:
            f.type_name = type_name
        if oneof_index is not None:
            f.oneof_index = oneof_index
        if resource_ref:
            f.options.Extensions[resource_pb2.resource_reference].type = resource_ref
        if child_ref:
            f.options.Extensions[resource_pb2.resource_reference].child_type = child_ref
        if required:
            f.options.Extensions[field_behavior_pb2.field_behavior].append(
                field_behavior_pb2.FieldBehavior.Value("REQUIRED"))
        if op_field is not None:
            f.options.Extensions[ex_ops_pb2.operation_field] = op_field
        if op_request_field:
            f.options.Extensions[ex_ops_pb2.operation_request_field] = op_request_field
        if op_response_field:
            f.options.Extensions[ex_ops_pb2.operation_response_field] = op_response_field
        return f

    def message(name, fields=(), nested=(), enums=(), oneofs=(), resource=None, map_entry=False):
        m = d.DescriptorProto(name=name, field=list(fields), nested_type=list(nested),
                              enum_type=list(enums))
        for o in oneofs:
            m.oneof_decl.add(name=o)
        if resource:
            r = m.options.Extensions[resource_pb2.resource]
            r.type = resource[0]
            r.pattern.extend(resource[1:])
        if map_entry:
            m.options.map_entry = True
        return m

    def enum(name, *values):
        return d.EnumDescriptorProto(
            name=name,
            value=[d.EnumValueDescriptorProto(name=v, number=i) for i, v in enumerate(values)],
        )

    def map_entry(name, value_type=T.TYPE_STRING, value_type_name=None):
        return message(name, fields=[field("key", 1),
                                     field("value", 2, value_type, value_type_name)], map_entry=True)

    def rpc(name, inp, out, http=None, body=None, signature=None, client_streaming=False,
            server_streaming=False, lro=None, op_service=None, polling=False):
        m = d.MethodDescriptorProto(name=name, input_type=inp, output_type=out,
                                    client_streaming=client_streaming,
                                    server_streaming=server_streaming)
        if http:
            verb, path = http
            rule = m.options.Extensions[annotations_pb2.http]
            setattr(rule, verb, path)
            if body:
                rule.body = body
        if signature is not None:
            m.options.Extensions[client_pb2.method_signature].append(signature)
        if lro:
            info = m.options.Extensions[operations_pb2.operation_info]
            info.response_type, info.metadata_type = lro
        if op_service:
            m.options.Extensions[ex_ops_pb2.operation_service] = op_service
        if polling:
            m.options.Extensions[ex_ops_pb2.operation_polling_method] = True
        return m

    def service(name, methods, host, scopes="https://www.googleapis.com/auth/cloud-platform"):
        s = d.ServiceDescriptorProto(name=name, method=list(methods))
        s.options.Extensions[client_pb2.default_host] = host
        s.options.Extensions[client_pb2.oauth_scopes] = scopes
        return s

    def file_(name, package, deps=(), messages=(), enums=(), services=()):
        fdp = d.FileDescriptorProto(name=name, package=package, syntax="proto3",
                                    dependency=list(deps), message_type=list(messages),
                                    enum_type=list(enums), service=list(services))
        # Source info with a few comments so docstrings are not all empty.
        for i, m in enumerate(fdp.message_type):
            fdp.source_code_info.location.add(path=[4, i], leading_comments=" The %s message.\n" % m.name)
        for i, s in enumerate(fdp.service):
            fdp.source_code_info.location.add(path=[6, i], leading_comments=" The %s service.\n" % s.name)
            for j, meth in enumerate(s.method):
                fdp.source_code_info.location.add(
                    path=[6, i, 2, j], leading_comments=" Calls %s on the ``%s`` service.\n" % (meth.name, s.name))
        return fdp

    # ---------------------------------------------------------------- library
    P = "acme.library.v1"
    Q = "." + P
    resources = file_(
        "acme/library/v1/resources.proto", P,
        deps=["google/api/resource.proto", "google/api/field_behavior.proto",
              "google/protobuf/timestamp.proto"],
        enums=[enum("Genre", "GENRE_UNSPECIFIED", "FICTION", "SCIENCE"),
               enum("UnusedGenre", "UNUSED_GENRE_UNSPECIFIED", "NONE")],
        messages=[
            message(
                "Book",
                resource=("library.example.com/Book", "shelves/{shelf}/books/{book}"),
                oneofs=["format"],
                enums=[enum("Kind", "KIND_UNSPECIFIED", "HARDCOVER", "PAPERBACK")],
                nested=[
                    message("Chapter", fields=[field("title", 1),
                                               field("sub_chapters", 2, T.TYPE_MESSAGE, Q + ".Book.Chapter",
                                                     label=T.LABEL_REPEATED)]),
                    map_entry("LabelsEntry"),
                    map_entry("AppendixEntry", T.TYPE_MESSAGE, Q + ".Appendix"),
                ],
                fields=[
                    field("name", 1),
                    field("title", 2, required=True),
                    field("kind", 3, T.TYPE_ENUM, Q + ".Book.Kind"),
                    field("genre", 4, T.TYPE_ENUM, Q + ".Genre"),
                    field("chapters", 5, T.TYPE_MESSAGE, Q + ".Book.Chapter", label=T.LABEL_REPEATED),
                    field("labels", 6, T.TYPE_MESSAGE, Q + ".Book.LabelsEntry", label=T.LABEL_REPEATED),
                    field("appendix", 7, T.TYPE_MESSAGE, Q + ".Book.AppendixEntry", label=T.LABEL_REPEATED),
                    field("pdf", 8, oneof_index=0),
                    field("sample", 9, T.TYPE_MESSAGE, Q + ".Book.Chapter", oneof_index=0),
                    field("sequel", 10, T.TYPE_MESSAGE, Q + ".Book"),
                    field("author", 11, resource_ref="library.example.com/Author"),
                    field("create_time", 12, T.TYPE_MESSAGE, ".google.protobuf.Timestamp"),
                    field("class", 13),
                ],
            ),
            message("Appendix", fields=[field("text", 1), field("owner", 2, T.TYPE_MESSAGE, Q + ".Book")]),
            message("Author", resource=("library.example.com/Author", "authors/{author}"),
                    fields=[field("name", 1), field("publisher", 2, resource_ref="library.example.com/Publisher")]),
            message("Publisher", resource=("library.example.com/Publisher", "publishers/{publisher}"),
                    fields=[field("name", 1)]),
            message("Shelf", resource=("library.example.com/Shelf", "shelves/{shelf}"),
                    fields=[field("name", 1), field("theme", 2, T.TYPE_ENUM, Q + ".Genre")]),
            message("Unused", fields=[field("genre", 1, T.TYPE_ENUM, Q + ".UnusedGenre")]),
        ],
    )
    library = file_(
        "acme/library/v1/library.proto", P,
        deps=["google/api/annotations.proto", "google/api/client.proto", "google/api/resource.proto",
              "google/api/field_behavior.proto", "google/longrunning/operations.proto",
              "google/protobuf/empty.proto", "acme/library/v1/resources.proto"],
        messages=[
            message("GetBookRequest", fields=[field("name", 1, resource_ref="library.example.com/Book", required=True)]),
            message("ListBooksRequest", fields=[field("parent", 1, child_ref="library.example.com/Book"),
                                                field("page_size", 2, T.TYPE_INT32), field("page_token", 3)]),
            message("ListBooksResponse", fields=[field("books", 1, T.TYPE_MESSAGE, Q + ".Book", label=T.LABEL_REPEATED),
                                                 field("next_page_token", 2)]),
            message("DeleteBookRequest", fields=[field("name", 1, resource_ref="library.example.com/Book")]),
            message("MoveBookRequest", fields=[field("name", 1, resource_ref="library.example.com/Book"),
                                               field("other_shelf", 2, resource_ref="library.example.com/Shelf")]),
            message("MoveBookResponse", fields=[field("moved", 1, T.TYPE_BOOL)]),
            message("StreamBooksRequest", fields=[field("query", 1)]),
            message("ImportRequest", fields=[field("uri", 1), field("shelf", 2, resource_ref="library.example.com/Shelf")]),
            message("ImportResponse", fields=[field("count", 1, T.TYPE_INT64)]),
            message("ImportMetadata", fields=[field("progress", 1, T.TYPE_MESSAGE, Q + ".ImportMetadata.Progress")],
                    nested=[message("Progress", fields=[field("percent", 1, T.TYPE_INT32)])]),
            message("CreateShelfRequest", fields=[field("shelf", 1, T.TYPE_MESSAGE, Q + ".Shelf")]),
        ],
        services=[
            service("Library", host="library.example.com", methods=[
                rpc("GetBook", Q + ".GetBookRequest", Q + ".Book", http=("get", "/v1/{name=shelves/*/books/*}"), signature="name"),
                rpc("ListBooks", Q + ".ListBooksRequest", Q + ".ListBooksResponse", http=("get", "/v1/{parent=shelves/*}/books"), signature="parent"),
                rpc("DeleteBook", Q + ".DeleteBookRequest", ".google.protobuf.Empty", http=("delete", "/v1/{name=shelves/*/books/*}")),
                rpc("MoveBook", Q + ".MoveBookRequest", Q + ".MoveBookResponse", http=("post", "/v1/{name=shelves/*/books/*}:move"), body="*", signature="name,other_shelf"),
                rpc("StreamBooks", Q + ".StreamBooksRequest", Q + ".Book", http=("get", "/v1/books:stream"), server_streaming=True),
                rpc("Import", Q + ".ImportRequest", ".google.longrunning.Operation", http=("post", "/v1/books:import"), body="*",
                    lro=("ImportResponse", "ImportMetadata")),
            ]),
            service("Shelves", host="library.example.com", methods=[
                rpc("CreateShelf", Q + ".CreateShelfRequest", Q + ".Shelf", http=("post", "/v1/shelves"), body="shelf", signature="shelf"),
            ]),
        ],
    )
    admin = file_(
        "acme/library/v1/admin/admin.proto", P + ".admin",
        deps=["google/api/annotations.proto", "google/api/client.proto", "acme/library/v1/resources.proto"],
        enums=[enum("Severity", "SEVERITY_UNSPECIFIED", "LOW", "HIGH")],
        messages=[
            message("PurgeRequest", fields=[field("filter", 1), field("severity", 2, T.TYPE_ENUM, Q + ".admin.Severity")]),
            message("PurgeResponse", fields=[field("purged", 1, T.TYPE_MESSAGE, Q + ".Publisher", label=T.LABEL_REPEATED)]),
            message("AuditRecord", fields=[field("note", 1)]),
        ],
        services=[
            service("Admin", host="library.example.com", methods=[
                rpc("Purge", Q + ".admin.PurgeRequest", Q + ".admin.PurgeResponse", http=("post", "/v1/admin:purge"), body="*"),
                rpc("Audit", Q + ".admin.AuditRecord", Q + ".admin.AuditRecord", client_streaming=True, server_streaming=True),
            ]),
        ],
    )
    library_files = dependency_closure([
        "google/api/annotations.proto", "google/api/client.proto", "google/api/resource.proto",
        "google/api/field_behavior.proto", "google/longrunning/operations.proto",
        "google/protobuf/empty.proto", "google/protobuf/timestamp.proto",
    ])
    library_files_nosub = library_files + [resources, library]
    library_files = library_files + [resources, library, admin]

    # A second version of the library (used for the "method from another version" rejection).
    other_version = file_(
        "acme/library/v2/library.proto", "acme.library.v2",
        deps=["google/api/client.proto"],
        messages=[message("PingRequest"), message("PingResponse")],
        services=[service("Pinger", host="library.example.com", methods=[
            rpc("Ping", ".acme.library.v2.PingRequest", ".acme.library.v2.PingResponse")])],
    )

    # ---------------------------------------------------------------- compute (extended operations)
    C = "acme.compute.v1"
    CQ = "." + C
    compute = file_(
        "acme/compute/v1/compute.proto", C,
        deps=["google/api/annotations.proto", "google/api/client.proto", "google/api/field_behavior.proto",
              "google/cloud/extended_operations.proto"],
        messages=[
            message("Operation",
                    enums=[enum("Status", "UNDEFINED_STATUS", "DONE", "PENDING", "RUNNING")],
                    fields=[field("name", 1, op_field=ex_ops_pb2.NAME),
                            field("status", 2, T.TYPE_ENUM, CQ + ".Operation.Status", op_field=ex_ops_pb2.STATUS),
                            field("http_error_status_code", 3, T.TYPE_INT32, op_field=ex_ops_pb2.ERROR_CODE),
                            field("http_error_message", 4, op_field=ex_ops_pb2.ERROR_MESSAGE),
                            field("warnings", 5, T.TYPE_MESSAGE, CQ + ".Warning", label=T.LABEL_REPEATED)]),
            message("Warning", fields=[field("code", 1), field("message", 2)]),
            message("Instance", fields=[field("name", 1), field("disks", 2, T.TYPE_MESSAGE, CQ + ".AttachedDisk", label=T.LABEL_REPEATED)]),
            message("AttachedDisk", fields=[field("source", 1), field("mode", 2, T.TYPE_ENUM, CQ + ".AttachedDisk.Mode")],
                    enums=[enum("Mode", "UNDEFINED_MODE", "READ_ONLY", "READ_WRITE")]),
            message("Address", fields=[field("address", 1), field("region", 2)]),
            message("InsertInstanceRequest", fields=[
                field("project", 1, required=True, op_request_field="project"),
                field("zone", 2, required=True, op_request_field="zone"),
                field("instance_resource", 3, T.TYPE_MESSAGE, CQ + ".Instance", required=True)]),
            message("GetInstanceRequest", fields=[field("project", 1), field("zone", 2), field("instance", 3)]),
            message("ListInstancesRequest", fields=[field("project", 1), field("zone", 2),
                                                    field("max_results", 3, T.TYPE_UINT32), field("page_token", 4)]),
            message("InstanceList", fields=[field("items", 1, T.TYPE_MESSAGE, CQ + ".Instance", label=T.LABEL_REPEATED),
                                            field("next_page_token", 2)]),
            message("InsertAddressRequest", fields=[
                field("project", 1, required=True, op_request_field="project"),
                field("region", 2, required=True, op_request_field="region"),
                field("address_resource", 3, T.TYPE_MESSAGE, CQ + ".Address", required=True)]),
            message("GetZoneOperationRequest", fields=[
                field("operation", 1, required=True, op_response_field="name"),
                field("project", 2, required=True), field("zone", 3, required=True)]),
            message("DeleteZoneOperationRequest", fields=[field("operation", 1), field("project", 2), field("zone", 3)]),
            message("DeleteZoneOperationResponse"),
            message("GetRegionOperationRequest", fields=[
                field("operation", 1, required=True, op_response_field="name"),
                field("project", 2, required=True), field("region", 3, required=True)]),
            message("WaitRegionOperationRequest", fields=[field("operation", 1), field("project", 2), field("region", 3)]),
        ],
        services=[
            service("Instances", host="compute.example.com", methods=[
                rpc("Insert", CQ + ".InsertInstanceRequest", CQ + ".Operation",
                    http=("post", "/compute/v1/projects/{project}/zones/{zone}/instances"), body="instance_resource",
                    signature="project,zone,instance_resource", op_service="ZoneOperations"),
                rpc("Get", CQ + ".GetInstanceRequest", CQ + ".Instance",
                    http=("get", "/compute/v1/projects/{project}/zones/{zone}/instances/{instance}"), signature="project,zone,instance"),
                rpc("List", CQ + ".ListInstancesRequest", CQ + ".InstanceList",
                    http=("get", "/compute/v1/projects/{project}/zones/{zone}/instances"), signature="project,zone"),
            ]),
            service("Addresses", host="compute.example.com", methods=[
                rpc("Insert", CQ + ".InsertAddressRequest", CQ + ".Operation",
                    http=("post", "/compute/v1/projects/{project}/regions/{region}/addresses"), body="address_resource",
                    signature="project,region,address_resource", op_service="RegionOperations"),
            ]),
            service("ZoneOperations", host="compute.example.com", methods=[
                rpc("Get", CQ + ".GetZoneOperationRequest", CQ + ".Operation",
                    http=("get", "/compute/v1/projects/{project}/zones/{zone}/operations/{operation}"),
                    signature="project,zone,operation", polling=True),
                rpc("Delete", CQ + ".DeleteZoneOperationRequest", CQ + ".DeleteZoneOperationResponse",
                    http=("delete", "/compute/v1/projects/{project}/zones/{zone}/operations/{operation}")),
            ]),
            service("RegionOperations", host="compute.example.com", methods=[
                rpc("Get", CQ + ".GetRegionOperationRequest", CQ + ".Operation",
                    http=("get", "/compute/v1/projects/{project}/regions/{region}/operations/{operation}"),
                    signature="project,region,operation", polling=True),
                rpc("Wait", CQ + ".WaitRegionOperationRequest", CQ + ".Operation",
                    http=("post", "/compute/v1/projects/{project}/regions/{region}/operations/{operation}/wait")),
            ]),
        ],
    )
    compute_files = dependency_closure([
        "google/api/annotations.proto", "google/api/client.proto", "google/api/field_behavior.proto",
        "google/cloud/extended_operations.proto",
    ]) + [compute]

    # ---------------------------------------------------------------- minimal API without annotations
    M = "tiny.v1beta1"
    tiny = d.FileDescriptorProto(
        name="tiny/v1beta1/tiny.proto", package=M, syntax="proto3",
        message_type=[message("Req", fields=[field("inner", 1, T.TYPE_MESSAGE, "." + M + ".Req.Inner")],
                              nested=[message("Inner", fields=[field("again", 1, T.TYPE_MESSAGE, "." + M + ".Req")])]),
                      message("Resp"), message("Lonely")],
        enum_type=[enum("Colour", "COLOUR_UNSPECIFIED", "RED")],
        service=[d.ServiceDescriptorProto(name="Tiny", method=[
            rpc("Do", "." + M + ".Req", "." + M + ".Resp"),
            rpc("Return", "." + M + ".Resp", "." + M + ".Req"),
            rpc("Yield", "." + M + ".Req", "." + M + ".Req", client_streaming=True)]),
            d.ServiceDescriptorProto(name="Empty")],
    )
    tiny_files = [tiny]

    # ---------------------------------------------------------------- service yaml files
    yaml_counter = [0]

    def service_yaml(name, library_settings, apis=()):
        yaml_counter[0] += 1
        path = os.path.join(scratch, "service_%02d.yaml" % yaml_counter[0])
        config = {
            "type": "google.api.Service",
            "config_version": 3,
            "name": name,
            "publishing": {"library_settings": library_settings},
        }
        if apis:
            config["apis"] = [{"name": a} for a in apis]
        with open(path, "w") as f:
            json.dump(config, f, indent=1, sort_keys=True)  # JSON is valid YAML
        return path

    def selective(version, methods, internal=None):
        sel = {"methods": list(methods)}
        if internal is not None:
            sel["generate_omitted_as_internal"] = internal
        return {"version": version, "python_settings": {"common": {"selective_gapic_generation": sel}}}

    L = P + ".Library."
    cases = []

    def add(case_id, files, package, opts="", yaml_path=None, expect_error=False):
        opt_string = opts
        if yaml_path:
            opt_string = (opt_string + "," if opt_string else "") + "service-yaml=" + yaml_path
        cases.append({"id": case_id, "files": [f.SerializeToString(deterministic=True) for f in files],
                      "package": package, "opts": opt_string, "expect_error": expect_error})

    # NOTE: sub-packages are only combined with autogen-snippets=false and with method lists
    # that live entirely in the sub-package, because the unmodified generator already fails
    # otherwise (snippet generation looks services up by `<proto_package>.<Service>`, and the
    # sub-package views re-validate the settings against their own methods only).
    lib = library_files_nosub
    libsub = library_files

    # library: no yaml at all / settings for another version only / empty list
    add("library-full", lib, P)
    add("library-sub-full", libsub, P, "autogen-snippets=false")
    add("library-other-version-settings", lib + [other_version], P, "transport=grpc",
        service_yaml("library.example.com", [selective("acme.library.v2", [], internal=True)]))
    add("library-empty-method-list", lib, P, "autogen-snippets=false",
        service_yaml("library.example.com", [selective(P, [], internal=True)]))
    # library: omit mode, various subsets
    add("library-omit-getbook", lib, P, "",
        service_yaml("library.example.com", [selective(P, [L + "GetBook"])]))
    add("library-omit-lro-paged-rest", lib, P, "transport=rest,rest-numeric-enums",
        service_yaml("library.example.com", [selective(P, [L + "Import", L + "ListBooks"], internal=False)],
                     apis=["google.longrunning.Operations"]))
    add("library-omit-move-delete-stream", lib, P, "transport=grpc+rest,autogen-snippets=false",
        service_yaml("library.example.com", [selective(P, [L + "MoveBook", L + "DeleteBook", L + "StreamBooks"])]))
    add("library-omit-shelves-only", lib, P, "",
        service_yaml("library.example.com", [selective(P, [P + ".Shelves.CreateShelf"])]))
    add("library-omit-subpackage-only", libsub, P, "autogen-snippets=false",
        service_yaml("library.example.com", [selective(P, [P + ".admin.Admin.Purge"])]))
    add("library-omit-all-listed", lib, P, "metadata",
        service_yaml("library.example.com", [selective(P, [
            L + "GetBook", L + "ListBooks", L + "DeleteBook", L + "MoveBook", L + "StreamBooks", L + "Import",
            P + ".Shelves.CreateShelf"])]))
    # library: internal mode
    add("library-internal-getbook", lib, P, "",
        service_yaml("library.example.com", [selective(P, [L + "GetBook"], internal=True)]))
    add("library-internal-reserved-word-rest", lib, P, "transport=rest",
        service_yaml("library.example.com", [selective(P, [L + "ListBooks", P + ".Shelves.CreateShelf"],
                                                       internal=True)]))
    add("library-internal-import-public", lib, P, "autogen-snippets=false,rest-numeric-enums",
        service_yaml("library.example.com", [selective(P, [L + "Import"], internal=True)]))
    add("library-internal-subpackage-only", libsub, P, "autogen-snippets=false",
        service_yaml("library.example.com", [selective(P, [P + ".admin.Admin.Audit"], internal=True)]))
    # library: rejected settings
    add("library-reject-unknown", lib, P, "",
        service_yaml("library.example.com", [selective(P, [L + "GetBook", L + "Nonesuch"])]), expect_error=True)
    add("library-reject-mismatched-version", libsub, P, "",
        service_yaml("library.example.com", [selective(P + ".admin", [L + "GetBook", P + ".admin.Admin.Purge",
                                                                      P + ".admin.Admin.Missing"]),
                                             selective("acme.library.v2", ["acme.library.v2.Pinger.Ping"])]),
        expect_error=True)
    add("library-reject-duplicate-version", lib, P, "",
        service_yaml("library.example.com", [selective(P, [L + "GetBook"]), selective(P, [L + "Nope"]),
                                             selective("acme.library.v9", ["acme.library.v9.X.Y"])]),
        expect_error=True)

    # compute: extended operations
    I = C + ".Instances."
    add("compute-full", compute_files, C, "transport=rest")
    add("compute-omit-insert", compute_files, C, "transport=rest",
        service_yaml("compute.example.com", [selective(C, [I + "Insert"])]))
    add("compute-omit-get-list", compute_files, C, "transport=rest,rest-numeric-enums,autogen-snippets=false",
        service_yaml("compute.example.com", [selective(C, [I + "Get", I + "List"])]))
    add("compute-omit-address-and-wait", compute_files, C, "transport=rest",
        service_yaml("compute.example.com", [selective(C, [C + ".Addresses.Insert", C + ".RegionOperations.Wait"])]))
    add("compute-internal-insert", compute_files, C, "transport=rest",
        service_yaml("compute.example.com", [selective(C, [I + "Insert", C + ".ZoneOperations.Get"], internal=True)]))

    # tiny: no annotations, recursive types, reserved-word rpc names, a service without methods
    add("tiny-full", tiny_files, M, "transport=grpc")
    add("tiny-omit-do", tiny_files, M, "",
        service_yaml("tiny.example.com", [selective(M, [M + ".Tiny.Do"])]))
    add("tiny-omit-return", tiny_files, M, "autogen-snippets=false",
        service_yaml("tiny.example.com", [selective(M, [M + ".Tiny.Return"])]))
    add("tiny-internal-yield", tiny_files, M, "transport=grpc+rest",
        service_yaml("tiny.example.com", [selective(M, [M + ".Tiny.Yield"], internal=True)]))
    add("tiny-internal-return-public", tiny_files, M, "autogen-snippets=false",
        service_yaml("tiny.example.com", [selective(M, [M + ".Tiny.Do", M + ".Tiny.Yield"], internal=True)]))
    return cases


# --------------------------------------------------------------------------
# Driver
# --------------------------------------------------------------------------
def main(argv) -> int:
    if len(argv) >= 2 and argv[1] == "--worker":
        worker(argv[2], argv[3], argv[4])
        return 0
    if len(argv) != 2:
        print("usage: demo.py <path-to-a-checkout-with-your-change>")
        return 2

    checkout = os.path.abspath(argv[1])
    scratch = tempfile.mkdtemp(prefix="twin-T16-demo-")
    try:
        pristine = os.path.join(scratch, "pristine")
        os.mkdir(pristine)
        archive = subprocess.Popen(["git", "-C", checkout, "archive", "HEAD"], stdout=subprocess.PIPE)
        subprocess.check_call(["tar", "-x", "-C", pristine], stdin=archive.stdout)
        archive.stdout.close()
        if archive.wait() != 0:
            print("git archive failed")
            return 2

        cases = build_cases(scratch)
        cases_path = os.path.join(scratch, "cases.pkl")
        with open(cases_path, "wb") as f:
            pickle.dump(cases, f)

        env = dict(os.environ, PYTHONDONTWRITEBYTECODE="1", PYTHONHASHSEED="0")
        env.pop("PYTHONPATH", None)
        outputs = {}
        procs = {}
        for label, tree in (("pristine", pristine), ("changed", checkout)):
            out_path = os.path.join(scratch, label + ".pkl")
            procs[label] = (
                subprocess.Popen(
                    [sys.executable, os.path.abspath(__file__), "--worker", tree, cases_path, out_path],
                    cwd=scratch, env=env, stdout=subprocess.PIPE, stderr=subprocess.STDOUT),
                out_path,
            )
        for label, (proc, out_path) in procs.items():
            log, _ = proc.communicate(timeout=600)
            if proc.returncode != 0:
                print("worker for %s tree failed:\n%s" % (label, log.decode("utf-8", "replace")))
                return 2
            with open(out_path, "rb") as f:
                outputs[label] = pickle.load(f)
            if log.strip():
                print("[%s worker output]\n%s" % (label, log.decode("utf-8", "replace")))

        differing = []
        n_files = 0
        n_errors = 0
        for case in cases:
            cid = case["id"]
            status_a, files_a = outputs["pristine"][cid]
            status_b, files_b = outputs["changed"][cid]
            expected_status = "error" if case["expect_error"] else "ok"
            if status_a != expected_status:
                differing.append("%s: pristine tree gave %r, expected %r (%s)" % (
                    cid, status_a, expected_status, files_a.get("<exception>", b"")[:300]))
            if status_a != status_b:
                differing.append("%s: status %s vs %s" % (cid, status_a, status_b))
            if status_a == "error":
                n_errors += 1
            for name in sorted(set(files_a) | set(files_b)):
                n_files += 1
                if name not in files_a:
                    differing.append("%s: %s only produced by the changed tree" % (cid, name))
                elif name not in files_b:
                    differing.append("%s: %s only produced by the pristine tree" % (cid, name))
                elif files_a[name] != files_b[name]:
                    differing.append("%s: %s differs" % (cid, name))

        if differing:
            print("DIFFERENT: %d difference(s)" % len(differing))
            for line in differing:
                print("  " + line)
            return 1
        print("IDENTICAL: %d cases (%d rejected identically), %d outputs compared byte for byte" % (
            len(cases), n_errors, n_files))
        return 0
    finally:
        shutil.rmtree(scratch, ignore_errors=True)


if __name__ == "__main__":
    sys.exit(main(sys.argv))
