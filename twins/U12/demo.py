#!/venv/bin/python
"""Equivalence demo for the U12 refactoring (property C12: reserved-word and
colliding names are disambiguated without altering the wire).

Usage:  /venv/bin/python demo.py <path-to-a-checkout-with-the-change>

* exports the pristine HEAD of <checkout> (`git archive HEAD | tar -x`) into a
  temporary directory (the "base" tree); the working tree of <checkout>, with
  the uncommitted change, is the "changed" tree;
* builds several API descriptions (FileDescriptorProtos made in Python, no
  protoc) that exercise reserved-word fields / path variables / bodies /
  flattened parameters / routing fields / RPC names / proto file names, module
  name collisions, cross-package requests, maps / repeated / oneofs / optional,
  streaming, LRO, paging, several services, a sub-package;
* runs the generator on every case with BOTH trees, each in its own
  subprocess (so that the two copies of the `gapic` package never mix);
* compares the two sets of output files byte for byte (names and contents).

Exit status 0 and a one-line summary when everything is identical, 1 (with
the list of differing files) otherwise.
"""

import hashlib
import os
import pickle
import shutil
import subprocess
import sys
import tempfile


# ---------------------------------------------------------------------------
# Worker: runs inside a subprocess, with exactly one `gapic` tree importable.
# ---------------------------------------------------------------------------
def _worker(tree: str, cases_path: str, out_path: str) -> int:
    tree = os.path.realpath(tree)

    # The venv has an editable install of another checkout: drop its import
    # finder and every path entry that could provide `gapic`, then put the
    # tree under test first.
    sys.meta_path[:] = [
        f
        for f in sys.meta_path
        if "__editable__" not in getattr(f, "__module__", "")
        and "__editable__" not in getattr(type(f), "__module__", "")
        and "__editable__" not in getattr(f, "__name__", "")
    ]
    # ... including the path hook + placeholder path entry through which the
    # editable install contributes a portion to the `gapic` namespace package.
    sys.path_hooks[:] = [
        h
        for h in sys.path_hooks
        if "__editable__" not in (getattr(h, "__module__", "") or "")
        and "__editable__" not in (getattr(h, "__qualname__", "") or "")
        and "__editable__"
        not in (getattr(getattr(h, "__self__", None), "__module__", "") or "")
    ]
    for name in [m for m in sys.modules if m.startswith("__editable__")]:
        del sys.modules[name]
    kept = []
    for entry in sys.path:
        if "__editable__" in entry:
            continue
        real = os.path.realpath(entry or os.getcwd())
        if real != tree and os.path.isdir(os.path.join(real, "gapic")):
            continue
        if real == tree:
            continue
        kept.append(entry)
    sys.path[:] = [tree] + kept
    sys.path_importer_cache.clear()
    import importlib

    importlib.invalidate_caches()
    for name in [m for m in sys.modules if m == "gapic" or m.startswith("gapic.")]:
        del sys.modules[name]

    # pandoc is not installed: stub the conversion identically for both runs.
    import pypandoc

    def _fake_convert_text(text, to=None, format=None, extra_args=(), **kw):
        return "[[" + str(format) + "->" + str(to) + "]] " + text

    pypandoc.convert_text = _fake_convert_text

    from google.protobuf import descriptor_pb2

    import gapic
    from gapic import utils as gapic_utils
    from gapic.generator import generator as gapic_generator
    from gapic.schema import api as gapic_api
    from gapic.utils import rst as gapic_rst

    if hasattr(gapic_rst, "pypandoc"):
        gapic_rst.pypandoc.convert_text = _fake_convert_text

    with open(cases_path, "rb") as fh:
        cases = pickle.load(fh)

    results = {}
    for case in cases:
        protos = [
            descriptor_pb2.FileDescriptorProto.FromString(blob)
            for blob in case["files"]
        ]
        opts = gapic_utils.Options.build(case["options"])
        for tdir in opts.templates:
            assert os.path.realpath(tdir).startswith(tree + os.sep), (
                "template dir %s is not inside %s" % (tdir, tree)
            )
        schema = gapic_api.API.build(protos, opts=opts, package=case["package"])
        response = gapic_generator.Generator(opts).get_response(schema, opts)
        assert not response.error, response.error
        files = {}
        for f in response.file:
            assert f.name not in files, "duplicate output file " + f.name
            files[f.name] = f.content.encode("utf-8")
        assert files, "no output for case " + case["name"]
        results[case["name"]] = files

    # Every gapic module that was loaded must come from the tree under test.
    loaded = 0
    for name, mod in sorted(sys.modules.items()):
        if name == "gapic" or name.startswith("gapic."):
            origin = getattr(mod, "__file__", None)
            if origin is None:  # namespace package
                origins = [os.path.realpath(p) for p in mod.__path__]
            else:
                origins = [os.path.realpath(origin)]
            for o in origins:
                assert o.startswith(tree + os.sep), "%s loaded from %s, not %s" % (
                    name,
                    o,
                    tree,
                )
            loaded += 1
    assert loaded > 10, "suspiciously few gapic modules loaded"
    assert os.path.realpath(gapic.__path__[0]) == os.path.join(tree, "gapic")

    with open(out_path, "wb") as fh:
        pickle.dump(results, fh)
    return 0


# ---------------------------------------------------------------------------
# Descriptor construction helpers (parent process).
# ---------------------------------------------------------------------------
def _build_cases():
    from google.api import annotations_pb2, client_pb2, field_behavior_pb2
    from google.api import resource_pb2, routing_pb2
    from google.longrunning import operations_pb2
    from google.protobuf import descriptor_pb2 as dpb
    from google.protobuf import descriptor_pool
    from google.protobuf import empty_pb2, struct_pb2  # noqa: F401
    from google.protobuf import field_mask_pb2, timestamp_pb2  # noqa: F401

    F = dpb.FieldDescriptorProto
    pool = descriptor_pool.Default()

    def closure(*names):
        """FileDescriptorProtos of well-known files and their dependencies."""
        seen, order = set(), []

        def visit(name):
            if name in seen:
                return
            seen.add(name)
            fd = pool.FindFileByName(name)
            for dep in fd.dependencies:
                visit(dep.name)
            fdp = dpb.FileDescriptorProto()
            fd.CopyToProto(fdp)
            order.append(fdp)

        for n in names:
            visit(n)
        return order

    def field(name, number, type_=F.TYPE_STRING, type_name=None, repeated=False,
              oneof_index=None, optional=False, required=False, ref=None):
        f = F(name=name, number=number, type=type_,
              label=F.LABEL_REPEATED if repeated else F.LABEL_OPTIONAL)
        if type_name:
            f.type_name = type_name
        if oneof_index is not None:
            f.oneof_index = oneof_index
        if optional:
            f.proto3_optional = True
        if required:
            f.options.Extensions[field_behavior_pb2.field_behavior].append(
                field_behavior_pb2.REQUIRED)
        if ref:
            f.options.Extensions[resource_pb2.resource_reference].type = ref
        f.json_name = "".join(
            w if i == 0 else w[:1].upper() + w[1:]
            for i, w in enumerate(name.split("_")))
        return f

    def message(name, fields, oneofs=(), nested=(), enums=(), synthetic=()):
        m = dpb.DescriptorProto(name=name)
        m.field.extend(fields)
        for o in oneofs:
            m.oneof_decl.add(name=o)
        for o in synthetic:
            m.oneof_decl.add(name=o)
        m.nested_type.extend(nested)
        m.enum_type.extend(enums)
        return m

    def map_entry(name, value_type=F.TYPE_STRING, value_type_name=None):
        m = dpb.DescriptorProto(name=name)
        m.field.append(field("key", 1))
        m.field.append(field("value", 2, value_type, value_type_name))
        m.options.map_entry = True
        return m

    def enum(name, *values):
        e = dpb.EnumDescriptorProto(name=name)
        for i, v in enumerate(values):
            e.value.add(name=v, number=i)
        return e

    def method(name, inp, out, http=None, signatures=(), routing=(),
               client_streaming=False, server_streaming=False, lro=None,
               extra_bindings=()):
        m = dpb.MethodDescriptorProto(name=name, input_type=inp, output_type=out,
                                      client_streaming=client_streaming,
                                      server_streaming=server_streaming)
        if http:
            verb, uri, body = http
            rule = m.options.Extensions[annotations_pb2.http]
            setattr(rule, verb, uri)
            if body:
                rule.body = body
            for (v2, u2, b2) in extra_bindings:
                extra = rule.additional_bindings.add()
                setattr(extra, v2, u2)
                if b2:
                    extra.body = b2
        for s in signatures:
            m.options.Extensions[client_pb2.method_signature].append(s)
        for (fld, tmpl) in routing:
            p = m.options.Extensions[routing_pb2.routing].routing_parameters.add()
            p.field = fld
            if tmpl:
                p.path_template = tmpl
        if lro:
            info = m.options.Extensions[operations_pb2.operation_info]
            info.response_type, info.metadata_type = lro
        return m

    def service(name, host, methods, scopes="https://www.googleapis.com/auth/cloud-platform"):
        s = dpb.ServiceDescriptorProto(name=name)
        s.method.extend(methods)
        s.options.Extensions[client_pb2.default_host] = host
        s.options.Extensions[client_pb2.oauth_scopes] = scopes
        return s

    def file_(name, package, deps=(), messages=(), enums=(), services=()):
        f = dpb.FileDescriptorProto(name=name, package=package, syntax="proto3")
        f.dependency.extend(deps)
        f.message_type.extend(messages)
        f.enum_type.extend(enums)
        f.service.extend(services)
        return f

    common_deps = closure(
        "google/api/annotations.proto", "google/api/client.proto",
        "google/api/field_behavior.proto", "google/api/resource.proto",
        "google/api/routing.proto", "google/longrunning/operations.proto",
        "google/protobuf/empty.proto", "google/protobuf/struct.proto",
        "google/protobuf/field_mask.proto", "google/protobuf/timestamp.proto",
    )
    dep_names = [
        "google/api/annotations.proto", "google/api/client.proto",
        "google/api/field_behavior.proto", "google/api/resource.proto",
        "google/api/routing.proto", "google/longrunning/operations.proto",
        "google/protobuf/empty.proto", "google/protobuf/struct.proto",
        "google/protobuf/field_mask.proto", "google/protobuf/timestamp.proto",
    ]

    # -- API 1: reserved words in every position ---------------------------
    pkg1 = "google.example.reserved.v1"
    P1 = "." + pkg1
    book = message(
        "Book",
        [
            field("name", 1),
            field("class", 2),
            field("from", 3),
            field("type", 4, F.TYPE_ENUM, P1 + ".Book.Kind"),
            field("any", 5, F.TYPE_MESSAGE, ".google.protobuf.Value"),
            field("format", 6, repeated=True),
            field("mapping", 7, F.TYPE_MESSAGE, P1 + ".Book.MappingEntry", repeated=True),
            field("in", 8, F.TYPE_INT64, oneof_index=0),
            field("not", 9, oneof_index=0),
            field("license", 10, optional=True, oneof_index=1),
            field("__peg_parser__", 11),
            field("self", 12, F.TYPE_MESSAGE, P1 + ".Book.Inner"),
            field("title", 13),
        ],
        oneofs=["is"],
        synthetic=["_license"],
        nested=[
            map_entry("MappingEntry"),
            message("Inner", [field("class", 1), field("def", 2), field("plain", 3)]),
        ],
        enums=[enum("Kind", "KIND_UNSPECIFIED", "None", "HARDCOVER")],
    )
    book.options.Extensions[resource_pb2.resource].type = "reserved.example.com/Book"
    book.options.Extensions[resource_pb2.resource].pattern.append(
        "shelves/{shelf}/books/{book}")

    get_req = message("GetBookRequest", [
        field("class", 1, required=True),
        field("from", 2),
        field("book", 3, F.TYPE_MESSAGE, P1 + ".Book"),
        field("import", 4, F.TYPE_MESSAGE, P1 + ".Book"),
        field("name", 5, ref="reserved.example.com/Book"),
        field("max", 6, F.TYPE_INT32, optional=True, oneof_index=0),
        field("ignore_unknown_fields", 7, F.TYPE_BOOL),
    ], synthetic=["_max"])
    list_req = message("ListBooksRequest", [
        field("parent", 1, required=True),
        field("page_size", 2, F.TYPE_INT32),
        field("page_token", 3),
        field("filter", 4),
        field("type", 5),
    ])
    list_resp = message("ListBooksResponse", [
        field("books", 1, F.TYPE_MESSAGE, P1 + ".Book", repeated=True),
        field("next_page_token", 2),
    ])
    meta_msg = message("OperationMetadata", [field("class", 1), field("progress", 2, F.TYPE_INT32)])

    svc1 = service("Library", "reserved.example.com", [
        method("GetBook", P1 + ".GetBookRequest", P1 + ".Book",
               http=("get", "/v1/{class=shelves/*}/books/{book.from}", None),
               signatures=["class,from", "class"],
               routing=[("class", "{class=shelves/*}"), ("book.from", ""),
                        ("book.self.def", "{inner_def=**}")],
               extra_bindings=[("get", "/v1/{book.self.class=inner/*}", None)]),
        method("Import", P1 + ".GetBookRequest", P1 + ".Book",
               http=("post", "/v1/{class=shelves/*}:import", "import"),
               signatures=["class,import,book.class"]),
        method("Class", P1 + ".GetBookRequest", P1 + ".Book",
               http=("patch", "/v1/{book.name=shelves/*/books/*}", "book"),
               signatures=["book,from"]),
        method("Return", P1 + ".GetBookRequest", ".google.protobuf.Empty",
               http=("post", "/v1/{name=shelves/*/books/*}:return", "*")),
        method("CreateChannel", P1 + ".GetBookRequest", P1 + ".Book",
               http=("post", "/v1/channels", "*"), signatures=["max"]),
        method("GrpcChannel", P1 + ".GetBookRequest", P1 + ".Book"),
        method("ListBooks", P1 + ".ListBooksRequest", P1 + ".ListBooksResponse",
               http=("get", "/v1/{parent=shelves/*}/books", None),
               signatures=["parent", "parent,type"]),
        method("Yield", P1 + ".GetBookRequest", ".google.longrunning.Operation",
               http=("post", "/v1/{class=shelves/*}:yield", "*"),
               signatures=["class"], lro=("Book", "OperationMetadata")),
        method("StreamBooks", P1 + ".GetBookRequest", P1 + ".Book",
               server_streaming=True,
               http=("get", "/v1/{from=shelves/*}:stream", None),
               signatures=["from"]),
        method("Async", P1 + ".GetBookRequest", P1 + ".Book",
               client_streaming=True, server_streaming=True),
        method("Pass", P1 + ".GetBookRequest", P1 + ".Book", client_streaming=True),
    ])
    svc1b = service("OperationsClient", "reserved.example.com", [
        method("OperationsClient", P1 + ".GetBookRequest", P1 + ".Book",
               http=("get", "/v1/{name=shelves/*/books/*}", None),
               signatures=["name"]),
        method("Lambda", P1 + ".ListBooksRequest", P1 + ".ListBooksResponse",
               http=("get", "/v1/{parent=shelves/*}/lambdas", None)),
    ])
    files1 = common_deps + [
        file_("google/example/reserved/v1/import.proto", pkg1, dep_names,
              messages=[book, meta_msg]),
        file_("google/example/reserved/v1/metadata.proto", pkg1,
              dep_names + ["google/example/reserved/v1/import.proto"],
              messages=[get_req]),
        file_("google/example/reserved/v1/retry.proto", pkg1,
              dep_names + ["google/example/reserved/v1/import.proto"],
              messages=[list_req, list_resp]),
        file_("google/example/reserved/v1/class.proto", pkg1,
              dep_names + ["google/example/reserved/v1/import.proto",
                           "google/example/reserved/v1/metadata.proto",
                           "google/example/reserved/v1/retry.proto"],
              services=[svc1, svc1b]),
    ]

    # -- API 2: colliding module names, cross-package requests, sub-package -
    other_pkg = "google.other_things.v1"
    O = "." + other_pkg
    other_req = message("OtherRequest", [
        field("name", 1),
        field("tags", 2, repeated=True),
        field("class", 3),
        field("labels", 4, F.TYPE_MESSAGE, O + ".OtherRequest.LabelsEntry", repeated=True),
        field("values", 5, F.TYPE_MESSAGE, ".google.protobuf.Value", repeated=True),
        field("detail", 6, F.TYPE_MESSAGE, O + ".OtherDetail"),
        field("from", 7, F.TYPE_INT32, repeated=True),
        field("counts", 8, F.TYPE_INT32, repeated=True),
    ], nested=[map_entry("LabelsEntry")])
    other_detail = message("OtherDetail", [field("type", 1), field("note", 2)])
    other_file = file_("google/other_things/v1/resources.proto", other_pkg, dep_names,
                       messages=[other_req, other_detail])
    other_file2 = file_("google/other_things/v1/type.proto", other_pkg, dep_names,
                        messages=[message("Money", [field("units", 1, F.TYPE_INT64)])])

    pkg2 = "google.example.collide.v1"
    P2 = "." + pkg2
    thing = message("Thing", [
        field("name", 1),
        field("cost", 2, F.TYPE_MESSAGE, O + ".Money"),
        field("detail", 3, F.TYPE_MESSAGE, O + ".OtherDetail"),
        field("local", 4, F.TYPE_MESSAGE, P2 + ".LocalDetail"),
        field("state", 5, F.TYPE_ENUM, P2 + ".State"),
        field("sub_thing", 6, F.TYPE_MESSAGE, P2 + ".sub.SubThing"),
    ])
    local_detail = message("LocalDetail", [field("type", 1), field("thing_name", 2)])
    res_file = file_("google/example/collide/v1/resources.proto", pkg2,
                     dep_names + ["google/other_things/v1/resources.proto",
                                  "google/other_things/v1/type.proto",
                                  "google/example/collide/v1/sub/resources.proto"],
                     messages=[thing, local_detail],
                     enums=[enum("State", "STATE_UNSPECIFIED", "ACTIVE")])
    type_file = file_("google/example/collide/v1/type.proto", pkg2, dep_names,
                      messages=[message("LocalType", [field("type", 1), field("yield", 2)])])
    sub_file = file_("google/example/collide/v1/sub/resources.proto", pkg2 + ".sub",
                     dep_names + ["google/other_things/v1/type.proto"],
                     messages=[message("SubThing", [
                         field("class", 1),
                         field("price", 2, F.TYPE_MESSAGE, O + ".Money")]),
                         message("SubRequest", [field("name", 1), field("in", 2)])])
    sub_svc_file = file_(
        "google/example/collide/v1/sub/service.proto", pkg2 + ".sub",
        dep_names + ["google/example/collide/v1/sub/resources.proto"],
        services=[service("SubService", "collide.example.com", [
            method("GetSubThing", P2 + ".sub.SubRequest", P2 + ".sub.SubThing",
                   http=("get", "/v1/{name=subs/*}", None), signatures=["name,in"]),
        ])])
    svc2_file = file_(
        "google/example/collide/v1/service.proto", pkg2,
        dep_names + ["google/other_things/v1/resources.proto",
                     "google/other_things/v1/type.proto",
                     "google/example/collide/v1/resources.proto",
                     "google/example/collide/v1/type.proto",
                     "google/example/collide/v1/sub/resources.proto"],
        messages=[
            message("GetThingRequest", [field("name", 1), field("kind", 2, F.TYPE_MESSAGE, P2 + ".LocalType"),
                                        field("money", 3, F.TYPE_MESSAGE, O + ".Money")]),
        ],
        services=[
            service("Things", "collide.example.com", [
                method("GetThing", P2 + ".GetThingRequest", P2 + ".Thing",
                       http=("get", "/v1/{name=things/*}", None),
                       signatures=["name", "name,kind,money"]),
                # request type from another package: flattening of primitive,
                # repeated, map, reserved and message-typed fields.
                method("TouchOther", O + ".OtherRequest", O + ".OtherDetail",
                       http=("post", "/v1/{name=others/*}:touch", "*"),
                       # (reserved-word fields of a non-proto-plus request
                       # cannot be flattened: get_field raises KeyError in
                       # the base tree as well.)
                       signatures=["name,tags,labels,values,detail,counts"],
                       routing=[("name", ""), ("detail.note", "{dt=**}")]),
                method("PriceThing", P2 + ".GetThingRequest", O + ".Money",
                       http=("get", "/v1/{name=things/*}:price", None)),
                method("WatchOther", O + ".OtherRequest", P2 + ".Thing",
                       server_streaming=True, signatures=["tags"]),
            ]),
            service("MoreThings", "collide.example.com", [
                method("GetSub", P2 + ".sub.SubRequest", P2 + ".sub.SubThing",
                       http=("get", "/v1/{name=things/*}/sub", None),
                       signatures=["in"]),
            ]),
        ])
    # (a service in a sub-package makes snippet generation raise KeyError in
    # the base tree as well, so it is only used with autogen-snippets=false.)
    files2 = common_deps + [other_file, other_file2, sub_file,
                            res_file, type_file, svc2_file]
    files2_sub = common_deps + [other_file, other_file2, sub_file, sub_svc_file,
                                res_file, type_file, svc2_file]

    # -- API 3: no annotations at all, no version, oneofs / empty messages --
    pkg3 = "example.plain"
    P3 = "." + pkg3
    files3 = closure("google/protobuf/empty.proto") + [
        file_("example/plain/request.proto", pkg3, ["google/protobuf/empty.proto"],
              messages=[
                  message("Empty", []),
                  message("Choice", [
                      field("a", 1, oneof_index=0),
                      field("b", 2, F.TYPE_INT32, oneof_index=0),
                      field("only", 3, oneof_index=1),
                      field("opt", 4, optional=True, oneof_index=2),
                      field("while", 5, F.TYPE_MESSAGE, P3 + ".Empty"),
                  ], oneofs=["pick", "single"], synthetic=["_opt"]),
                  message("SingleMemberOneof", [field("lonely", 1, oneof_index=0),
                                                field("other", 2)], oneofs=["solo"]),
                  message("OnlyOptional", [field("lambda", 1, optional=True, oneof_index=0)],
                          synthetic=["_lambda"]),
              ]),
        file_("example/plain/timeout.proto", pkg3,
              ["google/protobuf/empty.proto", "example/plain/request.proto"],
              services=[dpb.ServiceDescriptorProto(name="Plain", method=[
                  method("Del", P3 + ".Choice", P3 + ".Empty"),
                  method("Do", P3 + ".Empty", ".google.protobuf.Empty"),
                  method("Chat", P3 + ".Choice", P3 + ".Choice",
                         client_streaming=True, server_streaming=True),
              ])]),
    ]

    ser = lambda fs: [f.SerializeToString(deterministic=True) for f in fs]
    cases = [
        dict(name="reserved-default", package=pkg1, files=ser(files1), options=""),
        dict(name="reserved-rest-numeric", package=pkg1, files=ser(files1),
             options="transport=rest,rest-numeric-enums,autogen-snippets=false"),
        dict(name="reserved-grpc-only", package=pkg1, files=ser(files1),
             options="transport=grpc,autogen-snippets=false"),
        dict(name="collide-default", package=pkg2, files=ser(files2), options=""),
        dict(name="collide-subservice", package=pkg2, files=ser(files2_sub),
             options="autogen-snippets=false"),
        dict(name="collide-rest", package=pkg2, files=ser(files2_sub),
             options="transport=rest,autogen-snippets=false"),
        dict(name="plain-unversioned", package=pkg3, files=ser(files3),
             options="autogen-snippets=false"),
    ]
    return cases


# ---------------------------------------------------------------------------
# Parent process.
# ---------------------------------------------------------------------------
def main(argv) -> int:
    if len(argv) >= 2 and argv[1] == "--worker":
        return _worker(argv[2], argv[3], argv[4])
    if len(argv) != 2:
        print(__doc__)
        return 2

    checkout = os.path.realpath(argv[1])
    tmp = tempfile.mkdtemp(prefix="twin-U12-demo-")
    try:
        base = os.path.join(tmp, "base")
        os.mkdir(base)
        archive = subprocess.Popen(
            ["git", "-C", checkout, "archive", "HEAD"], stdout=subprocess.PIPE)
        subprocess.check_call(["tar", "-x", "-C", base], stdin=archive.stdout)
        archive.stdout.close()
        if archive.wait() != 0:
            raise RuntimeError("git archive failed")

        cases = _build_cases()
        cases_path = os.path.join(tmp, "cases.pkl")
        with open(cases_path, "wb") as fh:
            pickle.dump(cases, fh)

        env = dict(os.environ)
        env.pop("PYTHONPATH", None)
        env["PYTHONHASHSEED"] = "0"
        env["PYTHONDONTWRITEBYTECODE"] = "1"
        outputs = {}
        procs = {}
        for label, tree in (("base", base), ("changed", checkout)):
            out_path = os.path.join(tmp, label + ".pkl")
            procs[label] = (out_path, subprocess.Popen(
                [sys.executable, os.path.abspath(__file__), "--worker", tree,
                 cases_path, out_path],
                cwd=tmp, env=env))
        for label, (out_path, proc) in procs.items():
            if proc.wait() != 0:
                print("worker for the %s tree failed" % label)
                return 1
            with open(out_path, "rb") as fh:
                outputs[label] = pickle.load(fh)

        differing = []
        total = 0
        digest = hashlib.sha256()
        for case in cases:
            a = outputs["base"][case["name"]]
            b = outputs["changed"][case["name"]]
            for fname in sorted(set(a) | set(b)):
                total += 1
                if fname not in a:
                    differing.append("%s: %s only with the change" % (case["name"], fname))
                elif fname not in b:
                    differing.append("%s: %s only in the base" % (case["name"], fname))
                elif a[fname] != b[fname]:
                    differing.append("%s: %s differs" % (case["name"], fname))
                else:
                    digest.update(fname.encode() + b"\0" + a[fname])
        if differing:
            print("DIFFERENT: %d of %d files differ" % (len(differing), total))
            for d in differing:
                print("  " + d)
            return 1
        print("IDENTICAL: %d cases, %d files compared byte for byte, sha256 %s"
              % (len(cases), total, digest.hexdigest()[:16]))
        return 0
    finally:
        shutil.rmtree(tmp, ignore_errors=True)


if __name__ == "__main__":
    sys.exit(main(sys.argv))
