#!/venv/bin/python
"""Equivalence demo for the W14 refactoring (property C14, generated samples).

Usage:  /venv/bin/python demo.py <path-to-a-checkout-with-the-change>

The script exports the pristine HEAD of the checkout (`git archive HEAD`) into a
temporary directory, builds several API descriptions in Python (no protoc), runs
the generator on each of them with BOTH trees (one subprocess per tree, so that
the two copies of the `gapic` package never mix) and compares every output file
(names and contents) byte for byte.

Exit status 0 and a one-line summary when everything is identical, 1 otherwise.
"""
import hashlib
import os
import pickle
import shutil
import subprocess
import sys
import tempfile

PYTHON = sys.executable or "/venv/bin/python"


# ---------------------------------------------------------------------------
# Worker: runs inside a subprocess, with exactly one `gapic` tree importable.
# ---------------------------------------------------------------------------
def worker(tree: str, in_path: str, out_path: str) -> None:
    tree = os.path.realpath(tree)

    # The venv has an editable install of another checkout: get rid of every
    # path entry / import finder that could provide `gapic`, then put the tree
    # under test first.
    sys.meta_path[:] = [
        finder
        for finder in sys.meta_path
        if "__editable__" not in getattr(finder, "__module__", "")
        and "__editable__" not in getattr(type(finder), "__module__", "")
        and "__editable__" not in getattr(finder, "__name__", "")
    ]
    sys.path_hooks[:] = [
        hook
        for hook in sys.path_hooks
        if "__editable__" not in (getattr(hook, "__module__", "") or "")
        and "__editable__" not in (getattr(hook, "__qualname__", "") or "")
    ]
    kept = []
    for entry in sys.path:
        if "__editable__" in entry:
            continue
        probe = entry or os.getcwd()
        if os.path.isdir(os.path.join(probe, "gapic")) and os.path.realpath(probe) != tree:
            continue
        kept.append(entry)
    sys.path[:] = [tree] + [e for e in kept if os.path.realpath(e or os.getcwd()) != tree]
    sys.path_importer_cache.clear()
    for name in [m for m in sys.modules if m == "gapic" or m.startswith("gapic.")]:
        del sys.modules[name]

    # pandoc is not installed: stub the conversion identically for both runs.
    import pypandoc  # noqa: E402

    def _convert_text(source, to=None, format=None, extra_args=(), **kwargs):
        return source

    pypandoc.convert_text = _convert_text

    from google.protobuf import descriptor_pb2  # noqa: E402

    from gapic.generator import generator  # noqa: E402
    from gapic.schema import api  # noqa: E402
    from gapic.utils import Options  # noqa: E402

    with open(in_path, "rb") as f:
        cases = pickle.load(f)

    results = {}
    for case in cases:
        fds = [descriptor_pb2.FileDescriptorProto.FromString(b) for b in case["files"]]
        opts = Options.build(case["options"])
        for tdir in opts.templates:
            assert os.path.realpath(tdir).startswith(tree + os.sep), (tdir, tree)
        api_schema = api.API.build(fds, package=case["package"], opts=opts)
        gen = generator.Generator(opts)
        for search in gen._env.loader.searchpath:
            assert os.path.realpath(search).startswith(tree + os.sep), (search, tree)
        response = gen.get_response(api_schema, opts)
        files = {}
        for out in response.file:
            assert out.name not in files, f"duplicate output file {out.name}"
            files[out.name] = out.content.encode("utf-8")
        results[case["name"]] = files

    # Every loaded gapic module must come from the tree under test.
    checked = 0
    for name, module in sorted(sys.modules.items()):
        if name != "gapic" and not name.startswith("gapic."):
            continue
        origin = getattr(module, "__file__", None)
        locations = [origin] if origin else list(getattr(module, "__path__", []))
        assert locations, f"{name}: no location"
        for loc in locations:
            assert os.path.realpath(loc).startswith(tree + os.sep), (name, loc, tree)
        checked += 1
    assert checked > 10, checked

    with open(out_path, "wb") as f:
        pickle.dump(results, f)


# ---------------------------------------------------------------------------
# Building the API descriptions (runs in the parent; needs only protobuf and
# googleapis-common-protos, never `gapic`).
# ---------------------------------------------------------------------------
def build_cases(scratch: str):
    from google.api import annotations_pb2, client_pb2, field_behavior_pb2, resource_pb2
    from google.longrunning import operations_pb2
    from google.protobuf import descriptor_pb2 as dpb
    from google.protobuf import empty_pb2

    F = dpb.FieldDescriptorProto
    SCALARS = {
        "string": F.TYPE_STRING,
        "bytes": F.TYPE_BYTES,
        "int32": F.TYPE_INT32,
        "int64": F.TYPE_INT64,
        "bool": F.TYPE_BOOL,
        "double": F.TYPE_DOUBLE,
        "float": F.TYPE_FLOAT,
        "uint32": F.TYPE_UINT32,
    }

    def wellknown_closure(*modules):
        """FileDescriptorProtos of the modules and all their dependencies."""
        seen, order = set(), []

        def visit(fd):
            if fd.name in seen:
                return
            seen.add(fd.name)
            for dep in fd.dependencies:
                visit(dep)
            proto = dpb.FileDescriptorProto()
            fd.CopyToProto(proto)
            order.append(proto)

        for module in modules:
            visit(module.DESCRIPTOR)
        return order

    deps = wellknown_closure(
        annotations_pb2,
        client_pb2,
        field_behavior_pb2,
        resource_pb2,
        operations_pb2,
        empty_pb2,
    )
    dep_names = [d.name for d in deps]

    def field(
        name,
        number,
        type_,
        *,
        repeated=False,
        required=False,
        oneof=None,
        enum=False,
        ref=None,
        child_ref=None,
        proto3_optional=False,
    ):
        f = F(name=name, number=number)
        f.label = F.LABEL_REPEATED if repeated else F.LABEL_OPTIONAL
        if type_ in SCALARS:
            f.type = SCALARS[type_]
        else:
            f.type = F.TYPE_ENUM if enum else F.TYPE_MESSAGE
            f.type_name = type_
        if required:
            f.options.Extensions[field_behavior_pb2.field_behavior].append(
                field_behavior_pb2.REQUIRED
            )
        if ref:
            f.options.Extensions[resource_pb2.resource_reference].type = ref
        if child_ref:
            f.options.Extensions[resource_pb2.resource_reference].child_type = child_ref
        if oneof is not None:
            f.oneof_index = oneof
        if proto3_optional:
            f.proto3_optional = True
        return f

    def message(name, fields, *, oneofs=(), resource=None, nested=(), enums=(), map_entry=False):
        m = dpb.DescriptorProto(name=name)
        m.field.extend(fields)
        for o in oneofs:
            m.oneof_decl.add(name=o)
        if resource:
            res = m.options.Extensions[resource_pb2.resource]
            res.type = resource[0]
            res.pattern.extend(resource[1])
        m.nested_type.extend(nested)
        m.enum_type.extend(enums)
        if map_entry:
            m.options.map_entry = True
        return m

    def map_entry(name, key_type, value_type):
        return message(
            name,
            [field("key", 1, key_type), field("value", 2, value_type)],
            map_entry=True,
        )

    def enum(name, values):
        e = dpb.EnumDescriptorProto(name=name)
        for i, v in enumerate(values):
            e.value.add(name=v, number=i)
        return e

    def method(
        name,
        inp,
        out,
        *,
        cstream=False,
        sstream=False,
        http=None,
        body=None,
        signatures=(),
        lro=None,
    ):
        m = dpb.MethodDescriptorProto(
            name=name,
            input_type=inp,
            output_type=out,
            client_streaming=cstream,
            server_streaming=sstream,
        )
        if http:
            rule = m.options.Extensions[annotations_pb2.http]
            setattr(rule, http[0], http[1])
            if body:
                rule.body = body
        for sig in signatures:
            m.options.Extensions[client_pb2.method_signature].append(sig)
        if lro:
            info = m.options.Extensions[operations_pb2.operation_info]
            info.response_type, info.metadata_type = lro
        return m

    def service(name, host, methods, scopes="https://www.googleapis.com/auth/cloud-platform"):
        s = dpb.ServiceDescriptorProto(name=name)
        s.method.extend(methods)
        s.options.Extensions[client_pb2.default_host] = host
        if scopes:
            s.options.Extensions[client_pb2.oauth_scopes] = scopes
        return s

    def proto_file(name, package, *, messages=(), enums=(), services=(), imports=()):
        fd = dpb.FileDescriptorProto(name=name, package=package, syntax="proto3")
        fd.dependency.extend(list(dep_names) + list(imports))
        fd.message_type.extend(messages)
        fd.enum_type.extend(enums)
        fd.service.extend(services)
        return fd

    def case(name, package, files, options):
        return {
            "name": name,
            "package": package,
            "files": [d.SerializeToString() for d in deps]
            + [f.SerializeToString() for f in files],
            "options": options,
        }

    EMPTY = ".google.protobuf.Empty"
    OPERATION = ".google.longrunning.Operation"

    # ---- case 1: every calling form, every kind of required field ---------
    def library_file(pkg="google.example.library.v1", with_http=True):
        p = "." + pkg
        book = message(
            "Book",
            [
                field("name", 1, "string"),
                field("title", 2, "string", required=True),
                field("rating", 3, f"{p}.Rating", enum=True),
                field("labels", 4, f"{p}.Book.LabelsEntry", repeated=True),
                field("class", 5, "string"),
            ],
            resource=("library.googleapis.com/Book", ["shelves/{shelf}/books/{book}"]),
            nested=[map_entry("LabelsEntry", "string", "string")],
        )
        shelf = message(
            "Shelf",
            [field("name", 1, "string"), field("theme", 2, "string")],
            resource=(
                "library.googleapis.com/Shelf",
                ["shelves/{shelf}", "projects/{project}/shelves/{shelf}"],
            ),
        )
        source = message(
            "Source",
            [
                field("uri", 1, "string", oneof=0),
                field("blob", 2, "bytes", oneof=0),
                field("pages", 3, "int32", required=True),
            ],
            oneofs=["origin"],
        )
        get_req = message(
            "GetBookRequest",
            [field("name", 1, "string", required=True, ref="library.googleapis.com/Book")],
        )
        create_req = message(
            "CreateBookRequest",
            [
                field(
                    "parent", 1, "string", required=True, child_ref="library.googleapis.com/Book"
                ),
                field("book", 2, f"{p}.Book", required=True),
                field("rating", 3, f"{p}.Rating", enum=True, required=True),
                field("tags", 4, f"{p}.Rating", enum=True, required=True, repeated=True),
                field("source", 5, f"{p}.Source", required=True),
                field("inline_text", 6, "string", oneof=0),
                field("inline_source", 7, f"{p}.Source", oneof=0),
                field("copies", 8, "int64", required=True),
                field("price", 9, "double", required=True),
                field("hardcover", 10, "bool", required=True),
                field("cover", 11, "bytes", required=True),
                field("isbns", 12, "string", required=True, repeated=True),
                field("nickname", 13, "string", proto3_optional=True, oneof=1),
            ],
            oneofs=["content", "_nickname"],
        )
        delete_req = message(
            "DeleteBookRequest",
            [
                field("name", 1, "string", required=True, ref="library.googleapis.com/Book"),
                field("force", 2, "bool"),
            ],
        )
        list_req = message(
            "ListBooksRequest",
            [
                field(
                    "parent", 1, "string", required=True, child_ref="library.googleapis.com/Book"
                ),
                field("page_size", 2, "int32"),
                field("page_token", 3, "string"),
            ],
        )
        list_resp = message(
            "ListBooksResponse",
            [
                field("books", 1, f"{p}.Book", repeated=True),
                field("next_page_token", 2, "string"),
            ],
        )
        import_req = message(
            "ImportBooksRequest",
            [
                field("parent", 1, "string", required=True),
                field("source", 2, f"{p}.Source", oneof=0),
                field("gcs_uri", 3, "string", oneof=0),
            ],
            oneofs=["input"],
        )
        import_resp = message("ImportBooksResponse", [field("count", 1, "int32")])
        import_meta = message("ImportBooksMetadata", [field("progress", 1, "int32")])
        stream_req = message(
            "StreamBooksRequest",
            [field("shelf", 1, "string", required=True), field("since", 2, "int64")],
        )
        chat_msg = message(
            "Remark",
            [field("text", 1, "string", required=True), field("from", 2, "string")],
        )
        nothing_req = message("PingRequest", [])

        def h(verb, path):
            return (verb, path) if with_http else None

        svc = service(
            "Library",
            "library.googleapis.com",
            [
                method(
                    "GetBook",
                    f"{p}.GetBookRequest",
                    f"{p}.Book",
                    http=h("get", "/v1/{name=shelves/*/books/*}"),
                    signatures=["name"],
                ),
                method(
                    "CreateBook",
                    f"{p}.CreateBookRequest",
                    f"{p}.Book",
                    http=h("post", "/v1/{parent=shelves/*}/books"),
                    body="*",
                    signatures=["parent,book", "parent,book,rating"],
                ),
                method(
                    "DeleteBook",
                    f"{p}.DeleteBookRequest",
                    EMPTY,
                    http=h("delete", "/v1/{name=shelves/*/books/*}"),
                    signatures=["name"],
                ),
                method(
                    "ListBooks",
                    f"{p}.ListBooksRequest",
                    f"{p}.ListBooksResponse",
                    http=h("get", "/v1/{parent=shelves/*}/books"),
                    signatures=["parent"],
                ),
                method(
                    "ImportBooks",
                    f"{p}.ImportBooksRequest",
                    OPERATION,
                    http=h("post", "/v1/{parent=shelves/*}/books:import"),
                    body="*",
                    lro=("ImportBooksResponse", "ImportBooksMetadata"),
                ),
                method(
                    "StreamBooks",
                    f"{p}.StreamBooksRequest",
                    f"{p}.Book",
                    sstream=True,
                    http=h("get", "/v1/{shelf=shelves/*}/books:stream"),
                ),
                method("UploadBooks", f"{p}.Book", f"{p}.ImportBooksResponse", cstream=True),
                method("Chat", f"{p}.Remark", f"{p}.Remark", cstream=True, sstream=True),
                method("Ping", f"{p}.PingRequest", EMPTY, http=h("get", "/v1/ping")),
            ],
        )
        return proto_file(
            pkg.replace(".", "/") + "/library.proto",
            pkg,
            messages=[
                book,
                shelf,
                source,
                get_req,
                create_req,
                delete_req,
                list_req,
                list_resp,
                import_req,
                import_resp,
                import_meta,
                stream_req,
                chat_msg,
                nothing_req,
            ],
            enums=[enum("Rating", ["RATING_UNSPECIFIED", "GOOD", "BAD"])],
            services=[svc],
        )

    cases = []
    cases.append(
        case("library-default", "google.example.library.v1", [library_file()], "")
    )

    # ---- case 2: REST only, numeric enums -----------------------------------
    cases.append(
        case(
            "library-rest",
            "google.example.library.v1",
            [library_file()],
            "transport=rest,rest-numeric-enums",
        )
    )

    # ---- case 3: requests from other packages, no namespace, reserved words,
    #              a sub-package with its own service, several services -------
    common = proto_file(
        "othercommon/v1/common.proto",
        "othercommon.v1",
        messages=[
            message(
                "LookupRequest",
                [
                    field("key", 1, "string", required=True),
                    field("kind", 2, ".othercommon.v1.Kind", enum=True, required=True),
                    field("detail", 3, ".othercommon.v1.Detail", required=True),
                ],
            ),
            message(
                "Detail",
                [field("depth", 1, "int32", required=True), field("note", 2, "string")],
            ),
            message("LookupResponse", [field("value", 1, "string")]),
        ],
        enums=[enum("Kind", ["KIND_UNSPECIFIED", "FAST", "SLOW"])],
    )
    mp = ".mollusc.v1"
    mollusc = proto_file(
        "mollusc/v1/mollusc.proto",
        "mollusc.v1",
        imports=["othercommon/v1/common.proto"],
        messages=[
            message(
                "ClassifyRequest",
                [
                    field("class", 1, "string", required=True),
                    field("from", 2, "string", required=True),
                    field("request", 3, "string"),
                    field("sample", 4, f"{mp}.Specimen", required=True),
                ],
            ),
            message(
                "Specimen",
                [
                    field("import", 1, "string", required=True),
                    field("weight", 2, "float", required=True),
                    field("photo", 3, "bytes", oneof=0),
                    field("sketch", 4, "string", oneof=0),
                ],
                oneofs=["picture"],
            ),
            message("ClassifyResponse", [field("taxon", 1, "string")]),
        ],
        services=[
            service(
                "Taxonomy",
                "mollusc.example.com",
                [
                    method(
                        "Classify",
                        f"{mp}.ClassifyRequest",
                        f"{mp}.ClassifyResponse",
                        signatures=["class,from"],
                    ),
                    method(
                        "Lookup",
                        ".othercommon.v1.LookupRequest",
                        ".othercommon.v1.LookupResponse",
                    ),
                    method(
                        "Import",
                        f"{mp}.Specimen",
                        f"{mp}.ClassifyResponse",
                        sstream=True,
                    ),
                ],
            ),
            service(
                "Global",
                "mollusc.example.com",
                [
                    method(
                        "WatchLookups",
                        ".othercommon.v1.LookupRequest",
                        ".othercommon.v1.LookupResponse",
                        cstream=True,
                        sstream=True,
                    ),
                    method("Forget", ".othercommon.v1.LookupRequest", EMPTY),
                ],
                scopes="",
            ),
        ],
    )
    # NB: a *service* in a sub-package makes sample generation fail at HEAD
    # (KeyError in generate_sample_specs), so the sub-package only has messages.
    sp = ".mollusc.v1.admin"
    mollusc_admin = proto_file(
        "mollusc/v1/admin/admin.proto",
        "mollusc.v1.admin",
        imports=["mollusc/v1/mollusc.proto"],
        messages=[
            message(
                "PurgeRequest",
                [
                    field("filter", 1, "string", required=True),
                    field("specimen", 2, f"{mp}.Specimen", required=True),
                    field("scope", 3, f"{sp}.Scope", required=True),
                ],
            ),
            message(
                "Scope",
                [
                    field("everything", 1, "bool", oneof=0),
                    field("older_than", 2, "int64", oneof=0),
                    field("mode", 3, f"{sp}.Mode", enum=True, required=True),
                ],
                oneofs=["extent"],
            ),
            message("PurgeResponse", [field("purged", 1, "int32")]),
        ],
        enums=[enum("Mode", ["MODE_UNSPECIFIED", "SOFT", "HARD"])],
    )
    mollusc_admin_service = proto_file(
        "mollusc/v1/admin_service.proto",
        "mollusc.v1",
        imports=["mollusc/v1/mollusc.proto", "mollusc/v1/admin/admin.proto"],
        services=[
            service(
                "Admin",
                "mollusc.example.com",
                [
                    method("Purge", f"{sp}.PurgeRequest", f"{sp}.PurgeResponse"),
                    method("Reclassify", f"{mp}.ClassifyRequest", f"{mp}.ClassifyResponse"),
                ],
            )
        ],
    )
    cases.append(
        case(
            "mollusc-foreign-requests",
            "mollusc.v1",
            [common, mollusc, mollusc_admin, mollusc_admin_service],
            "",
        )
    )

    # ---- case 4: internal methods (selective generation), gRPC only -------
    selective_yaml = os.path.join(scratch, "library_selective_v1.yaml")
    with open(selective_yaml, "w") as f:
        f.write(
            "type: google.api.Service\n"
            "config_version: 3\n"
            "name: library.googleapis.com\n"
            "title: Example Library API\n"
            "publishing:\n"
            "  library_settings:\n"
            "    - version: 'google.example.library.v1'\n"
            "      python_settings:\n"
            "        common:\n"
            "          selective_gapic_generation:\n"
            "            generate_omitted_as_internal: true\n"
            "            methods:\n"
            "              - google.example.library.v1.Library.GetBook\n"
            "              - google.example.library.v1.Library.ListBooks\n"
            "              - google.example.library.v1.Library.Chat\n"
        )
    cases.append(
        case(
            "library-internal-methods",
            "google.example.library.v1",
            [library_file(with_http=False)],
            f"transport=grpc,service-yaml={selective_yaml}",
        )
    )

    # ---- case 5: handwritten sample configs only (autogen off):
    #              resource-name requests, input parameters, file values,
    #              every kind of response statement ------------------------
    samples_yaml = os.path.join(scratch, "library_samples.yaml")
    with open(samples_yaml, "w") as f:
        f.write(HANDWRITTEN_SAMPLES)
    cases.append(
        case(
            "library-handwritten-only",
            "google.example.library.v1",
            [library_file()],
            f"autogen-snippets=false,samples={samples_yaml}",
        )
    )

    # ---- case 6: handwritten and generated samples together ---------------
    cases.append(
        case(
            "library-handwritten-and-autogen",
            "google.example.library.v1",
            [library_file()],
            f"samples={samples_yaml},transport=grpc+rest",
        )
    )
    return cases


HANDWRITTEN_SAMPLES = """\
type: com.google.api.codegen.samplegen.v1p2.SampleConfigProto
schema_version: 1.2.0
samples:
- id: library_get_book_by_resource_name
  region_tag: library_v1_handwritten_library_get_book_by_resource_name_1
  description: Get a book using its resource name parts
  service: google.example.library.v1.Library
  rpc: GetBook
  request:
  - field: name%shelf
    value: fiction
    input_parameter: shelf_id
  - field: name%book
    value: moby-dick
  response:
  - comment:
    - "The book is %s"
    - $resp.title
  - print:
    - "Title: %s rated %s"
    - $resp.title
    - $resp.rating
  - define: labels=$resp.labels
  - loop:
      map: labels
      key: label
      value: text
      body:
      - print:
        - "%s -> %s"
        - label
        - text
  - loop:
      map: $resp.labels
      key: only_key
      body:
      - print: ["%s", only_key]
  - loop:
      map: $resp.labels
      value: only_value
      body:
      - print: ["%s", only_value]
- id: library_create_book_with_params
  region_tag: library_v1_handwritten_library_create_book_with_params_2
  description: Create a book with input parameters and a file
  service: google.example.library.v1.Library
  rpc: CreateBook
  transport: grpc-async
  request:
  - field: parent
    value: shelves/fiction
    input_parameter: parent
  - field: book.title
    value: 'The "Whale"'
    input_parameter: title
  - field: book.rating
    value: GOOD
  - field: source.blob
    value: /tmp/whale.bin
    value_is_file: true
    input_parameter: blob_path
  - field: source.pages
    value: 321
  - field: rating
    value: BAD
  - field: copies
    value: 2
    comment: how many
  response:
  - print: ["%s", $resp]
  - write_file:
      filename: ["book_%s.txt", $resp.title]
      contents: $resp.name
- id: library_list_books_custom
  region_tag: library_v1_handwritten_library_list_books_custom_3
  description: List the books of a shelf
  service: google.example.library.v1.Library
  rpc: ListBooks
  request:
  - field: parent
    value: shelves/poetry
  response:
  - print: ["Found %s", $resp.title]
- id: library_list_books_custom
  region_tag: library_v1_handwritten_library_list_books_custom_4
  description: List the books of another shelf (same id, told apart by the hash)
  service: google.example.library.v1.Library
  rpc: ListBooks
  request:
  - field: parent
    value: shelves/prose
  - field: page_size
    value: 5
- id: library_import_books_custom
  region_tag: library_v1_handwritten_library_import_books_custom_5
  description: Import books and wait
  service: google.example.library.v1.Library
  rpc: ImportBooks
  transport: grpc-async
  request:
  - field: parent
    value: shelves/new
  - field: gcs_uri
    value: gs://bucket/books.csv
    input_parameter: gcs_uri
  response:
  - print: ["Imported %s books", $resp.count]
- id: library_stream_books_custom
  region_tag: library_v1_handwritten_library_stream_books_custom_6
  description: Stream books
  service: google.example.library.v1.Library
  rpc: StreamBooks
  request:
  - field: shelf
    value: shelves/new
  response:
  - loop:
      collection: $resp.labels
      variable: entry
      body:
      - print: ["%s", entry]
- id: library_chat_custom
  region_tag: library_v1_handwritten_library_chat_custom_7
  description: Chat about books
  service: google.example.library.v1.Library
  rpc: Chat
  request:
  - field: text
    value: hello
    input_parameter: greeting
  - field: from_
    value: me
- id: library_delete_book_custom
  region_tag: library_v1_handwritten_library_delete_book_custom_8
  description: Delete a book
  service: google.example.library.v1.Library
  rpc: DeleteBook
  transport: rest
  request:
  - field: name%shelf
    value: fiction
  - field: name%book
    value: moby-dick
    input_parameter: book_id
  - field: force
    value: true
"""


# ---------------------------------------------------------------------------
# Driver
# ---------------------------------------------------------------------------
def run_tree(tree: str, in_path: str, out_path: str):
    env = dict(os.environ)
    env.pop("PYTHONPATH", None)
    env["PYTHONDONTWRITEBYTECODE"] = "1"
    env["PYTHONHASHSEED"] = "0"
    proc = subprocess.run(
        [PYTHON, os.path.abspath(__file__), "--worker", tree, in_path, out_path],
        env=env,
        cwd=tree,
        stdout=subprocess.PIPE,
        stderr=subprocess.STDOUT,
        text=True,
    )
    if proc.returncode != 0:
        print(f"generator run failed in {tree}:\n{proc.stdout}")
        return None
    with open(out_path, "rb") as f:
        return pickle.load(f)


def main(argv):
    if len(argv) >= 2 and argv[1] == "--worker":
        worker(argv[2], argv[3], argv[4])
        return 0
    if len(argv) != 2:
        print(__doc__)
        return 2

    checkout = os.path.realpath(argv[1])
    tmp = tempfile.mkdtemp(prefix="twin-demo-W14-")
    try:
        pristine = os.path.join(tmp, "pristine")
        os.mkdir(pristine)
        archive = subprocess.Popen(
            ["git", "-C", checkout, "archive", "HEAD"], stdout=subprocess.PIPE
        )
        subprocess.check_call(["tar", "-x", "-C", pristine], stdin=archive.stdout)
        archive.stdout.close()
        if archive.wait() != 0:
            print("git archive failed")
            return 1

        scratch = os.path.join(tmp, "inputs")
        os.mkdir(scratch)
        cases = build_cases(scratch)
        in_path = os.path.join(tmp, "cases.pickle")
        with open(in_path, "wb") as f:
            pickle.dump(cases, f)

        before = run_tree(pristine, in_path, os.path.join(tmp, "before.pickle"))
        after = run_tree(checkout, in_path, os.path.join(tmp, "after.pickle"))
        if before is None or after is None:
            return 1

        differing = []
        total_files = 0
        total_samples = 0
        digest = hashlib.sha256()
        for c in cases:
            name = c["name"]
            old, new = before[name], after[name]
            for fname in sorted(set(old) | set(new)):
                total_files += 1
                if "samples/generated_samples/" in fname:
                    total_samples += 1
                if fname not in old:
                    differing.append(f"{name}: {fname} only with the change")
                elif fname not in new:
                    differing.append(f"{name}: {fname} only in pristine HEAD")
                elif old[fname] != new[fname]:
                    differing.append(f"{name}: {fname} differs")
                else:
                    digest.update(fname.encode() + b"\0" + old[fname])
            if not old:
                differing.append(f"{name}: no output at all")

        if differing:
            print(f"DIFFERENT: {len(differing)} file(s) differ")
            for line in differing:
                print("  " + line)
            return 1
        print(
            f"IDENTICAL: {len(cases)} APIs, {total_files} files "
            f"({total_samples} under samples/generated_samples) byte-identical "
            f"between pristine HEAD and {checkout}; sha256 {digest.hexdigest()[:16]}"
        )
        return 0
    finally:
        shutil.rmtree(tmp, ignore_errors=True)


if __name__ == "__main__":
    sys.exit(main(sys.argv))
