#!/usr/bin/env python
"""Equivalence demo for the V14 refactoring (property C14: generated samples,
their snippet metadata and the snippet embedded in the client docstrings).

Usage:  /venv/bin/python demo.py <path-to-a-checkout-with-the-change>

The script exports the checkout's HEAD (pristine tree) into a temp dir, builds
several API descriptions in Python (no protoc), runs the generator on each with
BOTH trees (one subprocess per tree and case, so the two ``gapic`` packages
never mix) and compares every output file byte for byte.

Refactored code that is exercised:
  * gapic/samplegen/samplegen.py            generate_request_object
                                            (+ new helper _default_enum_value)
  * gapic/samplegen_utils/snippet_index.py  Snippet._parse_snippet_segments
  * gapic/templates/examples/feature_fragments.j2
        print_input_params, render_comment, render_map_loop, dispatch_statement

Exit 0 + a one line summary if everything is identical, exit 1 otherwise.
"""
import os
import pickle
import shutil
import subprocess
import sys
import tempfile


# --------------------------------------------------------------------------- #
# Child mode: run the generator of one tree over one case.
# --------------------------------------------------------------------------- #
def _isolate(tree: str) -> str:
    """Make ``tree`` the only possible provider of the ``gapic`` package."""
    tree = os.path.realpath(tree)
    sys.dont_write_bytecode = True
    assert "gapic" not in sys.modules, "gapic imported too early"

    # The venv has an editable install of another checkout: drop its meta path
    # finder, its path hook and its pseudo path entry.
    def _is_editable(obj) -> bool:
        mod = getattr(obj, "__module__", "") or ""
        name = getattr(obj, "__qualname__", "") or ""
        return "__editable__" in mod or "editable" in mod.lower() or "Editable" in name

    sys.meta_path[:] = [f for f in sys.meta_path if not _is_editable(f)]
    sys.path_hooks[:] = [h for h in sys.path_hooks if not _is_editable(h)]

    # Drop every other path entry that could provide ``gapic`` (the script's
    # directory, the cwd, an exported checkout, ...).
    kept = []
    for entry in sys.path:
        if "__editable__" in entry:
            continue
        real = os.path.realpath(entry or os.getcwd())
        if real == tree:
            continue
        if os.path.isdir(os.path.join(real, "gapic")) or os.path.isfile(
            os.path.join(real, "gapic.py")
        ):
            continue
        kept.append(entry)
    sys.path[:] = [tree] + kept
    sys.path_importer_cache.clear()

    import importlib.util

    spec = importlib.util.find_spec("gapic")
    assert spec is not None and spec.submodule_search_locations, "gapic not found"
    locations = [os.path.realpath(p) for p in spec.submodule_search_locations]
    assert locations == [os.path.join(tree, "gapic")], (locations, tree)
    return tree


def _assert_isolated(tree: str, template_dirs) -> None:
    root = tree + os.sep
    n = 0
    for mod_name, mod in list(sys.modules.items()):
        if mod_name == "gapic" or mod_name.startswith("gapic."):
            mod_file = getattr(mod, "__file__", None)
            if mod_file is not None:
                assert os.path.realpath(mod_file).startswith(root), (mod_file, tree)
                n += 1
            for p in getattr(mod, "__path__", []) or []:
                assert os.path.realpath(p).startswith(root), (p, tree)
    assert n > 10, "suspiciously few gapic modules loaded"
    assert template_dirs, "no template directory seen"
    for t in template_dirs:
        assert os.path.realpath(t).startswith(root), (t, tree)


def child(tree: str, case_path: str, out_path: str) -> int:
    tree = _isolate(tree)

    import pypandoc  # type: ignore

    def _convert_text(text, to, format=None, extra_args=(), **kw):
        # pandoc is not installed: deterministic identity-like stub, the same
        # for both trees.
        return "PANDOC[" + text + "]"

    pypandoc.convert_text = _convert_text

    from google.protobuf import descriptor_pb2
    from gapic.schema import api
    from gapic.generator import Generator
    from gapic.utils import Options

    with open(case_path, "rb") as f:
        case = pickle.load(f)

    result = {}
    template_dirs = set()
    if case.get("unit"):
        result = unit_level(template_dirs)
    else:
        try:
            fds = descriptor_pb2.FileDescriptorSet.FromString(case["fds"])
            opts = Options.build(case["opts"])
            template_dirs.update(opts.templates)
            api_schema = api.API.build(list(fds.file), opts=opts, package=case["package"])
            generator = Generator(opts)
            template_dirs.update(generator._env.loader.searchpath)
            res = generator.get_response(api_schema, opts)
            for f in res.file:
                assert f.name not in result, f.name
                result[f.name] = f.content.encode("utf8")
            if case.get("raw"):
                # Second run with the whitespace post-processing switched off
                # (identically for both trees): `fix_whitespace` collapses runs
                # of blank lines, which would hide whitespace-only differences
                # in what the templates themselves emit.
                from gapic.generator import formatter, generator as generator_module

                assert generator_module.formatter is formatter
                formatter.fix_whitespace = lambda code: code
                api_schema = api.API.build(
                    list(fds.file), opts=opts, package=case["package"])
                for f in Generator(opts).get_response(api_schema, opts).file:
                    assert "raw/" + f.name not in result, f.name
                    result["raw/" + f.name] = f.content.encode("utf8")
            if case.get("requests"):
                result["extra/default_requests"] = default_requests(api_schema)
        except Exception as exc:  # compare failures too
            result = {"<EXCEPTION>": f"{type(exc).__name__}: {exc}".encode("utf8")}
    _assert_isolated(tree, template_dirs)
    with open(out_path, "wb") as f:
        pickle.dump(result, f)
    return 0


def default_requests(api_schema) -> bytes:
    """generate_request_object for EVERY message the API knows (not only for
    the request messages of its methods), with and without a prefix."""
    from gapic.samplegen import samplegen

    service = next(iter(api_schema.services.values()), None)
    rows = []
    for key in sorted(api_schema.messages):
        message = api_schema.messages[key]
        for prefix in ("", "outer.inner"):
            try:
                value = samplegen.generate_request_object(
                    api_schema, service, message, field_name_prefix=prefix)
                rows.append(f"{key} [{prefix}] -> {value!r}")
            except RecursionError:
                rows.append(f"{key} [{prefix}] -> RecursionError")
            except Exception as exc:
                rows.append(f"{key} [{prefix}] -> {type(exc).__name__}: {exc}")
    return "\n".join(rows).encode("utf8")


def unit_level(template_dirs):
    """Exercise the refactored macros and the segment parser directly, over
    inputs that whole-API runs reach rarely or never.  Returns
    {pseudo file name: bytes}."""
    import itertools

    from google.protobuf import json_format

    from gapic.generator import Generator
    from gapic.samplegen import samplegen
    from gapic.samplegen_utils import snippet_index, snippet_metadata_pb2
    from gapic.utils import Options

    out = {}
    opts = Options.build("")
    generator = Generator(opts)
    env = generator._env
    template_dirs.update(opts.templates)
    template_dirs.update(env.loader.searchpath)

    def render(key, driver, **kwargs):
        try:
            out[key] = driver.render(**kwargs).encode("utf8")
        except Exception as exc:
            # Failures are compared too (type and message): these inputs are
            # invalid statements that the Python validator rejects before any
            # template is rendered.
            out[key] = f"EXC {type(exc).__name__}: {exc}".encode("utf8")

    imp = '{% import "examples/feature_fragments.j2" as frags %}'

    # --- print_input_params ------------------------------------------------
    T = samplegen.TransformedRequest
    A = samplegen.AttributeRequestSetup
    driver = env.from_string(imp + "[{{ frags.print_input_params(request) }}]")
    requests = {
        "empty": [],
        "singles": [
            T(base="a", body=None, single=A(value="1", input_parameter="a_in")),
            T(base="b", body=None, single=A(value="2")),
            T(base="c", body=None, single=A(value="3", input_parameter="")),
            T(base="d", body=None, single=None),
        ],
        "bodies": [
            T(base="book", single=None, body=[
                A(field="name", value='"n"', input_parameter="book_name"),
                A(field="author", value='"a"'),
                A(field="cover", value="'c.jpg'", input_parameter="cover_path",
                  value_is_file=True),
                A(field="blurb", value='"b"', input_parameter=""),
            ]),
            T(base="empty_body", single=A(value="7", input_parameter="seven"), body=[]),
            T(base="shelf", single=None, pattern="shelves/{shelf}", body=[
                A(field="shelf", value='"s"', input_parameter="shelf_id")]),
            # a body wins over a single
            T(base="both", single=A(value="0", input_parameter="ignored"),
              body=[A(field="x", value="1", input_parameter="x_in"),
                    A(field="y", value="2", input_parameter="y_in")]),
        ],
    }
    requests["mixed"] = requests["singles"] + requests["bodies"]
    for name, request_list in requests.items():
        for flattenable in (False, True):
            render(f"unit/print_input_params/{name}/{flattenable}", driver,
                   request=samplegen.FullRequest(request_list=request_list,
                                                 flattenable=flattenable))

    # --- render_comment ----------------------------------------------------
    driver = env.from_string(imp + "[{{ frags.render_comment(elts) }}]")
    comments = {
        "plain": ["no parameters at all"],
        "one": ["the author of %s", "$resp.author"],
        "three": ["%s, %s and %s", "$resp", "book.name", "$resp.pages[0]"],
        "quotes": ['say "%s" & <%s>', "$resp.a", "b"],
        "percent": ["100%% of %s", "$resp"],
        "too_few": ["%s and %s", "$resp"],
        "empty": [],
    }
    for name, elts in comments.items():
        render(f"unit/render_comment/{name}", driver, elts=elts)

    # --- render_map_loop / dispatch_statement ------------------------------
    bodies = {
        "nobody": [],
        "print": [{"print": ["%s", "$resp"]}],
        "several": [
            {"comment": ["about %s", "$resp.name"]},
            {"define": "x=$resp.thing"},
            {"print": ["%s has %s", "x", "$resp.other"]},
            {"write_file": {"filename": ["f_%s.bin", "x"], "contents": "$resp.data"}},
        ],
    }
    headers = {
        "kv": {"key": "k", "value": "v"},
        "k": {"key": "k"},
        "v": {"value": "v"},
        "k_empty_v": {"key": "k", "value": ""},
        "empty_k_v": {"key": "", "value": "v"},
        "none": {},
        "k_none": {"key": None, "value": "v"},
    }
    map_driver = env.from_string(imp + "[{{ frags.render_map_loop(statement) }}]")
    dispatch_driver = env.from_string(
        imp + "[{{ frags.dispatch_statement(statement, indentation) }}]")
    for (hname, header), (bname, body), map_name in itertools.product(
            headers.items(), bodies.items(), ["$resp.labels", "book.index", None]):
        statement = dict(header, body=body)
        if map_name is not None:
            statement["map"] = map_name
        render(f"unit/render_map_loop/{hname}/{bname}/{map_name}", map_driver,
               statement=statement)
        for indentation in (0, 4):
            render(f"unit/dispatch_map_loop/{hname}/{bname}/{map_name}/{indentation}",
                   dispatch_driver, statement={"loop": statement},
                   indentation=indentation)

    nested = {"loop": {
        "collection": "$resp.chapters", "variable": "chapter",
        "body": [
            {"print": ["%s", "chapter.title"]},
            {"loop": {"map": "chapter.index", "key": "term", "value": "note",
                      "body": [
                          {"loop": {"collection": "note.lines", "variable": "line",
                                    "body": [{"print": ["%s: %s", "term", "line"]}]}},
                          {"loop": {"map": "note.extras", "value": "extra",
                                    "body": [{"comment": ["extra %s", "extra"]}]}},
                      ]}},
            {"loop": {"map": "chapter.index", "key": "only_key", "body": []}},
        ]}}
    statements = {
        "print": {"print": ["%s", "$resp"]},
        "print_fmt": {"print": ["a %s b", "$resp.a"]},
        "define": {"define": "y=$resp.y"},
        "comment": {"comment": ["c %s", "$resp.c"]},
        "write_file": {"write_file": {"filename": ["out.bin"], "contents": "$resp.z"}},
        "collection": {"loop": {"collection": "$resp.items", "variable": "item",
                                "body": bodies["several"]}},
        # has both a collection and a map: the collection wins
        "collection_and_map": {"loop": {"collection": "$resp.items", "variable": "i",
                                        "map": "$resp.m", "key": "k", "body": []}},
        # neither: treated as a map loop (and fails there)
        "loop_without_anything": {"loop": {"body": []}},
        "nested": nested,
        "unknown": {"frobnicate": 1},
        "empty": {},
    }
    for (name, statement), indentation in itertools.product(
            statements.items(), [0, 4, 8]):
        render(f"unit/dispatch_statement/{name}/{indentation}", dispatch_driver,
               statement=statement, indentation=indentation)

    # --- Snippet._parse_snippet_segments ------------------------------------
    regular = (
        "# -*- coding: utf-8 -*-\n"
        "# Generated code. DO NOT EDIT!\n"
        "# [START x_v1_generated_S_M_sync]\n"
        "from a import b\n"
        "\n"
        "def sample_m():\n"
        "    # Create a client\n"
        "    client = b.SClient()\n"
        "\n"
        "    # Initialize request argument(s)\n"
        "    request = b.R(\n"
        "    )\n"
        "\n"
        "    # Make the request\n"
        "    response = client.m(request=request)\n"
        "\n"
        "    # Handle the response\n"
        "    print(response)\n"
        "\n"
        "# [END x_v1_generated_S_M_sync]\n"
    )
    texts = {
        "regular": regular,
        "empty": "",
        "no_trailing_newline": regular.rstrip("\n"),
        "crlf": regular.replace("\n", "\r\n"),
        "no_tags": regular.replace("# [START", "# START").replace("# [END", "# END"),
        "void": regular.replace("    # Handle the response\n    print(response)\n", ""),
        "reversed": "".join(reversed(regular.splitlines(keepends=True))),
        "twice": regular + regular,
        "tabs": regular.replace("    #", "\t#"),
        "unindented_markers": regular.replace("    #", "#"),
        "indented_tags": regular.replace("# [", "  # ["),
        "two_markers_one_line": regular.replace(
            "    # Create a client\n",
            "    # Create a client    # Make the request\n"),
        "marker_with_suffix": regular.replace(
            "# Make the request\n", "# Make the request now, please\n"),
        "end_first": "# [END t]\n    # Handle the response\n    # Make the request\n"
                     "    # Initialize request argument(s)\n    # Create a client\n"
                     "# [START t]\n",
        "only_response": "x\n    # Handle the response\ny\n",
        "only_client": "\n\n    # Create a client\n",
        "form_feed": regular.replace("def sample_m", "\x0cdef sample_m"),
        "start_and_marker": "# [START # Create a client\n  # [START\n \t # Create a client\n",
    }
    rows = []
    for name, text in texts.items():
        metadata = snippet_metadata_pb2.Snippet(region_tag=name)
        snippet = snippet_index.Snippet(text, metadata)
        assert snippet.metadata is metadata
        rows.append(f"## {name}")
        rows.append(json_format.MessageToJson(metadata, sort_keys=True))
        rows.append(metadata.SerializeToString(deterministic=True).hex())
        rows.append(repr(snippet.full_snippet))
        rows.append(repr(snippet.sample_lines))
    out["unit/parse_snippet_segments"] = "\n".join(rows).encode("utf8")
    return out


# --------------------------------------------------------------------------- #
# Descriptor building helpers (parent mode)
# --------------------------------------------------------------------------- #
def _build_cases(tmpdir):
    from google.protobuf import descriptor_pb2 as d
    from google.protobuf import (
        any_pb2, duration_pb2, empty_pb2, field_mask_pb2, timestamp_pb2,
        struct_pb2, wrappers_pb2,
    )
    from google.api import (
        annotations_pb2, client_pb2, field_behavior_pb2, http_pb2, resource_pb2,
        launch_stage_pb2,
    )
    from google.longrunning import operations_pb2
    from google.rpc import status_pb2

    F = d.FieldDescriptorProto

    def closure(mods):
        """File protos of the given modules and of everything they import, in
        dependency order."""
        seen, order = set(), []

        def visit(fd):
            if fd.name in seen:
                return
            seen.add(fd.name)
            for dep in fd.dependencies:
                visit(dep)
            fdp = d.FileDescriptorProto()
            fdp.ParseFromString(fd.serialized_pb)
            order.append(fdp)

        for m in mods:
            visit(m.DESCRIPTOR)
        return order

    COMMON = closure([
        annotations_pb2, client_pb2, field_behavior_pb2, resource_pb2,
        operations_pb2, empty_pb2, field_mask_pb2, timestamp_pb2, duration_pb2,
        any_pb2, status_pb2, struct_pb2, wrappers_pb2, http_pb2, launch_stage_pb2,
    ])

    REQUIRED = field_behavior_pb2.REQUIRED

    def field(name, number, type_, *, type_name=None, repeated=False,
              required=False, oneof_index=None, resource_ref=None,
              proto3_optional=False):
        f = F(name=name, number=number, type=type_,
              label=F.LABEL_REPEATED if repeated else F.LABEL_OPTIONAL)
        if type_name:
            f.type_name = type_name
        if required:
            f.options.Extensions[field_behavior_pb2.field_behavior].append(REQUIRED)
        if oneof_index is not None:
            f.oneof_index = oneof_index
        if proto3_optional:
            f.proto3_optional = True
        if resource_ref:
            f.options.Extensions[resource_pb2.resource_reference].type = resource_ref
        return f

    def message(name, fields, *, oneofs=(), nested=(), enums=(), resource=None,
                map_entry=False):
        m = d.DescriptorProto(name=name)
        m.field.extend(fields)
        for o in oneofs:
            m.oneof_decl.add(name=o)
        m.nested_type.extend(nested)
        m.enum_type.extend(enums)
        if map_entry:
            m.options.map_entry = True
        if resource:
            r = m.options.Extensions[resource_pb2.resource]
            r.type = resource[0]
            r.pattern.extend(resource[1])
        return m

    def enum(name, values):
        e = d.EnumDescriptorProto(name=name)
        for i, v in enumerate(values):
            e.value.add(name=v, number=i)
        return e

    def method(name, inp, out, *, cs=False, ss=False, http=None, sigs=(),
               lro=None):
        m = d.MethodDescriptorProto(name=name, input_type=inp, output_type=out,
                                    client_streaming=cs, server_streaming=ss)
        if http:
            verb, uri, body = http
            rule = m.options.Extensions[annotations_pb2.http]
            setattr(rule, verb, uri)
            if body:
                rule.body = body
        for s in sigs:
            m.options.Extensions[client_pb2.method_signature].append(s)
        if lro:
            info = m.options.Extensions[operations_pb2.operation_info]
            info.response_type, info.metadata_type = lro
        return m

    def service(name, methods, *, host=None, scopes=None):
        s = d.ServiceDescriptorProto(name=name)
        s.method.extend(methods)
        if host is not None:
            s.options.Extensions[client_pb2.default_host] = host
        if scopes:
            s.options.Extensions[client_pb2.oauth_scopes] = scopes
        return s

    def file_(name, package, *, deps, messages=(), enums=(), services=(),
              comments=None):
        f = d.FileDescriptorProto(name=name, package=package, syntax="proto3")
        f.dependency.extend(deps)
        f.message_type.extend(messages)
        f.enum_type.extend(enums)
        f.service.extend(services)
        for path, text in (comments or {}).items():
            loc = f.source_code_info.location.add()
            loc.path.extend(path)
            loc.leading_comments = text
        return f

    STD_DEPS = [
        "google/api/annotations.proto", "google/api/client.proto",
        "google/api/field_behavior.proto", "google/api/resource.proto",
        "google/longrunning/operations.proto", "google/protobuf/empty.proto",
        "google/protobuf/field_mask.proto", "google/protobuf/timestamp.proto",
        "google/protobuf/duration.proto", "google/protobuf/struct.proto",
    ]

    def pack(files, package, opts, raw=False, requests=False):
        fds = d.FileDescriptorSet()
        fds.file.extend(COMMON)
        fds.file.extend(files)
        return {"fds": fds.SerializeToString(), "package": package, "opts": opts,
                "raw": raw, "requests": requests}

    cases = {}

    # ------------------------------------------------------------------ #
    # Case 1: "library" - every calling form, required fields of every
    # kind (scalars, enums, repeated enums, nested messages, oneofs whose
    # first member is a scalar / a message / an enum, oneof members that
    # are also REQUIRED, resource references), maps and repeated messages
    # in the responses, gRPC + REST.
    # ------------------------------------------------------------------ #
    def library_files(pkg="google.example.library.v1", host="library.googleapis.com"):
        P = "." + pkg
        kind = enum("Kind", ["KIND_UNSPECIFIED", "HARDBACK", "PAPERBACK"])
        shelf = message(
            "Shelf",
            [field("name", 1, F.TYPE_STRING),
             field("theme", 2, F.TYPE_STRING, required=True),
             field("kind", 3, F.TYPE_ENUM, type_name=P + ".Kind")],
            resource=("library.googleapis.com/Shelf", ["shelves/{shelf}"]))
        note = message(
            "Note",
            [field("text", 1, F.TYPE_STRING, required=True),
             field("lines", 2, F.TYPE_STRING, repeated=True)])
        chapter = message(
            "Chapter",
            [field("title", 1, F.TYPE_STRING),
             field("footnotes", 2, F.TYPE_STRING, repeated=True),
             field("index", 3, F.TYPE_MESSAGE, type_name=P + ".Chapter.IndexEntry",
                   repeated=True)],
            nested=[message("IndexEntry",
                            [field("key", 1, F.TYPE_STRING),
                             field("value", 2, F.TYPE_MESSAGE, type_name=P + ".Note")],
                            map_entry=True)])
        book = message(
            "Book",
            [field("name", 1, F.TYPE_STRING, required=True),
             field("author", 2, F.TYPE_STRING),
             field("isbn", 3, F.TYPE_INT64, oneof_index=0),
             field("issn", 4, F.TYPE_STRING, oneof_index=0),
             field("kind", 5, F.TYPE_ENUM, type_name=P + ".Kind", required=True),
             field("pages", 6, F.TYPE_INT32, repeated=True),
             field("rating", 7, F.TYPE_DOUBLE, proto3_optional=True, oneof_index=1),
             field("labels", 8, F.TYPE_MESSAGE, type_name=P + ".Book.LabelsEntry",
                   repeated=True),
             field("chapters", 9, F.TYPE_MESSAGE, type_name=P + ".Chapter",
                   repeated=True),
             field("cover", 10, F.TYPE_BYTES)],
            oneofs=["identifier", "_rating"],
            nested=[message("LabelsEntry",
                            [field("key", 1, F.TYPE_STRING),
                             field("value", 2, F.TYPE_STRING)], map_entry=True)],
            resource=("library.googleapis.com/Book",
                      ["shelves/{shelf}/books/{book}",
                       "publishers/{publisher}/books/{book}"]))
        create_shelf = message(
            "CreateShelfRequest",
            [field("shelf", 1, F.TYPE_MESSAGE, type_name=P + ".Shelf", required=True),
             field("shelf_id", 2, F.TYPE_STRING)])
        get_book = message(
            "GetBookRequest",
            [field("name", 1, F.TYPE_STRING, required=True,
                   resource_ref="library.googleapis.com/Book")])
        delete_book = message(
            "DeleteBookRequest",
            [field("name", 1, F.TYPE_STRING, required=True,
                   resource_ref="library.googleapis.com/Book"),
             field("force", 2, F.TYPE_BOOL, required=True),
             field("etag", 3, F.TYPE_BYTES, required=True),
             field("weight", 4, F.TYPE_FLOAT, required=True)])
        create_book = message(
            "CreateBookRequest",
            [field("parent", 1, F.TYPE_STRING, required=True,
                   resource_ref="library.googleapis.com/Shelf"),
             field("book", 2, F.TYPE_MESSAGE, type_name=P + ".Book", required=True),
             field("kinds", 3, F.TYPE_ENUM, type_name=P + ".Kind", required=True,
                   repeated=True),
             field("by_id", 4, F.TYPE_STRING, oneof_index=0),
             field("by_shelf", 5, F.TYPE_MESSAGE, type_name=P + ".Shelf",
                   oneof_index=0),
             field("mode", 6, F.TYPE_ENUM, type_name=P + ".Kind", oneof_index=1),
             field("mode_name", 7, F.TYPE_STRING, oneof_index=1),
             # first member of the oneof is a message with required fields;
             # the second is REQUIRED *and* a oneof member (must not be doubled)
             field("to_shelf", 8, F.TYPE_MESSAGE, type_name=P + ".Shelf",
                   oneof_index=2),
             field("to_name", 9, F.TYPE_STRING, oneof_index=2, required=True)],
            oneofs=["source", "mode_choice", "destination"])
        list_books = message(
            "ListBooksRequest",
            [field("parent", 1, F.TYPE_STRING, required=True,
                   resource_ref="library.googleapis.com/Shelf"),
             field("page_size", 2, F.TYPE_INT32),
             field("page_token", 3, F.TYPE_STRING)])
        list_books_resp = message(
            "ListBooksResponse",
            [field("books", 1, F.TYPE_MESSAGE, type_name=P + ".Book", repeated=True),
             field("next_page_token", 2, F.TYPE_STRING)])
        move_book = message(
            "MoveBookRequest",
            [field("name", 1, F.TYPE_STRING, required=True,
                   resource_ref="library.googleapis.com/Book"),
             field("other_shelf_name", 2, F.TYPE_STRING, required=True,
                   resource_ref="library.googleapis.com/Shelf"),
             field("update_mask", 3, F.TYPE_MESSAGE,
                   type_name=".google.protobuf.FieldMask"),
             field("payload", 4, F.TYPE_MESSAGE, type_name=".google.protobuf.Value",
                   required=True)])
        move_meta = message("MoveBookMetadata",
                            [field("progress", 1, F.TYPE_INT32)])
        stream_req = message(
            "StreamBooksRequest",
            [field("shelf", 1, F.TYPE_STRING, required=True),
             field("count", 2, F.TYPE_UINT32, required=True)])
        stream_opt = message("DiscussBookRequest",
                             [field("comment", 1, F.TYPE_STRING)])
        comment = message("Comment", [field("text", 1, F.TYPE_STRING)])

        mth = [
            method("CreateShelf", P + ".CreateShelfRequest", P + ".Shelf",
                   http=("post", "/v1/shelves", "shelf"), sigs=["shelf", "shelf,shelf_id"]),
            method("GetBook", P + ".GetBookRequest", P + ".Book",
                   http=("get", "/v1/{name=shelves/*/books/*}", None), sigs=["name"]),
            method("DeleteBook", P + ".DeleteBookRequest", ".google.protobuf.Empty",
                   http=("delete", "/v1/{name=shelves/*/books/*}", None), sigs=["name"]),
            method("CreateBook", P + ".CreateBookRequest", P + ".Book",
                   http=("post", "/v1/{parent=shelves/*}/books", "book"),
                   sigs=["parent,book"]),
            method("ListBooks", P + ".ListBooksRequest", P + ".ListBooksResponse",
                   http=("get", "/v1/{parent=shelves/*}/books", None), sigs=["parent"]),
            method("MoveBook", P + ".MoveBookRequest", ".google.longrunning.Operation",
                   http=("post", "/v1/{name=shelves/*/books/*}:move", "*"),
                   sigs=["name,other_shelf_name"],
                   lro=("Book", "MoveBookMetadata")),
            method("PurgeBooks", P + ".ListBooksRequest", ".google.longrunning.Operation",
                   http=("post", "/v1/{parent=shelves/*}/books:purge", "*"),
                   lro=("google.protobuf.Empty", "MoveBookMetadata")),
            method("StreamBooks", P + ".StreamBooksRequest", P + ".Book", ss=True,
                   http=("get", "/v1/{shelf=shelves/*}:stream", None)),
            method("UploadBooks", P + ".CreateBookRequest", P + ".Shelf", cs=True),
            method("DiscussBook", P + ".DiscussBookRequest", P + ".Comment",
                   cs=True, ss=True),
        ]
        svc = service("LibraryService", mth, host=host,
                      scopes="https://www.googleapis.com/auth/cloud-platform")
        comments = {
            (4, 3): " A single book in the library.\n Has *markup* and `code`.\n",
            (6, 0): " This API represents a simple digital library.\n",
            (6, 0, 2, 1): " Gets a book. Returns NOT_FOUND if the book does not exist.\n",
            (6, 0, 2, 4): " Lists books in a shelf.\n\n Second paragraph.\n",
        }
        return [file_(
            pkg.replace(".", "/") + "/library.proto", pkg, deps=STD_DEPS,
            messages=[shelf, note, chapter, book, create_shelf, get_book, delete_book,
                      create_book, list_books, list_books_resp, move_book, move_meta,
                      stream_req, stream_opt, comment],
            enums=[kind], services=[svc], comments=comments)]

    LIB = "google.example.library.v1"
    cases["library_grpc_rest"] = pack(
        library_files(), LIB, "transport=grpc+rest,metadata", raw=True, requests=True)
    cases["library_grpc_default"] = pack(library_files(), LIB, "")
    cases["library_rest_numeric"] = pack(
        library_files(), LIB, "transport=rest,rest-numeric-enums", raw=True)
    cases["library_no_snippets"] = pack(
        library_files(), LIB, "autogen-snippets=false,transport=grpc+rest", raw=True)

    # ------------------------------------------------------------------ #
    # Case 2: reserved words, maps, several services, no annotations on
    # some, no version in the package, unusual / missing host.
    # ------------------------------------------------------------------ #
    def odd_files():
        pkg = "acme.widgets"
        P = "." + pkg
        color = enum("Color", ["COLOR_UNSPECIFIED", "RED", "None", "class"])
        single = enum("Single", ["ONLY"])
        inner = message(
            "Inner",
            [field("from", 1, F.TYPE_STRING, required=True),
             field("in", 2, F.TYPE_ENUM, type_name=P + ".Color", required=True),
             field("deep", 3, F.TYPE_MESSAGE, type_name=P + ".Inner.Deeper",
                   required=True)],
            nested=[message("Deeper",
                            [field("global", 1, F.TYPE_SINT32, required=True),
                             field("opt", 2, F.TYPE_STRING),
                             field("colors", 3, F.TYPE_ENUM, type_name=P + ".Color",
                                   repeated=True, required=True),
                             field("nested_kind", 4, F.TYPE_ENUM,
                                   type_name=P + ".Inner.Deeper.Local", required=True)],
                            enums=[enum("Local", ["LOCAL_UNSPECIFIED", "lambda"])])])
        imp_req = message(
            "ImportRequest",
            [field("class", 1, F.TYPE_STRING, required=True),
             field("import", 2, F.TYPE_MESSAGE, type_name=P + ".Inner", required=True),
             field("tags", 3, F.TYPE_MESSAGE, type_name=P + ".ImportRequest.TagsEntry",
                   repeated=True),
             field("not", 4, F.TYPE_FIXED64, required=True),
             field("names", 5, F.TYPE_STRING, repeated=True, required=True),
             field("return", 6, F.TYPE_ENUM, type_name=P + ".Color", oneof_index=0),
             field("yield", 7, F.TYPE_STRING, oneof_index=0),
             field("request", 8, F.TYPE_STRING, required=True),
             field("single", 9, F.TYPE_ENUM, type_name=P + ".Single", required=True),
             field("inners", 10, F.TYPE_MESSAGE, type_name=P + ".Inner", repeated=True,
                   required=True)],
            oneofs=["lambda"],
            nested=[message("TagsEntry",
                            [field("key", 1, F.TYPE_STRING),
                             field("value", 2, F.TYPE_MESSAGE, type_name=P + ".Inner")],
                            map_entry=True)])
        imp_resp = message("ImportResponse", [field("def", 1, F.TYPE_STRING)])
        empty_req = message("PingRequest", [])
        list_req = message(
            "ListWidgetsRequest",
            [field("filter", 1, F.TYPE_STRING),
             field("page_size", 2, F.TYPE_INT32),
             field("page_token", 3, F.TYPE_STRING)])
        list_resp = message(
            "ListWidgetsResponse",
            [field("widgets", 1, F.TYPE_STRING, repeated=True),
             field("next_page_token", 2, F.TYPE_STRING)])
        svc1 = service(
            "Importer",
            [method("Import", P + ".ImportRequest", P + ".ImportResponse",
                    http=("post", "/v1/import", "*"), sigs=["class,import"]),
             method("Ping", P + ".PingRequest", ".google.protobuf.Empty",
                    http=("get", "/v1/ping", None)),
             method("ListWidgets", P + ".ListWidgetsRequest", P + ".ListWidgetsResponse",
                    http=("get", "/v1/widgets", None)),
             method("Yield", P + ".PingRequest", P + ".ImportResponse", ss=True)],
            host="widgets-api.example.com:8443")
        svc2 = service(
            "HostlessService",
            [method("Ping", P + ".PingRequest", P + ".ImportResponse"),
             method("Continue", P + ".ImportRequest", P + ".ImportResponse", cs=True)])
        svc3 = service("EmptyService", [], host="empty.example.com")
        return [file_("acme/widgets/widgets.proto", pkg, deps=STD_DEPS,
                      messages=[inner, imp_req, imp_resp, empty_req, list_req, list_resp],
                      enums=[color, single], services=[svc1, svc2, svc3])], pkg

    files, pkg = odd_files()
    cases["odd_grpc"] = pack(files, pkg, "", raw=True, requests=True)
    files, pkg = odd_files()
    cases["odd_rest"] = pack(files, pkg, "transport=rest", raw=True)
    files, pkg = odd_files()
    cases["odd_named"] = pack(
        files, pkg,
        "transport=grpc+rest,python-gapic-namespace=Acme+Cloud,"
        "python-gapic-name=Gizmos,warehouse-package-name=acme-gizmos")

    # ------------------------------------------------------------------ #
    # Case 3: requests / responses from another package, several files,
    # several services, a request that is a well-known type.
    # ------------------------------------------------------------------ #
    def cross_files():
        common_pkg = "example.shared.type"
        CP = "." + common_pkg
        common = file_(
            "example/shared/type/common.proto", common_pkg, deps=STD_DEPS,
            messages=[
                message("SharedRequest",
                        [field("id", 1, F.TYPE_STRING, required=True),
                         field("level", 2, F.TYPE_ENUM, type_name=CP + ".Level",
                               required=True),
                         field("detail", 3, F.TYPE_MESSAGE, type_name=CP + ".Detail",
                               required=True)]),
                message("Detail", [field("note", 1, F.TYPE_STRING, required=True),
                                   field("at", 2, F.TYPE_MESSAGE,
                                         type_name=".google.protobuf.Timestamp",
                                         required=True),
                                   field("levels", 3, F.TYPE_ENUM,
                                         type_name=CP + ".Level", repeated=True,
                                         oneof_index=None)]),
                message("SharedResponse", [field("ok", 1, F.TYPE_BOOL)])],
            enums=[enum("Level", ["LEVEL_UNSPECIFIED", "LOW", "HIGH"])])
        pkg = "example.fleet.v2beta1"
        P = "." + pkg
        res_file = file_(
            "example/fleet/v2beta1/resources.proto", pkg, deps=STD_DEPS,
            messages=[
                message("Truck",
                        [field("name", 1, F.TYPE_STRING),
                         field("plate", 2, F.TYPE_STRING, required=True)],
                        resource=("fleet.example.com/Truck",
                                  ["projects/{project}/trucks/{truck}"])),
                message("UpdateTruckRequest",
                        [field("truck", 1, F.TYPE_MESSAGE, type_name=P + ".Truck",
                               required=True),
                         field("shared", 2, F.TYPE_MESSAGE,
                               type_name=CP + ".SharedRequest", required=True),
                         field("update_mask", 3, F.TYPE_MESSAGE,
                               type_name=".google.protobuf.FieldMask")])])
        svc_file = file_(
            "example/fleet/v2beta1/fleet_service.proto", pkg,
            deps=STD_DEPS + ["example/shared/type/common.proto",
                             "example/fleet/v2beta1/resources.proto"],
            services=[
                service("FleetService",
                        [method("Check", CP + ".SharedRequest", CP + ".SharedResponse",
                                http=("post", "/v2beta1/check", "*"), sigs=["id"]),
                         method("UpdateTruck", P + ".UpdateTruckRequest", P + ".Truck",
                                http=("patch", "/v2beta1/{truck.name=projects/*/trucks/*}",
                                      "truck"), sigs=["truck,update_mask"]),
                         method("WatchChecks", CP + ".SharedRequest",
                                CP + ".SharedResponse", ss=True),
                         method("Wait", ".google.protobuf.Duration",
                                ".google.protobuf.Empty")],
                        host="fleet.example.com"),
                service("DepotService",
                        [method("Check", CP + ".SharedRequest", P + ".Truck",
                                http=("post", "/v2beta1/depot:check", "*"))],
                        host="depot.fleet.example.com")])
        return [common, res_file, svc_file], pkg

    files, pkg = cross_files()
    cases["cross_grpc_rest"] = pack(files, pkg, "transport=grpc+rest", raw=True,
                                    requests=True)
    files, pkg = cross_files()
    cases["cross_rest_only"] = pack(files, pkg, "transport=rest,rest-numeric-enums")

    # ------------------------------------------------------------------ #
    # Case 4: handwritten sample configs on top of the generated ones.
    # They reach what autogenerated specs never do: sample function
    # parameters (print_input_params), resource-name requests, comments,
    # defines, collection loops, map loops of all three shapes, nested
    # loops and write_file statements.
    # ------------------------------------------------------------------ #
    samples_yaml = os.path.join(tmpdir, "library_samples.yaml")
    S = "  service: google.example.library.v1.LibraryService\n"
    with open(samples_yaml, "w") as f:
        f.write(
            "type: com.google.api.codegen.samplegen.v1p2.SampleConfigProto\n"
            "schema_version: 1.2.0\n"
            "samples:\n"
            # resource-name request + every kind of response statement
            "- region_tag: handwritten_get_book_everything\n" + S +
            "  rpc: GetBook\n"
            "  request:\n"
            "  - field: name%shelf\n"
            "    value: '\"s1\"'\n"
            "    input_parameter: shelf_id\n"
            "  - field: name%book\n"
            "    value: '\"b1\"'\n"
            "  response:\n"
            "  - comment: ['book %s by %s', '$resp.name', '$resp.author']\n"
            "  - comment: ['no parameters here']\n"
            "  - define: book_pages=$resp.pages\n"
            "  - print: ['%s', '$resp']\n"
            "  - print: ['pages \"%s\" of %s', book_pages, '$resp.name']\n"
            "  - loop:\n"
            "      collection: $resp.chapters\n"
            "      variable: chapter\n"
            "      body:\n"
            "      - print: ['%s', chapter.title]\n"
            "      - loop:\n"
            "          map: chapter.index\n"
            "          key: term\n"
            "          value: note\n"
            "          body:\n"
            "          - print: ['%s -> %s', term, note.text]\n"
            "          - loop:\n"
            "              collection: note.lines\n"
            "              variable: line\n"
            "              body:\n"
            "              - comment: ['line %s of %s', line, term]\n"
            "              - print: ['%s', line]\n"
            "      - loop:\n"
            "          collection: chapter.footnotes\n"
            "          variable: footnote\n"
            "          body:\n"
            "          - print: ['%s', footnote]\n"
            "  - loop:\n"
            "      map: $resp.labels\n"
            "      key: label_key\n"
            "      body:\n"
            "      - print: ['key %s', label_key]\n"
            "  - loop:\n"
            "      map: $resp.labels\n"
            "      value: label_value\n"
            "      body:\n"
            "      - print: ['value %s', label_value]\n"
            "      - define: label_copy=label_value\n"
            "  - loop:\n"
            "      map: $resp.labels\n"
            "      key: k\n"
            "      value: v\n"
            "      body: []\n"
            "  - write_file:\n"
            "      filename: ['book_%s.jpg', '$resp.name']\n"
            "      contents: $resp.cover\n"
            # sample parameters coming from singles and from body attributes
            "- region_tag: handwritten_create_book_params\n" + S +
            "  rpc: CreateBook\n"
            "  transport: grpc-async\n"
            "  request:\n"
            "  - field: parent\n"
            "    value: shelves/s1\n"
            "    input_parameter: parent_shelf\n"
            "  - field: book.name\n"
            "    value: a \"quoted\" name\n"
            "    input_parameter: book_name\n"
            "  - field: book.author\n"
            "    value: someone\n"
            "  - field: book.cover\n"
            "    value: path/to/cover.jpg\n"
            "    input_parameter: cover_path\n"
            "    value_is_file: true\n"
            "  - field: book.kind\n"
            "    value: HARDBACK\n"
            "  - field: by_shelf.theme\n"
            "    value: history\n"
            "    input_parameter: theme\n"
            "  - field: to_name\n"
            "    value: elsewhere\n"
            "  response:\n"
            "  - print: ['created %s', '$resp.name']\n"
            # paged, with a per-item loop
            "- id: MyOwnListBooksID\n"
            "  region_tag: handwritten_list_books\n" + S +
            "  rpc: ListBooks\n"
            "  request:\n"
            "  - field: parent\n"
            "    value: shelves/s1\n"
            "    input_parameter: shelf\n"
            "  response:\n"
            "  - loop:\n"
            "      collection: $resp.pages\n"
            "      variable: page_number\n"
            "      body:\n"
            "      - print: ['%s', page_number]\n"
            # void
            "- region_tag: handwritten_delete_book\n" + S +
            "  rpc: DeleteBook\n"
            "  transport: rest\n"
            "  request:\n"
            "  - field: name\n"
            "    value: shelves/s1/books/b1\n"
            "  - field: force\n"
            "    value: true\n"
            # LRO with response statements
            "- region_tag: handwritten_move_book\n" + S +
            "  rpc: MoveBook\n"
            "  request:\n"
            "  - field: name\n"
            "    value: shelves/s1/books/b1\n"
            "    input_parameter: book\n"
            "  - field: other_shelf_name\n"
            "    value: shelves/s2\n"
            "    input_parameter: destination\n"
            "  response:\n"
            "  - loop:\n"
            "      map: $resp.labels\n"
            "      value: label\n"
            "      body:\n"
            "      - comment: ['moved label %s', label]\n"
            # server streaming, async
            "- region_tag: handwritten_stream_books\n" + S +
            "  rpc: StreamBooks\n"
            "  transport: grpc-async\n"
            "  request:\n"
            "  - field: shelf\n"
            "    value: shelves/s1\n"
            "  response:\n"
            "  - loop:\n"
            "      map: $resp.labels\n"
            "      key: label\n"
            "      body:\n"
            "      - print: ['%s', label]\n"
            # bidi streaming
            "- region_tag: handwritten_discuss_book\n" + S +
            "  rpc: DiscussBook\n"
            "  request:\n"
            "  - field: comment\n"
            "    value: nice\n"
            "    input_parameter: first_comment\n"
            "  response:\n"
            "  - comment: ['got %s', '$resp.text']\n")
    cases["library_handwritten"] = pack(
        library_files(), LIB, "transport=grpc+rest,samples=" + samples_yaml, raw=True)
    cases["library_handwritten_only"] = pack(
        library_files(), LIB, "autogen-snippets=false,samples=" + samples_yaml,
        raw=True)

    # an invalid map loop (neither key nor value): the same BadLoop from both
    bad_yaml = os.path.join(tmpdir, "bad_samples.yaml")
    with open(bad_yaml, "w") as f:
        f.write(
            "type: com.google.api.codegen.samplegen.v1p2.SampleConfigProto\n"
            "schema_version: 1.2.0\n"
            "samples:\n"
            "- region_tag: bad_loop\n" + S +
            "  rpc: GetBook\n"
            "  response:\n"
            "  - loop:\n"
            "      map: $resp.labels\n"
            "      body: []\n")
    cases["library_bad_loop"] = pack(library_files(), LIB, "samples=" + bad_yaml)

    # ------------------------------------------------------------------ #
    # Case 5: no API at all - macro / parser level matrix (see unit_level)
    # ------------------------------------------------------------------ #
    cases["unit_level_matrix"] = {"unit": True}

    return cases


# --------------------------------------------------------------------------- #
# Parent mode
# --------------------------------------------------------------------------- #
def main(argv):
    if len(argv) >= 2 and argv[1] == "--child":
        return child(argv[2], argv[3], argv[4])
    if len(argv) != 2:
        print(__doc__)
        return 2

    checkout = os.path.abspath(argv[1])
    tmpdir = tempfile.mkdtemp(prefix="twin-demo-V14-")
    try:
        pristine = os.path.join(tmpdir, "pristine")
        os.mkdir(pristine)
        archive = subprocess.Popen(
            ["git", "-C", checkout, "archive", "HEAD"], stdout=subprocess.PIPE)
        subprocess.check_call(["tar", "-x", "-C", pristine], stdin=archive.stdout)
        if archive.wait() != 0:
            print("git archive failed")
            return 1

        cases = _build_cases(tmpdir)
        env = dict(os.environ, PYTHONDONTWRITEBYTECODE="1", PYTHONHASHSEED="0")
        env.pop("PYTHONPATH", None)

        jobs = []
        for name, case in cases.items():
            case_path = os.path.join(tmpdir, name + ".case")
            with open(case_path, "wb") as f:
                pickle.dump(case, f)
            for label, tree in (("old", pristine), ("new", checkout)):
                out_path = os.path.join(tmpdir, f"{name}.{label}.out")
                jobs.append((name, label, out_path, [
                    sys.executable, os.path.abspath(__file__), "--child", tree,
                    case_path, out_path]))

        # run the children a few at a time
        width = max(2, min(12, os.cpu_count() or 2))
        failed = False
        outputs = {}
        pending = list(jobs)
        running = []
        while pending or running:
            while pending and len(running) < width:
                name, label, out_path, cmd = pending.pop(0)
                p = subprocess.Popen(cmd, cwd=tmpdir, env=env,
                                     stdout=subprocess.PIPE, stderr=subprocess.STDOUT)
                running.append((name, label, out_path, p))
            name, label, out_path, p = running.pop(0)
            log = p.communicate()[0].decode("utf8", "replace")
            if p.returncode != 0 or not os.path.exists(out_path):
                failed = True
                print(f"[{name}/{label}] generator subprocess failed:\n{log[-2000:]}")
                continue
            with open(out_path, "rb") as f:
                outputs[(name, label)] = pickle.load(f)
        if failed:
            return 1

        diffs = []
        total_files = total_samples = total_raw = total_unit = 0
        exceptions = []
        for name in cases:
            old, new = outputs[(name, "old")], outputs[(name, "new")]
            total_unit += sum(1 for k in old if k.startswith(("unit/", "extra/")))
            total_raw += sum(1 for k in old if k.startswith("raw/"))
            total_files += sum(
                1 for k in old if not k.startswith(("raw/", "unit/", "extra/")))
            total_samples += sum(
                1 for k in old if k.startswith("samples/generated_samples/"))
            if "<EXCEPTION>" in old:
                exceptions.append(f"{name}: {old['<EXCEPTION>'].decode()[:90]}")
            for fname in sorted(set(old) | set(new)):
                if fname not in new:
                    diffs.append(f"{name}: {fname} missing with the change")
                elif fname not in old:
                    diffs.append(f"{name}: {fname} only with the change")
                elif old[fname] != new[fname]:
                    diffs.append(f"{name}: {fname} differs")

        if diffs:
            print(f"DIFFERENT: {len(diffs)} file(s)")
            for line in diffs:
                print("  " + line)
            return 1
        extra = f"; identical exceptions in: {exceptions}" if exceptions else ""
        print(f"IDENTICAL: {len(cases)} cases, {total_files} output files "
              f"({total_samples} under samples/generated_samples) byte-for-byte equal "
              f"between HEAD and the working tree, as are {total_raw} files "
              f"re-generated without whitespace post-processing and {total_unit} "
              f"macro/parser/default-request level results{extra}")
        return 0
    finally:
        shutil.rmtree(tmpdir, ignore_errors=True)


if __name__ == "__main__":
    sys.exit(main(sys.argv))
