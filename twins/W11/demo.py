#!/usr/bin/env python
"""Output-equivalence demo for the W11 refactoring (property C11).

Usage:  /venv/bin/python demo.py <path-to-a-checkout-with-the-change>

The script exports the checkout's HEAD (pristine tree) next to the checkout's
working tree (tree with the change), builds several CodeGeneratorRequests in
Python (no protoc), runs the generator of BOTH trees on each request in
separate subprocesses and compares all emitted files byte for byte.  On top
of that, a "probe" run calls the refactored functions (Options.build,
Naming.build, Generator._get_filename) directly with a fixed list of edge-case
inputs and the results (values, exceptions, warnings) are compared as well.

Exit status 0 and a one-line summary when everything is identical, 1 (and a
list of the differing files) otherwise.
"""

import hashlib
import json
import os
import shutil
import subprocess
import sys
import tempfile


# ---------------------------------------------------------------------------
# Worker: runs inside a subprocess, with exactly one `gapic` tree importable.
# ---------------------------------------------------------------------------
def _isolate(tree: str) -> None:
    """Make `tree` the only provider of the `gapic` package."""
    tree = os.path.realpath(tree)
    # Drop the editable-install finder(s) and their sys.path placeholders.
    sys.meta_path[:] = [
        f
        for f in sys.meta_path
        if "editable" not in (getattr(f, "__module__", "") or "").lower()
        and "editable" not in getattr(f, "__name__", type(f).__name__).lower()
    ]
    kept = []
    for entry in sys.path:
        if "__editable__" in entry:
            continue
        real = os.path.realpath(entry or os.getcwd())
        if real != tree and os.path.isdir(os.path.join(real, "gapic")):
            continue
        if real == tree:
            continue
        kept.append(entry)
    sys.path[:] = [tree] + kept
    sys.path_importer_cache.clear()
    for name in list(sys.modules):
        if name == "gapic" or name.startswith("gapic."):
            del sys.modules[name]


def _assert_isolated(tree: str, template_dirs) -> None:
    tree = os.path.realpath(tree) + os.sep
    seen = 0
    for name, mod in list(sys.modules.items()):
        if name != "gapic" and not name.startswith("gapic."):
            continue
        seen += 1
        locations = []
        if getattr(mod, "__file__", None):
            locations.append(mod.__file__)
        locations.extend(list(getattr(mod, "__path__", []) or []))
        assert locations, f"{name}: no location"
        for loc in locations:
            assert os.path.realpath(loc).startswith(tree), (name, loc, tree)
    assert seen > 10, seen
    for d in template_dirs:
        assert os.path.realpath(d).startswith(tree), (d, tree)


def _stub_pandoc() -> None:
    # pandoc is not installed: use the same deterministic stand-in in both runs.
    import pypandoc  # type: ignore

    def convert_text(source, to, format=None, extra_args=(), **kwargs):
        return "[%s>%s %s] %s" % (format, to, " ".join(extra_args), source)

    pypandoc.convert_text = convert_text


def worker_generate(tree: str, request_path: str, out_path: str) -> None:
    _isolate(tree)
    _stub_pandoc()
    import warnings

    warnings.simplefilter("ignore")

    # Register the annotation extensions before the request is parsed.
    from google.api import annotations_pb2, client_pb2, field_behavior_pb2  # noqa: F401
    from google.api import resource_pb2, routing_pb2  # noqa: F401
    from google.longrunning import operations_pb2  # noqa: F401
    from google.protobuf.compiler import plugin_pb2

    from gapic import generator
    from gapic.schema import api
    from gapic.utils import Options
    import gapic.cli.generate  # noqa: F401  (checked by the isolation assert)

    with open(request_path, "rb") as f:
        req = plugin_pb2.CodeGeneratorRequest.FromString(f.read())

    result = {}
    try:
        # Same steps as gapic/cli/generate.py: generate().
        opts = Options.build(req.parameter)
        package = os.path.commonprefix(
            [p.package for p in req.proto_file if p.name in req.file_to_generate]
        ).rstrip(".")
        api_schema = api.API.build(req.proto_file, opts=opts, package=package)
        res = generator.Generator(opts).get_response(api_schema, opts)
        _assert_isolated(tree, opts.templates)
        names = [f.name for f in res.file]
        result["names"] = names
        result["supported_features"] = res.supported_features
        result["files"] = {}
        for f in res.file:
            # Keep duplicates visible (there must be none, but if there were
            # both trees must agree on them).
            key = f.name
            while key in result["files"]:
                key += "#dup"
            result["files"][key] = f.content
        naming = api_schema.naming
        result["naming"] = {
            "long_name": naming.long_name,
            "module_name": naming.module_name,
            "module_namespace": list(naming.module_namespace),
            "namespace_packages": list(naming.namespace_packages),
            "versioned_module_name": naming.versioned_module_name,
            "warehouse_package_name": naming.warehouse_package_name,
            "subpackages": _subpackage_tree(api_schema),
            "proto_modules": {
                k: v.module_name for k, v in api_schema.all_protos.items()
            },
        }
    except Exception as exc:  # both trees must fail identically, if at all
        result["exception"] = "%s: %s" % (type(exc).__name__, exc)
    with open(out_path, "w") as f:
        json.dump(result, f, sort_keys=True)


def _subpackage_tree(api_schema, depth=0):
    if depth > 4:
        return "..."
    return {
        name: {
            "view": list(sub.subpackage_view),
            "protos": list(sub.protos),
            "sub": _subpackage_tree(sub, depth + 1),
        }
        for name, sub in api_schema.subpackages.items()
    }


def worker_probe(tree: str, out_path: str) -> None:
    """Call the refactored functions directly on a fixed list of edge cases."""
    _isolate(tree)
    import dataclasses
    import types
    import warnings

    from gapic.generator import generator as generator_mod
    from gapic.schema import naming
    from gapic.utils import Options
    import gapic.utils.options as options_mod
    from google.protobuf import descriptor_pb2

    out = {}
    gapic_dir = os.path.dirname(os.path.dirname(os.path.realpath(options_mod.__file__)))

    def rel(p):
        # Paths are reported relative to the tree so both runs can be compared.
        p = str(p)
        real_tree = os.path.realpath(tree)
        for prefix in (real_tree, tree):
            if p.startswith(prefix):
                return "<TREE>" + p[len(prefix):]
        return p

    # ---- Options.build: templates / proto-plus-deps / unknown options.
    opt_strings = [
        "",
        ",",
        " , ,",
        "python-gapic-templates=DEFAULT",
        "python-gapic-templates=ads-templates",
        "python-gapic-templates=/abs/dir/../other//x",
        "python-gapic-templates=rel/./dir/..,python-gapic-templates=DEFAULT",
        "python-gapic-templates=DEFAULT,python-gapic-templates=DEFAULT",
        "python-gapic-templates=~/mine,python-gapic-templates=default",
        "python-gapic-templates",
        "python-gapic-templates=",
        "templates=DEFAULT",
        "proto-plus-deps",
        "proto-plus-deps=",
        "proto-plus-deps=a.b.v1",
        "proto-plus-deps=a.b.v1+c.d.v2",
        "proto-plus-deps=a+b,proto-plus-deps=c+d",
        "python-gapic-proto-plus-deps=x+y,proto-plus-deps=z",
        "proto-plus-deps=+",
        "bogus=1,python-gapic-bogus=2,python-gapic-other,python-gapic-bogus=3",
        "python-gapic-name=n,python-gapic-name=m,python-gapic-namespace=a.b,"
        "python-gapic-namespace=c",
        "transport=rest+grpc,rest-numeric-enums,metadata,lazy-import,"
        "add-iam-methods,old-naming,warehouse-package-name=w,autogen-snippets=false",
        "python-gapic-=5",
        "=,==,python-gapic-x==y",
    ]
    rows = []
    for text in opt_strings:
        with warnings.catch_warnings(record=True) as caught:
            warnings.simplefilter("always")
            try:
                o = Options.build(text)
                d = dataclasses.asdict(o)
                d["templates"] = [rel(t) for t in d["templates"]]
                d["types"] = {k: type(getattr(o, k)).__name__ for k in sorted(d)}
                row = {"opts": d}
            except Exception as exc:
                row = {"exception": "%s: %s" % (type(exc).__name__, exc)}
            row["warnings"] = [
                "%s: %s" % (w.category.__name__, w.message) for w in caught
            ]
        rows.append([text, row])
    out["options_build"] = rows
    out["options_module_public_names"] = sorted(
        n for n in vars(options_mod) if not n.startswith("_")
    )

    # ---- Naming.build: inference and every combination of overrides.
    packages = [
        ["google.cloud.vision.v1"],
        ["google.cloud.vision.v1p1beta1"],
        ["vision"],
        ["a.b.c.d.e_f.v9"],
        ["foo.v1beta"],
        ["foo_bar.v2alpha3"],
        ["google.ads.x.v3.resources", "google.ads.x.v3.services"],
        ["x.v1", "x.v1"],
        ["x.y", "x.z"],  # no version, several packages -> ValueError
        ["a.v1", "b.v1"],  # no common root -> ValueError
        [""],
        ["v1"],
        ["google.v1.v2"],
        ["Upper.Case.v1"],  # does not match the pattern
    ]
    override_strings = [
        "",
        "old-naming",
        "python-gapic-name=my_thing",
        "python-gapic-name=a b__c",
        "python-gapic-name= lead",
        "python-gapic-namespace=x.y",
        "python-gapic-namespace=x.y,python-gapic-namespace=z",
        "python-gapic-namespace=.",
        "warehouse-package-name=w-p",
        "proto-plus-deps=q.v1+r.v2",
        "python-gapic-name=n_m,python-gapic-namespace=big.corp,"
        "warehouse-package-name=w,proto-plus-deps=q.v1,old-naming",
        "python-gapic-name=n,proto-plus-deps=q.v1",
        "python-gapic-namespace=ns,warehouse-package-name=w",
    ]
    built = []
    for pkgs in packages:
        for text in override_strings:
            fds = [
                descriptor_pb2.FileDescriptorProto(name="f%d.proto" % i, package=p)
                for i, p in enumerate(pkgs)
            ]
            with warnings.catch_warnings():
                warnings.simplefilter("ignore")
                o = Options.build(text)
            try:
                n = naming.Naming.build(*fds, opts=o)
                item = [
                    type(n).__name__,
                    {
                        f.name: [type(getattr(n, f.name)).__name__,
                                 repr(getattr(n, f.name))]
                        for f in dataclasses.fields(n)
                    },
                    n.long_name,
                    n.module_name,
                    list(n.module_namespace),
                    list(n.namespace_packages),
                    n.versioned_module_name,
                    n.warehouse_package_name,
                ]
            except Exception as exc:
                msg = str(exc)
                if "The packages we got are" in msg:
                    # The tail lists a set in hash order; keep the stable part.
                    msg = msg.split("The packages we got are")[0]
                item = ["exception", type(exc).__name__, msg]
            built.append([pkgs, text, item])
    # Naming.build() with default options and with no descriptors at all.
    try:
        naming.Naming.build()
        built.append("no-descriptors: returned")
    except Exception as exc:
        built.append("no-descriptors: %s" % type(exc).__name__)
    out["naming_build"] = built

    # ---- Generator._get_filename on hand-made schemas.
    g = generator_mod.Generator(Options.build(""))
    templates = [
        "%namespace/%name_%version/%sub/services/%service/client.py.j2",
        "%namespace/%name_%version/%sub/types/%proto.py.j2",
        "%namespace/%name_%version/%sub/__init__.py.j2",
        "%namespace/%name/__init__.py.j2",
        "%namespace/%name/%version/%sub/foo.py.j2",
        "%name/%version/%name_%version.py.j2",
        "docs/%name_%version/%service.rst.j2",
        "tests/unit/gapic/%name_%version/%sub/test_%service.py.j2",
        "setup.py.j2",
        "%namespace.j2",
        "/%namespace//%sub///x.py.j2",
        "%version%name%sub.py.j2",
        "a.j2",
        "j2",
    ]
    namings = []
    for klass in (naming.NewNaming, naming.OldNaming):
        for ns in [(), ("Google",), ("Google", "Cloud"), ("Big Corp", "R&D"),
                   ("", "X"), ("%name",)]:
            for name in ["Library", "My Cool Api", "", "%version"]:
                for version in ["", "v1", "v1p1beta1", "%sub"]:
                    namings.append(klass(name=name, namespace=ns, version=version))
    views = [(), ("resources",), ("resources", "deep"), ("", "x")]
    contexts = [
        None,
        {},
        {"service": types.SimpleNamespace(module_name="lib_service")},
        {"proto": types.SimpleNamespace(module_name="lib_types")},
        {"service": types.SimpleNamespace(module_name="%proto"),
         "proto": types.SimpleNamespace(module_name="p")},
    ]
    names = []
    for n in namings:
        for view in views:
            schema = types.SimpleNamespace(naming=n, subpackage_view=view)
            for ctx in contexts:
                for t in templates:
                    names.append(g._get_filename(t, api_schema=schema, context=ctx))
    out["get_filename_count"] = len(names)
    out["get_filename"] = names

    _assert_isolated(tree, [])

    def encode(o):
        if isinstance(o, (set, frozenset)):
            return sorted(o)
        return repr(o)

    with open(out_path, "w") as f:
        json.dump(out, f, sort_keys=True, default=encode)


# ---------------------------------------------------------------------------
# Request construction (parent process).
# ---------------------------------------------------------------------------
def build_requests():
    from google.api import annotations_pb2, client_pb2, field_behavior_pb2
    from google.api import resource_pb2
    from google.longrunning import operations_pb2
    from google.protobuf import descriptor_pb2 as d
    from google.protobuf import empty_pb2, timestamp_pb2, field_mask_pb2
    from google.protobuf.compiler import plugin_pb2

    F = d.FieldDescriptorProto
    T = {
        "string": F.TYPE_STRING,
        "int32": F.TYPE_INT32,
        "int64": F.TYPE_INT64,
        "bool": F.TYPE_BOOL,
        "bytes": F.TYPE_BYTES,
        "double": F.TYPE_DOUBLE,
        "float": F.TYPE_FLOAT,
    }

    def dep_files(*modules):
        seen = {}

        def visit(fdesc):
            if fdesc.name in seen:
                return
            for dep in fdesc.dependencies:
                visit(dep)
            fdp = d.FileDescriptorProto()
            fdesc.CopyToProto(fdp)
            seen[fdesc.name] = fdp

        for m in modules:
            visit(m.DESCRIPTOR)
        return list(seen.values())

    common_deps = dep_files(
        annotations_pb2,
        client_pb2,
        field_behavior_pb2,
        resource_pb2,
        operations_pb2,
        empty_pb2,
        timestamp_pb2,
        field_mask_pb2,
    )
    common_dep_names = [f.name for f in common_deps]

    def field(name, number, typ, repeated=False, oneof=None, optional=False,
              required=False, resource_ref=None):
        f = F(name=name, number=number)
        f.label = F.LABEL_REPEATED if repeated else F.LABEL_OPTIONAL
        if typ in T:
            f.type = T[typ]
        elif typ.startswith("enum:"):
            f.type = F.TYPE_ENUM
            f.type_name = typ[len("enum:"):]
        else:
            f.type = F.TYPE_MESSAGE
            f.type_name = typ
        if oneof is not None:
            f.oneof_index = oneof
        if optional:
            f.proto3_optional = True
        if required:
            f.options.Extensions[field_behavior_pb2.field_behavior].append(
                field_behavior_pb2.REQUIRED
            )
        if resource_ref:
            f.options.Extensions[resource_pb2.resource_reference].type = resource_ref
        return f

    def message(name, fields=(), oneofs=(), nested=(), enums=(), resource=None):
        m = d.DescriptorProto(name=name)
        m.field.extend(fields)
        for o in oneofs:
            m.oneof_decl.add(name=o)
        m.nested_type.extend(nested)
        m.enum_type.extend(enums)
        if resource:
            r = m.options.Extensions[resource_pb2.resource]
            r.type = resource[0]
            r.pattern.extend(resource[1:])
        return m

    def map_entry(name, key_type, value_type):
        m = message(name, [field("key", 1, key_type), field("value", 2, value_type)])
        m.options.map_entry = True
        return m

    def enum(name, *values):
        e = d.EnumDescriptorProto(name=name)
        for i, v in enumerate(values):
            e.value.add(name=v, number=i)
        return e

    def method(name, inp, out, http=None, sig=(), cstream=False, sstream=False,
               lro=None):
        m = d.MethodDescriptorProto(name=name, input_type=inp, output_type=out)
        m.client_streaming = cstream
        m.server_streaming = sstream
        if http:
            verb, uri, body = http
            rule = m.options.Extensions[annotations_pb2.http]
            setattr(rule, verb, uri)
            if body:
                rule.body = body
        for s in sig:
            m.options.Extensions[client_pb2.method_signature].append(s)
        if lro:
            info = m.options.Extensions[operations_pb2.operation_info]
            info.response_type, info.metadata_type = lro
        return m

    def service(name, host, methods, scopes=None):
        s = d.ServiceDescriptorProto(name=name)
        s.method.extend(methods)
        if host:
            s.options.Extensions[client_pb2.default_host] = host
        if scopes:
            s.options.Extensions[client_pb2.oauth_scopes] = scopes
        return s

    def file(name, package, deps=(), messages=(), enums=(), services=(),
             comments=()):
        f = d.FileDescriptorProto(name=name, package=package, syntax="proto3")
        f.dependency.extend(deps)
        f.message_type.extend(messages)
        f.enum_type.extend(enums)
        f.service.extend(services)
        for path, text in comments:
            f.source_code_info.location.add(path=path, leading_comments=text)
        return f

    def request(targets, extra_deps, parameter):
        req = plugin_pb2.CodeGeneratorRequest()
        req.parameter = parameter
        req.proto_file.extend(common_deps)
        req.proto_file.extend(extra_deps)
        req.proto_file.extend(targets)
        req.file_to_generate.extend(t.name for t in targets)
        return req

    LRO = ".google.longrunning.Operation"
    EMPTY = ".google.protobuf.Empty"

    # A dependency-only file shared by several cases (nothing may be emitted
    # for it).
    def dep_money(pkg="google.type", name="google/type/money.proto"):
        return file(
            name,
            pkg,
            messages=[
                message(
                    "Money",
                    [field("currency_code", 1, "string"), field("units", 2, "int64")],
                )
            ],
        )

    cases = []

    # ---- Case 1: google.cloud.library.v1, several target files whose names
    # need sanitising, LRO, paging, resources, flattening, REST + gRPC.
    P = "google.cloud.library.v1"
    p = "." + P
    types_file = file(
        "google/cloud/library/v1/Library.Types-v1.proto",
        P,
        deps=["google/api/resource.proto", "google/api/field_behavior.proto",
              "google/type/money.proto", "google/protobuf/timestamp.proto"],
        messages=[
            message(
                "Book",
                [
                    field("name", 1, "string"),
                    field("author", 2, "string"),
                    field("price", 3, ".google.type.Money"),
                    field("labels", 4, p + ".Book.LabelsEntry", repeated=True),
                    field("class", 5, "string"),
                    field("isbn", 6, "string", oneof=0),
                    field("issn", 7, "int64", oneof=0),
                    field("rating", 8, "enum:" + p + ".Book.Rating"),
                    field("subtitle", 9, "string", oneof=1, optional=True),
                    field("printed", 10, ".google.protobuf.Timestamp"),
                ],
                oneofs=["identifier", "_subtitle"],
                nested=[map_entry("LabelsEntry", "string", "string")],
                enums=[enum("Rating", "RATING_UNSPECIFIED", "GOOD", "None")],
                resource=("library.googleapis.com/Book",
                          "shelves/{shelf}/books/{book}"),
            ),
            message(
                "Shelf",
                [field("name", 1, "string"), field("theme", 2, "string")],
                resource=("library.googleapis.com/Shelf", "shelves/{shelf}"),
            ),
        ],
        enums=[enum("Genre", "GENRE_UNSPECIFIED", "FICTION", "SCIENCE")],
        comments=[
            ([4, 0], " A single `Book` in the *library*.\n"),
            ([4, 0, 2, 0], " The resource name, e.g. `shelves/1/books/2`.\n"),
            ([4, 1], " A Shelf contains books.\n"),
        ],
    )
    svc_file = file(
        "google/cloud/library/v1/library_service.proto",
        P,
        deps=["google/api/annotations.proto", "google/api/client.proto",
              "google/api/field_behavior.proto", "google/api/resource.proto",
              "google/longrunning/operations.proto", "google/protobuf/empty.proto",
              "google/protobuf/field_mask.proto",
              "google/cloud/library/v1/Library.Types-v1.proto"],
        messages=[
            message("GetBookRequest", [
                field("name", 1, "string", required=True,
                      resource_ref="library.googleapis.com/Book")]),
            message("CreateBookRequest", [
                field("parent", 1, "string", required=True,
                      resource_ref="library.googleapis.com/Shelf"),
                field("book", 2, p + ".Book", required=True)]),
            message("UpdateBookRequest", [
                field("book", 1, p + ".Book"),
                field("update_mask", 2, ".google.protobuf.FieldMask")]),
            message("DeleteBookRequest", [field("name", 1, "string")]),
            message("ListBooksRequest", [
                field("parent", 1, "string"),
                field("page_size", 2, "int32"),
                field("page_token", 3, "string")]),
            message("ListBooksResponse", [
                field("books", 1, p + ".Book", repeated=True),
                field("next_page_token", 2, "string")]),
            message("MoveBooksRequest", [
                field("source", 1, "string"), field("destination", 2, "string")]),
            message("MoveBooksResponse", [field("moved", 1, "int32")]),
            message("MoveBooksMetadata", [field("progress", 1, "double")]),
        ],
        services=[
            service(
                "LibraryService",
                "library.googleapis.com",
                [
                    method("GetBook", p + ".GetBookRequest", p + ".Book",
                           http=("get", "/v1/{name=shelves/*/books/*}", None),
                           sig=["name"]),
                    method("CreateBook", p + ".CreateBookRequest", p + ".Book",
                           http=("post", "/v1/{parent=shelves/*}/books", "book"),
                           sig=["parent,book"]),
                    method("UpdateBook", p + ".UpdateBookRequest", p + ".Book",
                           http=("patch", "/v1/{book.name=shelves/*/books/*}", "book"),
                           sig=["book,update_mask"]),
                    method("DeleteBook", p + ".DeleteBookRequest", EMPTY,
                           http=("delete", "/v1/{name=shelves/*/books/*}", None)),
                    method("ListBooks", p + ".ListBooksRequest",
                           p + ".ListBooksResponse",
                           http=("get", "/v1/{parent=shelves/*}/books", None),
                           sig=["parent"]),
                    method("MoveBooks", p + ".MoveBooksRequest", LRO,
                           http=("post", "/v1/{source=shelves/*}:move", "*"),
                           lro=("MoveBooksResponse", "MoveBooksMetadata")),
                ],
                scopes="https://www.googleapis.com/auth/cloud-platform",
            )
        ],
        comments=[
            ([6, 0], " Manages the books of a library.\n"),
            ([6, 0, 2, 0], " Gets a book. Returns NOT_FOUND if missing.\n"),
        ],
    )
    kw_file = file(
        "google/cloud/library/v1/import.proto",
        P,
        messages=[message("ImportJob", [field("from", 1, "string"),
                                        field("in", 2, "int32")])],
    )
    cases.append((
        "library_v1_default",
        request([types_file, svc_file, kw_file], [dep_money()],
                "metadata,some-unknown-option=7,python-gapic-bogus=1"),
    ))
    cases.append((
        "library_v1_rest_only",
        request([types_file, svc_file, kw_file], [dep_money()],
                "transport=rest,rest-numeric-enums,autogen-snippets=false,"
                "autogen-snippets=true,warehouse-package-name=acme-library"),
    ))

    # ---- Case 2: unversioned package, two namespace-less segments, several
    # services in one file, streaming, gRPC only.
    P = "acme.widgets"
    p = "." + P
    widgets = file(
        "acme/widgets/widget api.proto",
        P,
        deps=["google/api/client.proto", "google/protobuf/empty.proto"],
        messages=[
            message("Widget", [
                field("id", 1, "string"),
                field("tags", 2, "string", repeated=True),
                field("weights", 3, p + ".Widget.WeightsEntry", repeated=True),
                field("kind", 4, "enum:" + p + ".Kind"),
                field("blob", 5, "bytes"),
                field("ratio", 6, "float", optional=True, oneof=0),
            ], oneofs=["_ratio"],
                nested=[map_entry("WeightsEntry", "int32", p + ".Widget")]),
            message("WidgetQuery", [field("filter", 1, "string"),
                                    field("async", 2, "bool")]),
            message("Ack", [field("ok", 1, "bool")]),
        ],
        enums=[enum("Kind", "KIND_UNSPECIFIED", "ROUND", "SQUARE")],
        services=[
            service("Widgets", "widgets.example.com", [
                method("GetWidget", p + ".WidgetQuery", p + ".Widget", sig=["filter"]),
                method("WatchWidgets", p + ".WidgetQuery", p + ".Widget",
                       sstream=True),
                method("UploadWidgets", p + ".Widget", p + ".Ack", cstream=True),
                method("Chat", p + ".Widget", p + ".Widget", cstream=True,
                       sstream=True),
            ]),
            service("WidgetAdmin", "widgets.example.com", [
                method("Purge", p + ".WidgetQuery", EMPTY),
            ]),
            service("Empty_Service", "", []),
        ],
    )
    cases.append((
        "acme_widgets_unversioned_grpc",
        request([widgets], [dep_money("acme.money", "acme/money/money.proto")],
                "transport=grpc"),
    ))

    # ---- Case 3: three namespace segments, v1p1beta1, sub-packages (one and
    # two levels deep), services living in a sub-package.
    P = "com.example.cloud.foo.v1p1beta1"
    p = "." + P
    root_types = file(
        "com/example/cloud/foo/v1p1beta1/foo.proto",
        P,
        messages=[message("Foo", [field("name", 1, "string")])],
    )
    res_types = file(
        "com/example/cloud/foo/v1p1beta1/resources/thing.proto",
        P + ".resources",
        deps=["com/example/cloud/foo/v1p1beta1/foo.proto"],
        messages=[message("Thing", [field("foo", 1, p + ".Foo"),
                                    field("name", 2, "string")])],
        enums=[enum("ThingState", "THING_STATE_UNSPECIFIED", "ON", "OFF")],
    )
    deep_types = file(
        "com/example/cloud/foo/v1p1beta1/resources/deep/gadget.proto",
        P + ".resources.deep",
        messages=[message("Gadget", [field("size", 1, "int32")])],
    )
    sub_svc = file(
        "com/example/cloud/foo/v1p1beta1/services/thing_service.proto",
        P + ".services",
        deps=["google/api/annotations.proto", "google/api/client.proto",
              "com/example/cloud/foo/v1p1beta1/resources/thing.proto"],
        messages=[
            message("GetThingRequest", [field("name", 1, "string")]),
            message("ListThingsRequest", [field("page_size", 1, "int32"),
                                          field("page_token", 2, "string")]),
            message("ListThingsResponse", [
                field("things", 1, p + ".resources.Thing", repeated=True),
                field("next_page_token", 2, "string")]),
        ],
        services=[
            service("ThingService", "foo.example.com", [
                method("GetThing", p + ".services.GetThingRequest",
                       p + ".resources.Thing",
                       http=("get", "/v1p1beta1/{name=things/*}", None),
                       sig=["name"]),
                method("ListThings", p + ".services.ListThingsRequest",
                       p + ".services.ListThingsResponse",
                       http=("get", "/v1p1beta1/things", None)),
            ]),
        ],
    )
    cases.append((
        "foo_v1p1beta1_subpackages",
        request([root_types, res_types, deep_types, sub_svc], [dep_money()],
                "transport=grpc+rest,autogen-snippets=false"),
    ))

    # ---- Case 4: no namespace at all, v1beta1, name / namespace overrides and
    # the ads template set is NOT used; old-naming on.
    P = "speech.v1beta1"
    p = "." + P
    speech = file(
        "speech/v1beta1/cloud_speech.proto",
        P,
        deps=["google/api/annotations.proto", "google/api/client.proto",
              "google/longrunning/operations.proto"],
        messages=[
            message("RecognizeRequest", [field("audio", 1, "bytes"),
                                         field("language", 2, "string")]),
            message("RecognizeResponse", [field("transcript", 1, "string")]),
            message("Progress", [field("percent", 1, "int32")]),
        ],
        services=[
            service("Speech", "speech.googleapis.com", [
                method("Recognize", p + ".RecognizeRequest",
                       p + ".RecognizeResponse",
                       http=("post", "/v1beta1/speech:recognize", "*"),
                       sig=["audio,language", "audio"]),
                method("LongRunningRecognize", p + ".RecognizeRequest", LRO,
                       http=("post", "/v1beta1/speech:longrunningrecognize", "*"),
                       lro=(p[1:] + ".RecognizeResponse", p[1:] + ".Progress")),
                method("StreamingRecognize", p + ".RecognizeRequest",
                       p + ".RecognizeResponse", cstream=True, sstream=True),
            ]),
        ],
    )
    cases.append((
        "speech_v1beta1_no_namespace",
        request([speech], [], ""),
    ))
    cases.append((
        "speech_v1beta1_overrides_old_naming",
        request([speech], [],
                "python-gapic-name=my_cool speech,python-gapic-namespace=Big.Corp,"
                "python-gapic-namespace=labs,old-naming,transport=grpc,"
                "warehouse-package-name=big-corp-speech,lazy-import"),
    ))
    cases.append((
        "speech_v1beta1_overrides_new_naming",
        request([speech], [],
                "python-gapic-name=Text-To Speech,python-gapic-namespace=Big.Corp,"
                "add-iam-methods,metadata,transport=rest"),
    ))

    # ---- Case 5: the alternative (ads) template set, google.ads naming.
    P = "google.ads.fakeads.v3"
    p = "." + P
    ads_res = file(
        "google/ads/fakeads/v3/resources/campaign.proto",
        P + ".resources",
        deps=["google/api/resource.proto"],
        messages=[message("Campaign", [field("resource_name", 1, "string"),
                                       field("id", 2, "int64", optional=True,
                                             oneof=0)],
                          oneofs=["_id"],
                          resource=("fakeads.googleapis.com/Campaign",
                                    "customers/{customer}/campaigns/{campaign}"))],
    )
    ads_svc = file(
        "google/ads/fakeads/v3/services/campaign_service.proto",
        P + ".services",
        deps=["google/api/annotations.proto", "google/api/client.proto",
              "google/ads/fakeads/v3/resources/campaign.proto"],
        messages=[message("GetCampaignRequest",
                          [field("resource_name", 1, "string", required=True)])],
        services=[
            service("CampaignService", "fakeads.googleapis.com", [
                method("GetCampaign", p + ".services.GetCampaignRequest",
                       p + ".resources.Campaign",
                       http=("get", "/v3/{resource_name=customers/*/campaigns/*}",
                             None),
                       sig=["resource_name"]),
            ]),
        ],
    )
    cases.append((
        "fakeads_v3_ads_templates",
        request([ads_res, ads_svc], [],
                "python-gapic-templates=ads-templates,old-naming"),
    ))

    # ---- Case 6: explicit DEFAULT templates, proto-plus-deps, and a package
    # whose protos ALL live in sub-packages (nothing at the root), rendered
    # with the default template set and new naming.
    cases.append((
        "fakeads_v3_default_templates_all_in_subpackages",
        request([ads_res, ads_svc], [],
                "python-gapic-templates=DEFAULT,proto-plus-deps=google.type+x.y.v1,"
                "transport=grpc+rest,metadata,autogen-snippets=false"),
    ))
    cases.append((
        "library_v1_proto_plus_deps_and_overrides",
        request([types_file, svc_file, kw_file], [dep_money()],
                "proto-plus-deps=google.type,python-gapic-name=book_shop,"
                "python-gapic-namespace=acme.retail,warehouse-package-name=acme-books,"
                "python-gapic-templates=DEFAULT,python-gapic-templates=DEFAULT"),
    ))
    # Only one of several files of the package is a target: the others are
    # still part of the package (tracked at package level).
    cases.append((
        "foo_v1p1beta1_single_target_file",
        request([sub_svc], [dep_money(), root_types, res_types],
                "transport=rest"),
    ))

    assert all(n in common_dep_names for n in ("google/api/client.proto",))
    return cases


# ---------------------------------------------------------------------------
# Driver.
# ---------------------------------------------------------------------------
def run_worker(tree, args, cwd):
    env = dict(os.environ)
    env["PYTHONDONTWRITEBYTECODE"] = "1"
    env["PYTHONHASHSEED"] = "0"
    env.pop("PYTHONPATH", None)
    cmd = [sys.executable, os.path.abspath(__file__), "--worker", tree] + args
    proc = subprocess.run(cmd, cwd=cwd, env=env, capture_output=True, text=True)
    if proc.returncode != 0:
        sys.stdout.write(proc.stdout)
        sys.stderr.write(proc.stderr)
        raise SystemExit("worker failed for tree %s: %s" % (tree, " ".join(args)))


def compare(case, a, b, problems):
    if a.get("exception") or b.get("exception"):
        if a.get("exception") != b.get("exception"):
            problems.append("%s: exceptions differ: %r vs %r"
                            % (case, a.get("exception"), b.get("exception")))
        return 0
    if a["names"] != b["names"]:
        problems.append("%s: ordered file-name lists differ" % case)
    if a["supported_features"] != b["supported_features"]:
        problems.append("%s: supported_features differ" % case)
    if a["naming"] != b["naming"]:
        problems.append("%s: naming summary differs" % case)
    fa, fb = a["files"], b["files"]
    for name in sorted(set(fa) | set(fb)):
        if name not in fa:
            problems.append("%s: only in changed tree: %s" % (case, name))
        elif name not in fb:
            problems.append("%s: only in pristine tree: %s" % (case, name))
        elif fa[name] != fb[name]:
            problems.append("%s: content differs: %s" % (case, name))
    return len(fa)


def main(argv):
    if len(argv) >= 2 and argv[1] == "--worker":
        tree, mode = argv[2], argv[3]
        if mode == "generate":
            worker_generate(tree, argv[4], argv[5])
        elif mode == "probe":
            worker_probe(tree, argv[4])
        else:
            raise SystemExit("unknown worker mode")
        return 0

    if len(argv) != 2:
        print(__doc__)
        return 2
    checkout = os.path.realpath(argv[1])
    tmp = tempfile.mkdtemp(prefix="twin-demo-W11-")
    try:
        pristine = os.path.join(tmp, "pristine")
        os.mkdir(pristine)
        archive = subprocess.Popen(
            ["git", "-C", checkout, "archive", "HEAD"], stdout=subprocess.PIPE
        )
        subprocess.check_call(["tar", "-x", "-C", pristine], stdin=archive.stdout)
        archive.stdout.close()
        if archive.wait() != 0:
            raise SystemExit("git archive failed")

        # Work on a copy of the changed tree's sources so that nothing is ever
        # written into the checkout.
        changed = os.path.join(tmp, "changed")
        os.mkdir(changed)
        shutil.copytree(
            os.path.join(checkout, "gapic"),
            os.path.join(changed, "gapic"),
            ignore=shutil.ignore_patterns("__pycache__", "*.pyc"),
        )

        def digest(root):
            h = hashlib.sha256()
            for base, dirs, files in os.walk(os.path.join(root, "gapic")):
                dirs.sort()
                for fn in sorted(files):
                    if fn.endswith(".pyc"):
                        continue
                    path = os.path.join(base, fn)
                    h.update(os.path.relpath(path, root).encode())
                    with open(path, "rb") as f:
                        h.update(f.read())
            return h.hexdigest()

        trees_differ = digest(pristine) != digest(changed)

        workdir = os.path.join(tmp, "cwd")
        os.mkdir(workdir)
        cases = build_requests()
        problems = []
        total_files = 0
        failed_cases = []
        for case, req in cases:
            req_path = os.path.join(tmp, case + ".req")
            with open(req_path, "wb") as f:
                f.write(req.SerializeToString(deterministic=True))
            outs = []
            for label, tree in (("pristine", pristine), ("changed", changed)):
                out_path = os.path.join(tmp, "%s.%s.json" % (case, label))
                run_worker(tree, ["generate", req_path, out_path], workdir)
                with open(out_path) as f:
                    outs.append(json.load(f))
            n = compare(case, outs[0], outs[1], problems)
            if outs[0].get("exception"):
                failed_cases.append("%s (%s)" % (case, outs[0]["exception"][:60]))
            total_files += n

        probes = []
        for label, tree in (("pristine", pristine), ("changed", changed)):
            out_path = os.path.join(tmp, "probe.%s.json" % label)
            run_worker(tree, ["probe", out_path], workdir)
            with open(out_path) as f:
                probes.append(json.load(f))
        for key in sorted(set(probes[0]) | set(probes[1])):
            if probes[0].get(key) != probes[1].get(key):
                problems.append("probe: %s differs" % key)

        generated = len(cases) - len(failed_cases)
        if generated < 4:
            problems.append("fewer than four cases generated output: %s"
                            % "; ".join(failed_cases))
        if problems:
            print("DIFFERENCES (%d):" % len(problems))
            for p in problems:
                print("  " + p)
            return 1
        print(
            "IDENTICAL: %d API cases (%d generated, %d failing identically), "
            "%d files compared byte for byte, %d probe groups equal; "
            "trees %s"
            % (len(cases), generated, len(failed_cases), total_files,
               len(probes[0]),
               "differ in gapic/ sources" if trees_differ
               else "are IDENTICAL in gapic/ (no uncommitted change?)")
        )
        if failed_cases:
            print("note: cases raising the same exception in both trees: "
                  + "; ".join(failed_cases))
        return 0
    finally:
        shutil.rmtree(tmp, ignore_errors=True)


if __name__ == "__main__":
    sys.exit(main(sys.argv))
