#!/usr/bin/env python
"""Differential check of the W05 refactoring (property C05: flattened keyword
arguments are equivalent to an explicit request object).

Usage:  /venv/bin/python demo.py <checkout-with-the-change>

"base" tree  = pristine export of the checkout's HEAD (git archive | tar -x)
"edit" tree  = the checkout's working tree (HEAD + the uncommitted change)

A handful of API descriptions are assembled as FileDescriptorProtos in pure
Python, written to one JSON file, and handed to one worker subprocess per
tree.  Each worker imports `gapic` from its own tree only, renders every API
(once normally, once with the `fix_whitespace` post-processing disabled so
that blank-line / trailing-blank differences cannot hide) and additionally
dumps what `MessageType.get_field` and `Method._fields_mapping` return or
raise for a battery of paths.  The parent compares everything byte for byte.

Exit 0 + one summary line when identical; exit 1 + list of differences
otherwise.
"""
import dataclasses
import hashlib
import json
import os
import shutil
import subprocess
import sys
import tempfile

# --------------------------------------------------------------------------
# worker
# --------------------------------------------------------------------------


def isolate(tree):
    """Make `tree` the one and only provider of the `gapic` package."""
    tree = os.path.realpath(tree)

    def editable(thing):
        label = "%s %s %s %s" % (
            getattr(thing, "__name__", ""),
            getattr(thing, "__qualname__", ""),
            getattr(thing, "__module__", ""),
            type(thing).__name__,
        )
        return "__editable__" in label or "editable" in label.lower()

    sys.meta_path[:] = [finder for finder in sys.meta_path if not editable(finder)]
    sys.path_hooks[:] = [hook for hook in sys.path_hooks if not editable(hook)]
    kept = []
    for entry in sys.path:
        if "__editable__" in entry:
            continue
        real = os.path.realpath(entry) if entry else os.path.realpath(os.getcwd())
        if real == tree or os.path.isdir(os.path.join(real, "gapic")):
            continue
        kept.append(entry)
    sys.path[:] = [tree] + kept
    sys.path_importer_cache.clear()
    for loaded in [m for m in sys.modules if m == "gapic" or m.startswith("gapic.")]:
        del sys.modules[loaded]
    return tree


def describe_field(field, depth=2):
    """Text that shows a resolved field together with the context bound to it."""
    text = "%s pb=%s ident=%s sphinx=%s rep=%s map=%s prim=%s" % (
        field.name,
        field.field_pb.name,
        field.ident,
        field.ident.sphinx,
        bool(field.repeated),
        field.map,
        field.is_primitive,
    )
    target = field.message or field.enum
    if target is not None:
        text += " coll=%s" % sorted(target.meta.address.collisions)
    if field.message is not None and depth:
        inner = [
            describe_field(child, depth - 1)
            for child in field.message.fields.values()
        ]
        text += " {" + "; ".join(inner) + "}"
    return text


def path_probes(message):
    """Argument tuples for get_field derived from the shape of `message`."""
    probes = [(), ("",), (".",), ("missing",), ("missing", "x"), ("missing.x",)]
    for field in message.fields.values():
        raw = field.field_pb.name
        probes += [(raw,), (field.name,), (raw, "zzz"), (raw + ".zzz",)]
        if not field.message:
            continue
        for child in field.message.fields.values():
            craw = child.field_pb.name
            probes += [(raw, craw), (raw + "." + craw,), (field.name, child.name)]
            if not child.message:
                probes += [(raw, craw, "deeper"), (raw + "." + craw + ".deeper",)]
                continue
            for leaf in child.message.fields.values():
                lraw = leaf.field_pb.name
                probes += [
                    (raw, craw, lraw),
                    (raw + "." + craw + "." + lraw,),
                    (raw, craw + "." + lraw),
                    (raw + "." + craw, lraw),
                ]
    seen, unique = set(), []
    for probe in probes:
        if probe not in seen:
            seen.add(probe)
            unique.append(probe)
    return unique


def schema_dump(api):
    lines = []
    for service in api.services.values():
        for method in service.methods.values():
            lines.append("## %s.%s" % (service.name, method.name))
            for attr in ("flattened_fields", "body_fields", "legacy_flattened_fields"):
                try:
                    mapping = getattr(method, attr)
                    text = "%s %r" % (
                        type(mapping).__name__,
                        [(key, describe_field(f, 1)) for key, f in mapping.items()],
                    )
                except Exception as exc:
                    text = "%s: %s" % (type(exc).__name__, exc)
                lines.append("  %s = %s" % (attr, text))
            lines.append("  flattened_field_to_key = %r" % (
                list(method.flattened_field_to_key.items()),))
            first = next(iter(method.input.fields.values()), None)
            first = first.field_pb.name if first is not None else "none"
            for signatures in (
                [], [""], [","], [" "], [first], [" %s , %s" % (first, first)],
                [first + ",missing"], [first + "." + first], ["%s. %s" % (first, first)],
                [first, "", first + ","],
            ):
                try:
                    mapping = method._fields_mapping(signatures)
                    text = repr([(key, f.name) for key, f in mapping.items()])
                except Exception as exc:
                    text = "%s: %s" % (type(exc).__name__, exc)
                lines.append("  _fields_mapping(%r) = %s" % (signatures, text))
            for probe in path_probes(method.input):
                for collisions in (None, frozenset(), frozenset({"name", "acme", "date"})):
                    try:
                        got = method.input.get_field(*probe, collisions=collisions)
                        text = describe_field(got)
                    except Exception as exc:
                        text = "%s: %s" % (type(exc).__name__, exc)
                    lines.append("  get_field%r collisions=%s -> %s" % (
                        probe, None if collisions is None else sorted(collisions), text))
            # A copy of the request whose own address has no collisions while
            # its sub-messages keep theirs: shows at which level the default
            # collisions are picked up.
            hollow = dataclasses.replace(
                method.input,
                meta=dataclasses.replace(
                    method.input.meta,
                    address=dataclasses.replace(
                        method.input.meta.address, collisions=frozenset()),
                ),
            )
            for probe in path_probes(hollow):
                try:
                    text = describe_field(hollow.get_field(*probe))
                except Exception as exc:
                    text = "%s: %s" % (type(exc).__name__, exc)
                lines.append("  hollow.get_field%r -> %s" % (probe, text))
    return "\n".join(lines) + "\n"


def worker(tree, cases_file, out_file):
    tree = isolate(tree)

    import pypandoc  # type: ignore

    def convert_text(source, to, format=None, extra_args=(), **kwargs):
        # pandoc is not installed; same deterministic stand-in for both trees.
        return "\n".join(line.rstrip() for line in str(source).splitlines())

    pypandoc.convert_text = convert_text

    from google.protobuf import descriptor_pb2

    import gapic
    from gapic.generator import Generator, formatter
    from gapic.schema.api import API
    from gapic.utils import Options

    package_dir = os.path.join(tree, "gapic")
    assert [os.path.realpath(p) for p in gapic.__path__] == [package_dir], list(
        gapic.__path__)

    with open(cases_file) as handle:
        cases = json.load(handle)

    everything = {}
    for case in cases:
        files = [
            descriptor_pb2.FileDescriptorProto.FromString(bytes.fromhex(blob))
            for blob in case["files"]
        ]
        opts = Options.build(case["options"])
        assert opts.templates
        for directory in opts.templates:
            assert os.path.realpath(directory).startswith(package_dir + os.sep), directory
        api = API.build(files, package=case["package"], opts=opts)

        produced = {}
        response = Generator(opts).get_response(api, opts)
        for item in response.file:
            assert item.name not in produced, item.name
            produced[item.name] = item.content

        keep = formatter.fix_whitespace
        formatter.fix_whitespace = lambda code: code
        try:
            raw = Generator(opts).get_response(api, opts)
        finally:
            formatter.fix_whitespace = keep
        for item in raw.file:
            produced["<raw>/" + item.name] = item.content

        produced["<schema>"] = schema_dump(api)
        everything[case["name"]] = produced

    count = 0
    for name, module in sorted(sys.modules.items()):
        if name != "gapic" and not name.startswith("gapic."):
            continue
        count += 1
        origin = getattr(module, "__file__", None)
        places = [origin] if origin else list(module.__path__)
        assert places, name
        for place in places:
            assert os.path.realpath(place).startswith(tree + os.sep), (name, place)
    assert count > 5, count

    with open(out_file, "w") as handle:
        json.dump(everything, handle)


# --------------------------------------------------------------------------
# API descriptions
# --------------------------------------------------------------------------


def build_cases():
    from google.api import annotations_pb2, client_pb2, field_behavior_pb2
    from google.longrunning import operations_pb2
    from google.protobuf import descriptor_pb2 as dpb
    from google.protobuf import (
        duration_pb2, empty_pb2, field_mask_pb2, struct_pb2, timestamp_pb2, wrappers_pb2,
    )

    F = dpb.FieldDescriptorProto
    OPT, REP = F.LABEL_OPTIONAL, F.LABEL_REPEATED

    def with_deps(*modules):
        order, known = [], set()

        def visit(fd):
            if fd.name in known:
                return
            known.add(fd.name)
            for dep in fd.dependencies:
                visit(dep)
            proto = dpb.FileDescriptorProto()
            fd.CopyToProto(proto)
            order.append(proto)

        for module in modules:
            visit(module.DESCRIPTOR)
        return order

    common = with_deps(
        annotations_pb2, client_pb2, field_behavior_pb2, operations_pb2, empty_pb2,
        field_mask_pb2, struct_pb2, duration_pb2, timestamp_pb2, wrappers_pb2)
    common_names = [proto.name for proto in common]

    def fld(name, number, kind=F.TYPE_STRING, type_name=None, label=OPT, oneof=None,
            optional=False, required=False):
        out = F(name=name, number=number, type=kind, label=label)
        if type_name:
            out.type_name = type_name
        if oneof is not None:
            out.oneof_index = oneof
        if optional:
            out.proto3_optional = True
        if required:
            out.options.Extensions[field_behavior_pb2.field_behavior].append(
                field_behavior_pb2.REQUIRED)
        return out

    def msg_fld(name, number, type_name, **kw):
        return fld(name, number, F.TYPE_MESSAGE, type_name, **kw)

    def enum_fld(name, number, type_name, **kw):
        return fld(name, number, F.TYPE_ENUM, type_name, **kw)

    def msg(full_package, name, fields, maps=(), oneofs=()):
        out = dpb.DescriptorProto(name=name)
        out.field.extend(fields)
        for decl in oneofs:
            out.oneof_decl.add(name=decl)
        for map_name, number, value in maps:
            entry_name = "".join(p.capitalize() for p in map_name.split("_")) + "Entry"
            entry = out.nested_type.add(name=entry_name)
            entry.options.map_entry = True
            entry.field.append(fld("key", 1))
            entry.field.append(value)
            out.field.append(msg_fld(
                map_name, number, ".%s.%s.%s" % (full_package, name, entry_name), label=REP))
        return out

    def enum(name, *values):
        out = dpb.EnumDescriptorProto(name=name)
        for index, value in enumerate(values):
            out.value.add(name=value, number=index)
        return out

    def rpc(name, req, resp, sigs=(), http=None, cs=False, ss=False, lro=None,
            deprecated=False):
        out = dpb.MethodDescriptorProto(
            name=name, input_type=req, output_type=resp,
            client_streaming=cs, server_streaming=ss)
        out.options.Extensions[client_pb2.method_signature].extend(sigs)
        if http:
            verb, uri, body = http
            rule = out.options.Extensions[annotations_pb2.http]
            setattr(rule, verb, uri)
            if body:
                rule.body = body
        if lro:
            info = out.options.Extensions[operations_pb2.operation_info]
            info.response_type, info.metadata_type = lro
        if deprecated:
            out.options.deprecated = True
        return out

    def svc(name, host, rpcs):
        out = dpb.ServiceDescriptorProto(name=name)
        out.options.Extensions[client_pb2.default_host] = host
        out.options.Extensions[client_pb2.oauth_scopes] = (
            "https://www.googleapis.com/auth/cloud-platform")
        out.method.extend(rpcs)
        return out

    def proto(path, package, deps, messages=(), enums=(), services=()):
        out = dpb.FileDescriptorProto(name=path, package=package, syntax="proto3")
        out.dependency.extend(deps)
        out.message_type.extend(messages)
        out.enum_type.extend(enums)
        out.service.extend(services)
        locations = out.source_code_info.location
        for mi, message in enumerate(out.message_type):
            locations.add(path=[4, mi], span=[0, 0, 0],
                          leading_comments=" The %s message.\n" % message.name)
            for fi, field in enumerate(message.field):
                note = (" Sets ``%s``; see `%s`.\n Second line.\n" if fi % 3 == 0
                        else " Plain words about %s of %s.\n") % (field.name, message.name)
                locations.add(path=[4, mi, 2, fi], span=[0, 0, 0], leading_comments=note)
        for si, service in enumerate(out.service):
            locations.add(path=[6, si], span=[0, 0, 0],
                          leading_comments=" Service %s.\n" % service.name)
            for ri, method in enumerate(service.method):
                locations.add(path=[6, si, 2, ri], span=[0, 0, 0],
                              leading_comments=" Calls %s.\n" % method.name)
        return out

    def hexed(protos):
        return [p.SerializeToString(deterministic=True).hex() for p in protos]

    EMPTY, OP = ".google.protobuf.Empty", ".google.longrunning.Operation"
    VALUE = ".google.protobuf.Value"
    cases = []

    # ---------------------------------------------------------------- 1 ----
    # "library": every request lives in the API's package (proto-plus).  All
    # field kinds, incl. google.protobuf.Value (repeated and singular), maps,
    # oneofs, enums, reserved words at several depths, dotted paths.
    P = "acme.library.v1"
    D = "." + P
    library_messages = [
        msg(P, "Shelf", [fld("name", 1), fld("theme", 2), fld("class", 3),
                         msg_fld("keeper", 4, D + ".Person"),
                         fld("codes", 5, label=REP)],
            maps=[("capacity", 6, fld("value", 2, F.TYPE_INT32))]),
        msg(P, "Person", [fld("display_name", 1), fld("from", 2),
                          msg_fld("address", 3, D + ".Address"),
                          msg_fld("previous", 4, D + ".Address", label=REP),
                          msg_fld("extra", 5, VALUE),
                          msg_fld("extras", 6, VALUE, label=REP)]),
        msg(P, "Address", [fld("city", 1), fld("lambda", 2), fld("lines", 3, label=REP),
                           enum_fld("kind", 4, D + ".Kind")]),
        msg(P, "Book", [fld("name", 1), fld("title", 2), msg_fld("author", 3, D + ".Person"),
                        fld("pages", 4, F.TYPE_INT32)]),
        msg(P, "Meta", [fld("step", 1, F.TYPE_INT32)]),
        msg(P, "GetShelfRequest", [fld("name", 1, required=True)]),
        msg(P, "CreateShelfRequest", [fld("parent", 1, required=True),
                                      msg_fld("shelf", 2, D + ".Shelf", required=True),
                                      fld("shelf_id", 3), fld("dry_run", 4, F.TYPE_BOOL)]),
        msg(P, "UpdateShelfRequest", [msg_fld("shelf", 1, D + ".Shelf"),
                                      msg_fld("update_mask", 2, ".google.protobuf.FieldMask")]),
        msg(P, "DeleteShelfRequest", [fld("name", 1), fld("force", 2, F.TYPE_BOOL)]),
        msg(P, "ListShelvesRequest", [fld("parent", 1), fld("page_size", 2, F.TYPE_INT32),
                                      fld("page_token", 3), fld("filter", 4)]),
        msg(P, "ListShelvesResponse", [msg_fld("shelves", 1, D + ".Shelf", label=REP),
                                       fld("next_page_token", 2)]),
        msg(P, "ReservedRequest", [
            fld("class", 1), fld("import", 2, label=REP), fld("from", 3, F.TYPE_INT64),
            fld("request", 4), fld("timeout", 5, F.TYPE_DOUBLE), fld("retry", 6),
            fld("metadata", 7), fld("self", 8), fld("type", 9), fld("not", 10, F.TYPE_BOOL),
            msg_fld("keeper", 11, D + ".Person"), msg_fld("global", 12, D + ".Address"),
        ], maps=[("except", 13, fld("value", 2))]),
        msg(P, "KitchenSinkRequest", [
            msg_fld("value", 1, VALUE), msg_fld("values", 2, VALUE, label=REP),
            msg_fld("list_value", 3, ".google.protobuf.ListValue"),
            msg_fld("struct", 4, ".google.protobuf.Struct"),
            msg_fld("structs", 5, ".google.protobuf.Struct", label=REP),
            fld("names", 6, label=REP), fld("numbers", 7, F.TYPE_UINT32, label=REP),
            msg_fld("books", 8, D + ".Book", label=REP),
            enum_fld("kind", 9, D + ".Kind"), enum_fld("kinds", 10, D + ".Kind", label=REP),
            fld("by_title", 11, oneof=0), fld("by_pages", 12, F.TYPE_INT32, oneof=0),
            msg_fld("by_book", 13, D + ".Book", oneof=0),
            fld("nickname", 14, oneof=1, optional=True),
            fld("blob", 15, F.TYPE_BYTES), fld("ratio", 16, F.TYPE_FLOAT),
            msg_fld("ttl", 17, ".google.protobuf.Duration"),
            msg_fld("at", 18, ".google.protobuf.Timestamp"),
            msg_fld("ats", 19, ".google.protobuf.Timestamp", label=REP),
            msg_fld("maybe", 20, ".google.protobuf.BoolValue"),
            msg_fld("person", 21, D + ".Person"),
        ], oneofs=("selector", "_nickname"), maps=[
            ("labels", 30, fld("value", 2)),
            ("books_by_isbn", 31, msg_fld("value", 2, D + ".Book")),
            ("values_by_key", 32, msg_fld("value", 2, VALUE)),
            ("kinds_by_key", 33, enum_fld("value", 2, D + ".Kind")),
        ]),
        msg(P, "SinkResponse", [fld("checksum", 1)]),
        msg(P, "NoteRequest", [fld("name", 1), fld("note", 2)]),
    ]
    library_rpcs = [
        rpc("GetShelf", D + ".GetShelfRequest", D + ".Shelf", ["name"],
            ("get", "/v1/{name=shelves/*}", None)),
        rpc("CreateShelf", D + ".CreateShelfRequest", D + ".Shelf",
            ["parent,shelf,shelf_id", "parent,shelf", "dry_run"],
            ("post", "/v1/{parent=rooms/*}/shelves", "shelf")),
        rpc("UpdateShelf", D + ".UpdateShelfRequest", D + ".Shelf",
            ["shelf,update_mask",
             "shelf.name , shelf.class,shelf.codes,shelf.capacity,shelf.keeper.from,"
             "shelf.keeper.address.lambda,shelf.keeper.address.lines,"
             "shelf.keeper.address.kind,shelf.keeper.previous,shelf.keeper.extras,"
             "shelf.keeper.extra"],
            ("patch", "/v1/{shelf.name=shelves/*}", "shelf")),
        rpc("DeleteShelf", D + ".DeleteShelfRequest", EMPTY, ["name", "name,force"],
            ("delete", "/v1/{name=shelves/*}", None)),
        rpc("ListShelves", D + ".ListShelvesRequest", D + ".ListShelvesResponse",
            ["parent", "parent,filter"], ("get", "/v1/{parent=rooms/*}/shelves", None)),
        rpc("Reserved", D + ".ReservedRequest", D + ".Shelf",
            ["class,import,from,request,timeout,retry,metadata,self,type,not,except",
             "keeper.from,global.lambda,global.lines,keeper.address.lambda"],
            ("post", "/v1/reserved", "*")),
        rpc("KitchenSink", D + ".KitchenSinkRequest", D + ".SinkResponse",
            ["value,values,list_value,struct,structs,names,numbers,books,kind,kinds",
             "by_title,by_pages,by_book,nickname", "blob,ratio,ttl,at,ats,maybe",
             "labels,books_by_isbn,values_by_key,kinds_by_key",
             "person.extras,person.extra,person.previous"],
            ("post", "/v1/sink", "*")),
        rpc("NoSignature", D + ".NoteRequest", D + ".Book", [], ("post", "/v1/nosig", "*")),
        rpc("EmptySignature", D + ".NoteRequest", D + ".Book", [""],
            ("post", "/v1/emptysig", "*")),
        rpc("OddSignatures", D + ".NoteRequest", D + ".Book",
            ["", "note", "note,,name", " name ,"], ("post", "/v1/odd", "note")),
        rpc("WatchShelves", D + ".ListShelvesRequest", D + ".Shelf", ["parent,filter"],
            ("get", "/v1/{parent=rooms/*}/shelves:watch", None), ss=True),
        rpc("StreamShelves", D + ".CreateShelfRequest", D + ".Shelf", ["parent"], cs=True),
        rpc("ChatShelves", D + ".CreateShelfRequest", D + ".Shelf", ["parent,shelf"],
            cs=True, ss=True),
        rpc("MoveShelf", D + ".CreateShelfRequest", OP, ["parent,shelf_id,shelf.name"],
            ("post", "/v1/{parent=rooms/*}/shelves:move", "*"), lro=("Shelf", "Meta")),
        rpc("WipeShelves", D + ".DeleteShelfRequest", OP, ["name"],
            ("post", "/v1/{name=rooms/*}:wipe", "*"),
            lro=("google.protobuf.Empty", "Meta")),
        rpc("OldGetShelf", D + ".GetShelfRequest", D + ".Shelf", ["name"],
            ("get", "/v1/{name=old/*}", None), deprecated=True),
        rpc("Ping", EMPTY, EMPTY, [], ("post", "/v1/ping", "*")),
    ]
    library = proto("acme/library/v1/library.proto", P, common_names, library_messages,
                    [enum("Kind", "KIND_UNSPECIFIED", "HOME", "WORK")],
                    [svc("Library", "library.acme.example", library_rpcs)])
    library_blobs = hexed(common + [library])
    cases.append(dict(name="library/default", package=P, files=library_blobs, options=""))
    cases.append(dict(name="library/grpc+rest,numeric", package=P, files=library_blobs,
                      options="transport=grpc+rest,rest-numeric-enums"))

    # ---------------------------------------------------------------- 2 ----
    # "portal": requests defined in a dependency package (plain protobuf
    # messages unless proto-plus-deps says otherwise), next to local requests.
    KP, AP = "acme.kit", "acme.portal.v3"
    KD, AD = "." + KP, "." + AP
    kit = proto("acme/kit/kit.proto", KP, common_names, [
        msg(KP, "Window", [fld("start", 1), fld("end", 2), fld("class", 3)]),
        msg(KP, "QueryRequest", [
            fld("text", 1), fld("tokens", 2, label=REP), fld("limit", 3, F.TYPE_INT32),
            msg_fld("window", 4, KD + ".Window"), enum_fld("level", 5, KD + ".Level"),
            fld("buckets", 6, F.TYPE_INT64, label=REP), fld("strict", 7, F.TYPE_BOOL),
            msg_fld("windows", 8, KD + ".Window", label=REP),
            enum_fld("levels", 9, KD + ".Level", label=REP),
            fld("opaque", 10, F.TYPE_BYTES), fld("class", 11), fld("import", 12, label=REP),
            msg_fld("values", 13, VALUE, label=REP), msg_fld("value", 14, VALUE),
        ], maps=[("hints", 20, fld("value", 2)),
                 ("windows_by_id", 21, msg_fld("value", 2, KD + ".Window"))]),
        msg(KP, "QueryResponse", [fld("answer", 1)]),
        msg(KP, "TokensRequest", [fld("tokens", 1, label=REP)]),
        msg(KP, "WindowRequest", [msg_fld("window", 1, KD + ".Window")]),
    ], [enum("Level", "LEVEL_UNSPECIFIED", "LOW", "HIGH")])
    portal = proto(
        "acme/portal/v3/portal.proto", AP, common_names + ["acme/kit/kit.proto"],
        [msg(AP, "LocalRequest", [fld("name", 1), fld("aliases", 2, label=REP),
                                  msg_fld("window", 3, KD + ".Window")],
             maps=[("tags", 4, fld("value", 2))]),
         msg(AP, "LocalResponse", [fld("answer", 1)])],
        [],
        [svc("Portal", "portal.acme.example", [
            rpc("Query", KD + ".QueryRequest", KD + ".QueryResponse",
                ["text,tokens,limit,window,level,buckets,strict,windows,levels,opaque,"
                 "class,import,values,value,hints,windows_by_id",
                 "text", "window.start,window.class"],
                ("post", "/v3/query", "*")),
            rpc("QueryTokens", KD + ".TokensRequest", KD + ".QueryResponse", ["tokens"],
                ("post", "/v3/tokens", "*")),
            rpc("QueryWindow", KD + ".WindowRequest", KD + ".QueryResponse", ["window"],
                ("post", "/v3/window", "*")),
            rpc("QueryBare", KD + ".QueryRequest", KD + ".QueryResponse", [],
                ("post", "/v3/bare", "*")),
            rpc("QueryStream", KD + ".QueryRequest", KD + ".QueryResponse",
                ["text,tokens,hints"], ("post", "/v3/stream", "*"), ss=True),
            rpc("QueryVoid", KD + ".QueryRequest", EMPTY, ["tokens,strict,text"],
                ("post", "/v3/void", "*")),
            rpc("QueryUpload", KD + ".QueryRequest", KD + ".QueryResponse", ["text"],
                cs=True),
            rpc("Local", AD + ".LocalRequest", AD + ".LocalResponse",
                ["name,aliases,tags,window", "window.end,window.class"],
                ("post", "/v3/local", "*")),
            rpc("Nothing", EMPTY, EMPTY, [], ("post", "/v3/nothing", "*")),
            rpc("QueryLong", KD + ".QueryRequest", OP, ["text,limit,buckets"],
                ("post", "/v3/long", "*"),
                lro=("acme.kit.QueryResponse", "acme.kit.Window")),
        ])])
    portal_blobs = hexed(common + [kit, portal])
    cases.append(dict(name="portal/grpc", package=AP, files=portal_blobs,
                      options="transport=grpc"))
    cases.append(dict(name="portal/rest,no-snippets", package=AP, files=portal_blobs,
                      options="transport=rest,autogen-snippets=false"))
    cases.append(dict(name="portal/proto-plus-deps", package=AP, files=portal_blobs,
                      options="transport=grpc+rest,proto-plus-deps=acme.kit"))

    # ---------------------------------------------------------------- 3 ----
    # "depot": two services in the main package and one in a sub-package
    # whose methods take requests from the parent package; paging.
    P = "acme.depot.v2"
    D = "." + P
    depot = proto("acme/depot/v2/depot.proto", P, common_names, [
        msg(P, "Crate", [fld("name", 1), fld("handlers", 2, label=REP),
                         msg_fld("payload", 3, VALUE), msg_fld("payloads", 4, VALUE, label=REP)],
            maps=[("marks", 5, fld("value", 2))]),
        msg(P, "StoreCrateRequest", [fld("parent", 1), msg_fld("crate", 2, D + ".Crate"),
                                     fld("watchers", 3, label=REP),
                                     enum_fld("mode", 4, D + ".Mode")],
            maps=[("notes", 5, fld("value", 2))]),
        msg(P, "ListCratesRequest", [fld("parent", 1), fld("page_size", 2, F.TYPE_INT32),
                                     fld("page_token", 3)]),
        msg(P, "ListCratesResponse", [msg_fld("crates", 1, D + ".Crate", label=REP),
                                      fld("next_page_token", 2)]),
    ], [enum("Mode", "MODE_UNSPECIFIED", "COLD", "WARM")], [
        svc("Depot", "depot.acme.example", [
            rpc("StoreCrate", D + ".StoreCrateRequest", D + ".Crate",
                ["parent,crate,watchers,mode,notes",
                 "crate.name,crate.handlers,crate.marks,crate.payload,crate.payloads"],
                ("post", "/v2/{parent=sites/*}/crates", "crate")),
            rpc("ListCrates", D + ".ListCratesRequest", D + ".ListCratesResponse",
                ["parent"], ("get", "/v2/{parent=sites/*}/crates", None)),
        ]),
        svc("Dock", "dock.acme.example", [
            rpc("Unload", D + ".StoreCrateRequest", EMPTY, ["parent"],
                ("post", "/v2/unload", "*")),
            rpc("Inspect", D + ".ListCratesRequest", D + ".Crate", [],
                ("post", "/v2/inspect", "*")),
        ]),
    ])
    SP = P + ".audit"
    audit = proto(
        "acme/depot/v2/audit/audit.proto", SP, common_names + ["acme/depot/v2/depot.proto"],
        [msg(SP, "CheckRequest", [fld("name", 1), fld("lanes", 2, label=REP),
                                  msg_fld("crate", 3, D + ".Crate")]),
         msg(SP, "CheckResponse", [fld("ok", 1, F.TYPE_BOOL)])],
        [],
        [svc("Audit", "audit.acme.example", [
            rpc("StoreViaAudit", D + ".StoreCrateRequest", "." + SP + ".CheckResponse",
                ["parent,crate,watchers,mode,notes"], ("post", "/v2/a/store", "*")),
            rpc("Check", "." + SP + ".CheckRequest", "." + SP + ".CheckResponse",
                ["name,lanes,crate", "crate.name,crate.payloads"],
                ("post", "/v2/a/check", "*")),
            rpc("Trail", D + ".ListCratesRequest", D + ".Crate", ["parent,page_size"],
                ("post", "/v2/a/trail", "*"), ss=True),
        ])])
    depot_blobs = hexed(common + [depot, audit])
    # (sample generation does not support services in sub-packages, at HEAD
    # either, hence autogen-snippets=false here)
    cases.append(dict(name="depot/rest,numeric", package=P, files=depot_blobs,
                      options="transport=rest,rest-numeric-enums,autogen-snippets=false"))
    cases.append(dict(name="depot/grpc", package=P, files=depot_blobs,
                      options="transport=grpc,autogen-snippets=false"))

    # ---------------------------------------------------------------- 4 ----
    # "relay": no method_signature / http annotations anywhere; the four
    # streaming kinds and a void method.
    P = "acme.relay.v1beta1"
    D = "." + P
    relay = proto("acme/relay/v1beta1/relay.proto", P, common_names,
                  [msg(P, "Frame", [fld("data", 1)]), msg(P, "Ack", [fld("data", 1)])], [],
                  [svc("Relay", "relay.acme.example", [
                      rpc("Send", D + ".Frame", D + ".Ack"),
                      rpc("Drop", D + ".Frame", EMPTY),
                      rpc("Gather", D + ".Frame", D + ".Ack", cs=True),
                      rpc("Spread", D + ".Frame", D + ".Ack", ss=True),
                      rpc("Duplex", D + ".Frame", D + ".Ack", cs=True, ss=True),
                  ])])
    cases.append(dict(name="relay/default", package=P, files=hexed(common + [relay]),
                      options=""))
    return cases


# --------------------------------------------------------------------------
# driver
# --------------------------------------------------------------------------


def main(argv):
    if len(argv) == 5 and argv[1] == "--worker":
        worker(argv[2], argv[3], argv[4])
        return 0
    if len(argv) != 2:
        sys.stderr.write(__doc__)
        return 2

    checkout = os.path.realpath(argv[1])
    scratch = tempfile.mkdtemp(prefix="twin-demo-W05-")
    try:
        base = os.path.join(scratch, "base")
        os.mkdir(base)
        producer = subprocess.Popen(["git", "-C", checkout, "archive", "HEAD"],
                                    stdout=subprocess.PIPE)
        subprocess.check_call(["tar", "-x", "-C", base], stdin=producer.stdout)
        producer.stdout.close()
        if producer.wait() != 0:
            print("FAIL: git archive HEAD did not succeed")
            return 1

        cases = build_cases()
        cases_file = os.path.join(scratch, "cases.json")
        with open(cases_file, "w") as handle:
            json.dump(cases, handle)

        env = dict((k, v) for k, v in os.environ.items() if k != "PYTHONPATH")
        env.update(PYTHONDONTWRITEBYTECODE="1", PYTHONHASHSEED="0")
        jobs = []
        for label, tree in (("base", base), ("edit", checkout)):
            out_file = os.path.join(scratch, label + ".json")
            jobs.append((label, out_file, subprocess.Popen(
                [sys.executable, os.path.abspath(__file__), "--worker", tree, cases_file,
                 out_file], cwd=scratch, env=env)))
        results = {}
        for label, out_file, job in jobs:
            if job.wait() != 0:
                print("FAIL: worker for the %s tree exited with %d" % (label, job.returncode))
                return 1
            with open(out_file) as handle:
                results[label] = json.load(handle)

        differences, total, digest = [], 0, hashlib.sha256()
        for case in cases:
            old, new = results["base"][case["name"]], results["edit"][case["name"]]
            if len(old) < 12:
                differences.append("%s: only %d outputs?" % (case["name"], len(old)))
            for name in sorted(set(old) | set(new)):
                total += 1
                if name not in old:
                    differences.append("%s: %s only in edited tree" % (case["name"], name))
                elif name not in new:
                    differences.append("%s: %s only in base tree" % (case["name"], name))
                elif old[name] != new[name]:
                    differences.append("%s: %s differs" % (case["name"], name))
                else:
                    digest.update(name.encode())
                    digest.update(old[name].encode())
        if differences:
            print("FAIL: %d difference(s) in %d compared outputs" % (len(differences), total))
            for line in differences:
                print("  " + line)
            return 1
        print("OK: %d API runs, %d outputs (files, raw renderings, schema dumps) identical "
              "between HEAD and working tree; sha256 %s"
              % (len(cases), total, digest.hexdigest()[:16]))
        return 0
    finally:
        shutil.rmtree(scratch, ignore_errors=True)


if __name__ == "__main__":
    sys.exit(main(sys.argv))
