#!/usr/bin/env python
"""Differential demo for the V06 refactoring (property C06, routing headers).

Usage:  /venv/bin/python demo.py <path-to-a-checkout-with-the-change>

* exports the checkout's HEAD (`git archive HEAD | tar -x`) to a temp dir -> BASE tree
* uses the checkout's working tree (with the uncommitted change)         -> TEST tree
* builds several API descriptions in Python (no protoc), runs the generator on
  each of them with both trees (one subprocess per tree, so that the two copies
  of the `gapic` package never mix) and compares every output file byte for
  byte (names and contents).
* repeats every case with the generator's whitespace post-processing
  (`formatter.fix_whitespace`) disabled, so the raw template output is compared too
* additionally runs a table of (field, path_template, request) probes through
  RoutingParameter.to_regex()/key and RoutingRule.resolve() in both trees and
  compares the results (values or exception type + message).

Exit code 0 and a one-line summary if everything is identical, 1 otherwise.
"""
import os
import pickle
import shutil
import subprocess
import sys
import tempfile

# --------------------------------------------------------------------------- #
# Worker: runs inside a subprocess, for ONE tree.
# --------------------------------------------------------------------------- #


def _isolate(tree):
    """Make `tree` the first and only provider of the `gapic` package."""
    import importlib

    tree = os.path.realpath(tree)

    def _is_editable(obj):
        text = " ".join(
            str(getattr(obj, attr, "") or "")
            for attr in ("__module__", "__name__", "__qualname__")
        ) + " " + type(obj).__name__ + " " + type(obj).__module__
        return "editable" in text.lower()

    # The venv has an editable install of another checkout: drop its finders.
    sys.meta_path[:] = [f for f in sys.meta_path if not _is_editable(f)]
    sys.path_hooks[:] = [h for h in sys.path_hooks if not _is_editable(h)]
    kept = []
    for entry in sys.path:
        if "__editable__" in entry:
            continue
        real = os.path.realpath(entry or os.getcwd())
        if real == tree:
            continue
        if os.path.isdir(os.path.join(real, "gapic")):
            continue  # some other provider of `gapic`
        kept.append(entry)
    sys.path[:] = [tree] + kept
    sys.path_importer_cache.clear()
    importlib.invalidate_caches()
    for name in list(sys.modules):
        if name == "gapic" or name.startswith("gapic."):
            del sys.modules[name]
    return tree


def _check_isolation(tree, template_dirs):
    prefix = tree + os.sep
    seen = 0
    for name, mod in list(sys.modules.items()):
        if not (name == "gapic" or name.startswith("gapic.")):
            continue
        seen += 1
        locations = []
        if getattr(mod, "__file__", None):
            locations.append(mod.__file__)
        locations.extend(list(getattr(mod, "__path__", []) or []))
        assert locations, f"module {name} has no location"
        for loc in locations:
            assert os.path.realpath(loc).startswith(prefix), (
                f"module {name} loaded from {loc}, not from {tree}"
            )
    assert seen > 10, "gapic modules were not loaded?"
    assert template_dirs, "no template directory"
    for tdir in template_dirs:
        assert os.path.realpath(tdir).startswith(prefix), (
            f"template dir {tdir} is not in {tree}"
        )


def _outcome(fn):
    try:
        return ("ok", fn())
    except AssertionError as exc:  # asserts inside the code under test
        return ("raised", "AssertionError", str(exc))
    except Exception as exc:
        return ("raised", type(exc).__name__, str(exc))


def _run_probes(probes):
    """Direct differential test of the refactored Python functions."""
    from gapic.schema import wrappers

    out = []
    for rule_spec, requests in probes:
        params = [wrappers.RoutingParameter(f, t) for f, t in rule_spec]
        rule = wrappers.RoutingRule(params)
        entry = {
            "regex": [
                _outcome(lambda p=p: p.to_regex().pattern) for p in params
            ],
            "key": [_outcome(lambda p=p: p.key) for p in params],
            "resolve": [
                _outcome(lambda r=r: sorted(wrappers.RoutingRule.resolve(rule, r).items()))
                for r in requests
            ],
        }
        out.append(entry)
    return out


def worker(tree, cases_path, out_path):
    tree = _isolate(tree)

    # pandoc is not installed: stub the conversion identically for both runs.
    import pypandoc

    def _convert_text(text, to, format=None, extra_args=(), **kw):
        return f"{text}"

    pypandoc.convert_text = _convert_text

    from google.protobuf import descriptor_pb2
    from gapic.schema import api as gapic_api
    from gapic.generator import generator as gapic_generator
    from gapic.utils import Options

    with open(cases_path, "rb") as f:
        payload = pickle.load(f)

    from gapic.generator import formatter as gapic_formatter

    real_fix_whitespace = gapic_formatter.fix_whitespace

    results = {}
    for case in payload["cases"]:
        fdps = [descriptor_pb2.FileDescriptorProto.FromString(b) for b in case["files"]]
        # "raw" cases bypass the blank-line normalisation of the generator, so
        # that the templates' own whitespace is compared as well.
        gapic_formatter.fix_whitespace = (
            (lambda code: code) if case.get("raw") else real_fix_whitespace
        )
        try:
            opts = Options.build(case["opts"])
            api_schema = gapic_api.API.build(fdps, package=case["package"], opts=opts)
            generator = gapic_generator.Generator(opts)
            res = generator.get_response(api_schema, opts)
            files = {}
            for out_file in res.file:
                assert out_file.name not in files, out_file.name
                files[out_file.name] = out_file.content
            results[case["name"]] = {"files": files}
            _check_isolation(
                tree, list(opts.templates) + list(generator._env.loader.searchpath)
            )
        except AssertionError:
            raise
        except Exception as exc:  # expected for the "broken annotation" cases
            if not case.get("may_fail"):
                raise
            results[case["name"]] = {
                "error": (type(exc).__name__, str(exc).replace(tree, "<TREE>"))
            }
    results["__probes__"] = _run_probes(payload["probes"])
    with open(out_path, "wb") as f:
        pickle.dump(results, f)


# --------------------------------------------------------------------------- #
# API descriptions
# --------------------------------------------------------------------------- #


def _deps():
    """Descriptors of the well-known dependencies, in dependency order."""
    from google.protobuf import descriptor_pb2
    from google.api import annotations_pb2, client_pb2, field_behavior_pb2  # noqa
    from google.api import resource_pb2, routing_pb2, field_info_pb2  # noqa
    from google.longrunning import operations_pb2
    from google.protobuf import empty_pb2, field_mask_pb2, timestamp_pb2  # noqa

    ordered, seen = [], set()

    def visit(fd):
        if fd.name in seen:
            return
        seen.add(fd.name)
        for dep in fd.dependencies:
            visit(dep)
        fdp = descriptor_pb2.FileDescriptorProto()
        fd.CopyToProto(fdp)
        ordered.append(fdp)

    for mod in (
        annotations_pb2,
        client_pb2,
        field_behavior_pb2,
        field_info_pb2,
        resource_pb2,
        routing_pb2,
        operations_pb2,
        empty_pb2,
        field_mask_pb2,
        timestamp_pb2,
    ):
        visit(mod.DESCRIPTOR)
    return ordered


def _field(name, number, type_, label=None, type_name=None, uuid4=False, **kw):
    from google.protobuf import descriptor_pb2 as d
    from google.api import field_info_pb2

    F = d.FieldDescriptorProto
    fld = F(
        name=name,
        number=number,
        type=getattr(F, "TYPE_" + type_.upper()),
        label=label or F.LABEL_OPTIONAL,
        **kw,
    )
    if type_name:
        fld.type_name = type_name
    if uuid4:
        fld.options.Extensions[field_info_pb2.field_info].format = (
            field_info_pb2.FieldInfo.Format.UUID4
        )
    return fld


def _method(
    name,
    inp,
    out,
    *,
    http=None,
    routing=None,
    signatures=(),
    client_streaming=False,
    server_streaming=False,
    lro=None,
    deprecated=False,
):
    """http: dict(verb=..., path=..., body=..., additional=[dict,...]) or None
    routing: list of (field, path_template) or None."""
    from google.protobuf import descriptor_pb2 as d
    from google.api import annotations_pb2, client_pb2, routing_pb2
    from google.longrunning import operations_pb2

    m = d.MethodDescriptorProto(
        name=name,
        input_type=inp,
        output_type=out,
        client_streaming=client_streaming,
        server_streaming=server_streaming,
    )
    if deprecated:
        m.options.deprecated = True
    if http is not None:
        rule = m.options.Extensions[annotations_pb2.http]

        def fill(r, spec):
            verb = spec["verb"]
            if verb == "custom":
                r.custom.kind = spec.get("kind", "fetch")
                r.custom.path = spec["path"]
            else:
                setattr(r, verb, spec["path"])
            if spec.get("body"):
                r.body = spec["body"]

        fill(rule, http)
        for extra in http.get("additional", ()):
            fill(rule.additional_bindings.add(), extra)
    if routing is not None:
        rr = m.options.Extensions[routing_pb2.routing]
        rr.SetInParent()
        for fld, tmpl in routing:
            rr.routing_parameters.add(field=fld, path_template=tmpl)
    for sig in signatures:
        m.options.Extensions[client_pb2.method_signature].append(sig)
    if lro:
        info = m.options.Extensions[operations_pb2.operation_info]
        info.response_type, info.metadata_type = lro
    return m


def _service(name, host, methods, api_version=None, deprecated=False):
    from google.protobuf import descriptor_pb2 as d
    from google.api import client_pb2

    s = d.ServiceDescriptorProto(name=name)
    s.method.extend(methods)
    s.options.Extensions[client_pb2.default_host] = host
    s.options.Extensions[client_pb2.oauth_scopes] = (
        "https://www.googleapis.com/auth/cloud-platform"
    )
    if api_version:
        s.options.Extensions[client_pb2.api_version] = api_version
    if deprecated:
        s.options.deprecated = True
    return s


def _common_messages(pkg):
    """Messages shared by the demo APIs (package `pkg`)."""
    from google.protobuf import descriptor_pb2 as d

    F = d.FieldDescriptorProto
    book = d.DescriptorProto(name="Book")
    book.field.extend(
        [
            _field("name", 1, "string"),
            _field("class", 2, "string"),
            _field("from", 3, "string"),
            _field("shelf", 4, "message", type_name=f".{pkg}.Shelf"),
        ]
    )
    shelf = d.DescriptorProto(name="Shelf")
    shelf.field.extend([_field("name", 1, "string"), _field("in", 2, "string")])

    req = d.DescriptorProto(name="RouteRequest")
    req.field.extend(
        [
            _field("name", 1, "string"),
            _field("parent", 2, "string"),
            _field("class", 3, "string"),
            _field("from", 4, "string"),
            _field("book", 5, "message", type_name=f".{pkg}.Book"),
            _field("table_name", 6, "string"),
            _field("app_profile_id", 7, "string"),
            _field("tags", 8, "string", label=F.LABEL_REPEATED),
            _field(
                "labels",
                9,
                "message",
                label=F.LABEL_REPEATED,
                type_name=f".{pkg}.RouteRequest.LabelsEntry",
            ),
            _field("by_id", 10, "int64", oneof_index=0),
            _field("by_alias", 11, "string", oneof_index=0),
            _field("kind", 12, "enum", type_name=f".{pkg}.Kind"),
            # AIP-4235 auto-populated fields (one plain, one proto3 optional)
            _field("request_id", 13, "string", uuid4=True),
            _field(
                "opt_request_id",
                14,
                "string",
                uuid4=True,
                proto3_optional=True,
                oneof_index=1,
            ),
        ]
    )
    req.oneof_decl.add(name="selector")
    req.oneof_decl.add(name="_opt_request_id")
    entry = req.nested_type.add(name="LabelsEntry")
    entry.options.map_entry = True
    entry.field.extend([_field("key", 1, "string"), _field("value", 2, "string")])

    resp = d.DescriptorProto(name="RouteResponse")
    resp.field.extend([_field("name", 1, "string"), _field("value", 2, "string")])

    list_req = d.DescriptorProto(name="ListBooksRequest")
    list_req.field.extend(
        [
            _field("parent", 1, "string"),
            _field("page_size", 2, "int32"),
            _field("page_token", 3, "string"),
            _field("filter", 4, "string"),
        ]
    )
    list_resp = d.DescriptorProto(name="ListBooksResponse")
    list_resp.field.extend(
        [
            _field(
                "books", 1, "message", label=F.LABEL_REPEATED, type_name=f".{pkg}.Book"
            ),
            _field("next_page_token", 2, "string"),
        ]
    )
    meta = d.DescriptorProto(name="OperationMetadata")
    meta.field.extend([_field("progress", 1, "int32")])

    kind = d.EnumDescriptorProto(name="Kind")
    kind.value.add(name="KIND_UNSPECIFIED", number=0)
    kind.value.add(name="HARDCOVER", number=1)
    return [book, shelf, req, resp, list_req, list_resp, meta], [kind]


_DEP_NAMES = [
    "google/api/annotations.proto",
    "google/api/client.proto",
    "google/api/field_info.proto",
    "google/api/routing.proto",
    "google/longrunning/operations.proto",
    "google/protobuf/empty.proto",
]


def _file(name, pkg, services, with_messages=True, extra_deps=()):
    from google.protobuf import descriptor_pb2 as d

    f = d.FileDescriptorProto(name=name, package=pkg, syntax="proto3")
    f.dependency.extend(_DEP_NAMES)
    f.dependency.extend(extra_deps)
    if with_messages:
        msgs, enums = _common_messages(pkg)
        f.message_type.extend(msgs)
        f.enum_type.extend(enums)
    f.service.extend(services)
    return f


_SERVICE_YAML = """\
type: google.api.Service
config_version: 3
name: routing.googleapis.com
title: Routing API
publishing:
  method_settings:
  - selector: google.routing.v1.RoutingService.NoTemplate
    auto_populated_fields:
    - request_id
  - selector: google.routing.v1.RoutingService.SharedKey
    auto_populated_fields:
    - request_id
    - opt_request_id
  - selector: google.routing.v1.RoutingService.RoutedVoid
    auto_populated_fields:
    - opt_request_id
  - selector: google.routing.v1.RoutingService.PlainImplicit
    auto_populated_fields:
    - request_id
"""


def build_cases(yaml_path):
    deps = _deps()
    dep_bytes = [d.SerializeToString() for d in deps]
    OP = ".google.longrunning.Operation"
    EMPTY = ".google.protobuf.Empty"
    cases = []

    # ---- 1. explicit routing, all shapes; api version + auto-populated ----- #
    pkg = "google.routing.v1"
    R, S = f".{pkg}.RouteRequest", f".{pkg}.RouteResponse"
    methods = [
        _method("NoTemplate", R, S, routing=[("app_profile_id", "")],
                http=dict(verb="get", path="/v1/{name=projects/*}")),
        _method("ReservedNoTemplate", R, S, routing=[("class", ""), ("from", "")],
                http=dict(verb="post", path="/v1/{class}:reserved", body="*")),
        _method("SingleStar", R, S, routing=[("name", "{routing_id=*}")],
                signatures=["name"]),
        _method("DoubleStar", R, S, routing=[("name", "{name=**}")],
                signatures=["name,parent", "name"]),
        _method("LiteralPrefixSuffix", R, S,
                routing=[("table_name", "projects/*/{table_location=instances/*}/tables/*"),
                         ("table_name", "{routing_id=projects/*}/**"),
                         ("table_name", "regions/{region=*}/foo")],
                http=dict(verb="get", path="/v1/{table_name=projects/*/instances/*/tables/*}")),
        _method("SharedKey", R, S,
                routing=[("name", ""), ("name", "{name=projects/*/**}"),
                         ("parent", "{name=organizations/*}/**"),
                         ("book.name", "{name=shelves/*/books/*}"),
                         ("app_profile_id", "{name=*}")],
                signatures=["name,labels,tags"]),
        _method("NestedReserved", R, S,
                routing=[("book.class", ""), ("book.shelf.in", "{shelf_in=shelves/*}"),
                         ("book.from", "{from=**}"), ("class", "{class=classes/*}")],
                http=dict(verb="patch", path="/v1/{book.name=shelves/*/books/*}", body="book")),
        _method("ServerStream", R, S, server_streaming=True,
                routing=[("name", "{name=projects/*}/**"), ("parent", "")],
                http=dict(verb="get", path="/v1/{name=projects/*}:stream")),
        _method("ClientStream", R, S, client_streaming=True,
                routing=[("name", "{name=projects/*}/**")]),
        _method("BidiStream", R, S, client_streaming=True, server_streaming=True,
                routing=[("parent", ""), ("name", "{x=*}")]),
        _method("VoidClientStream", R, EMPTY, client_streaming=True,
                routing=[("parent", "")]),
        _method("RoutedLro", R, OP, lro=(f"{pkg}.RouteResponse", f"{pkg}.OperationMetadata"),
                routing=[("parent", "{project=projects/*}/**")],
                http=dict(verb="post", path="/v1/{parent=projects/*}/books:lro", body="*")),
        _method("RoutedList", f".{pkg}.ListBooksRequest", f".{pkg}.ListBooksResponse",
                routing=[("parent", "{shelf=shelves/*}")],
                http=dict(verb="get", path="/v1/{parent=shelves/*}/books"),
                signatures=["parent"]),
        _method("RoutedVoid", R, EMPTY, routing=[("name", "zones/*/{zone_item=items/*}")],
                http=dict(verb="delete", path="/v1/{name=zones/*/items/*}"), deprecated=True),
        _method("PlainImplicit", R, S, http=dict(verb="get", path="/v1/{name=things/*}/{class}")),
        _method("NoHeaders", R, S),
    ]
    f1 = _file("google/routing/v1/routing.proto", pkg,
               [_service("RoutingService", "routing.googleapis.com", methods,
                         api_version="2024-06-01_preview")])
    f1b = f1.SerializeToString()
    cases.append(dict(name="explicit_grpc_rest_yaml", package=pkg,
                      opts=f"transport=grpc+rest,service-yaml={yaml_path}",
                      files=dep_bytes + [f1b]))
    # same API, REST only + numeric enums, no snippets, no service yaml
    cases.append(dict(name="explicit_rest_numeric", package=pkg,
                      opts="transport=rest,rest-numeric-enums,autogen-snippets=false",
                      files=dep_bytes + [f1b]))
    # same API, gRPC only
    cases.append(dict(name="explicit_grpc_only_yaml", package=pkg,
                      opts=f"transport=grpc,autogen-snippets=false,service-yaml={yaml_path}",
                      files=dep_bytes + [f1b]))

    # ---- 2. implicit routing (http path variables only), no api version ---- #
    pkg = "google.implicit.v1beta1"
    R, S = f".{pkg}.RouteRequest", f".{pkg}.RouteResponse"
    methods = [
        _method("GetThing", R, S, http=dict(verb="get", path="/v1beta1/{name=projects/*/things/*}"),
                signatures=["name"]),
        _method("PutThing", R, S, http=dict(verb="put", path="/v1beta1/{parent}/things/{app_profile_id}", body="*")),
        _method("Dotted", R, S, http=dict(verb="patch", path="/v1beta1/{book.name=shelves/*/books/*}", body="book"),
                signatures=["book"]),
        _method("DottedReserved", R, S,
                http=dict(verb="post", path="/v1beta1/{book.class=classes/*}/{from}/{book.shelf.in}:go", body="*")),
        _method("ReservedTop", R, S, http=dict(verb="delete", path="/v1beta1/{class=classes/*}")),
        _method("Custom", R, S, http=dict(verb="custom", kind="fetch", path="/v1beta1/{table_name=tables/*}:fetch")),
        _method("Additional", R, S,
                http=dict(verb="get", path="/v1beta1/{name=projects/*}",
                          additional=[dict(verb="get", path="/v1beta1/{parent=folders/*}/x")])),
        _method("NoVars", R, S, http=dict(verb="post", path="/v1beta1/things:search", body="*")),
        _method("NoHttp", R, S),
        _method("ImplicitServerStream", R, S, server_streaming=True,
                http=dict(verb="get", path="/v1beta1/{name=projects/*}:watch")),
        _method("ImplicitClientStream", R, S, client_streaming=True,
                http=dict(verb="post", path="/v1beta1/{name=projects/*}:upload", body="*")),
        _method("ImplicitBidi", R, S, client_streaming=True, server_streaming=True),
        _method("ImplicitLro", R, OP, lro=(f"{pkg}.RouteResponse", f"{pkg}.OperationMetadata"),
                http=dict(verb="post", path="/v1beta1/{parent=projects/*}/things:import", body="*")),
        _method("ListBooks", f".{pkg}.ListBooksRequest", f".{pkg}.ListBooksResponse",
                http=dict(verb="get", path="/v1beta1/{parent=shelves/*}/books"), signatures=["parent"]),
        _method("Drop", R, EMPTY, http=dict(verb="delete", path="/v1beta1/{name=projects/*/things/*}")),
    ]
    f2 = _file("google/implicit/v1beta1/implicit.proto", pkg,
               [_service("ImplicitService", "implicit.googleapis.com", methods)])
    cases.append(dict(name="implicit_grpc_rest", package=pkg, opts="transport=grpc+rest",
                      files=dep_bytes + [f2.SerializeToString()]))
    cases.append(dict(name="implicit_grpc_only_nosnippets", package=pkg,
                      opts="transport=grpc,autogen-snippets=false",
                      files=dep_bytes + [f2.SerializeToString()]))

    # ---- 3. several services, sub-package, mixed explicit / implicit ------- #
    pkg = "acme.library.v2"
    sub = "acme.library.v2.admin"
    R, S = f".{pkg}.RouteRequest", f".{pkg}.RouteResponse"
    svc_a = _service("Catalog", "library.example.com", [
        _method("Lookup", R, S, http=dict(verb="get", path="/v2/{name=books/*}"),
                routing=[("name", "{book_id=books/*}")]),
        _method("Plain", R, S, http=dict(verb="get", path="/v2/{name=books/*}/plain")),
        _method("Unrouted", R, S),
    ], api_version="v2_20240101")
    svc_b = _service("Lending", "library.example.com", [
        _method("Borrow", R, OP, lro=(f"{pkg}.RouteResponse", f"{pkg}.OperationMetadata"),
                http=dict(verb="post", path="/v2/{book.name=books/*}:borrow", body="*")),
        _method("Return", R, EMPTY, routing=[("from", ""), ("book.from", "{from=**}")]),
    ])
    f3a = _file("acme/library/v2/library.proto", pkg, [svc_a, svc_b])
    svc_c = _service("AdminService", "admin.library.example.com", [
        _method("Purge", R, EMPTY, http=dict(verb="delete", path="/v2/{parent=shelves/*}/books:purge"),
                routing=[("parent", "{shelf=shelves/*}"), ("class", "")]),
        _method("Audit", f".{pkg}.ListBooksRequest", f".{pkg}.ListBooksResponse",
                http=dict(verb="get", path="/v2/{parent=shelves/*}/audit")),
        _method("Tail", R, S, server_streaming=True, routing=[("table_name", "{t=tables/*}/**")]),
        _method("Push", R, S, client_streaming=True,
                http=dict(verb="post", path="/v2/{name=books/*}:push", body="*")),
    ])
    f3b = _file("acme/library/v2/admin/admin.proto", sub, [svc_c], with_messages=False,
                extra_deps=["acme/library/v2/library.proto"])
    cases.append(dict(name="multi_service_subpackage", package=pkg,
                      # (snippet generation at HEAD cannot cope with services in a sub-package)
                      opts="transport=grpc+rest,rest-numeric-enums,metadata,autogen-snippets=false",
                      files=dep_bytes + [f3a.SerializeToString(), f3b.SerializeToString()]))

    # ---- 4. odd annotations: both trees must behave / fail the same way ---- #
    pkg = "google.broken.v1"
    R, S = f".{pkg}.RouteRequest", f".{pkg}.RouteResponse"

    def broken(case_name, routing):
        f = _file("google/broken/v1/broken.proto", pkg, [_service(
            "Broken", "broken.googleapis.com", [_method("Odd", R, S, routing=routing)])])
        cases.append(dict(name=case_name, package=pkg, opts="transport=grpc",
                          may_fail=True, files=dep_bytes + [f.SerializeToString()]))

    broken("broken_two_named_segments", [("name", "{a=*}/{b=*}")])
    broken("broken_empty_routing_rule", [])
    # `{key}` without `=` (the shorthand that the un-recursed branch handles)
    broken("bare_key_template", [("name", "regions/{region}/foo"), ("parent", "{parent}")])
    broken("two_equals_in_segment", [("name", "{a=b=c}")])

    # Every case once more without the generator's whitespace post-processing.
    cases.extend([dict(case, name=case["name"] + "#raw", raw=True) for case in cases])
    return cases


def build_probes():
    """(routing rule, [requests]) table for the direct Python-level comparison."""
    import json

    templates = [
        "", "{name=*}", "{name=**}", "{name}", "{routing_id=projects/*}/**",
        "projects/*/{table_location=instances/*}/tables/*", "regions/{region=*}/foo",
        "regions/{region}/foo", "{x=a/*/b/**}", "{x=**}/tail", "a/**/{x=*}", "**", "*",
        "{a=*}/{b=*}", "{a=b=c}", "x{y}z", "{}", "{=*}", "{a=}", "}{", "a/{b", "plain/text",
        "{name=projects/*/**}", "{k=*}/**", "{{a}}", "{a}=b",
    ]
    values = [
        "", "projects/p", "projects/p/instances/i/tables/t", "regions/r/foo", "a/1/b/2/3",
        "x/tail", "plain/text", "projects/p/", "p", "a b&c=d/é",
    ]
    probes = []
    for tmpl in templates:
        reqs = []
        for v in values:
            reqs.append({"name": v})
            reqs.append(json.dumps({"name": v}))
        reqs.extend([{}, "{}", {"name": None}, {"other": "x"}, "not json", "[1, 2]", {"name": 5}])
        probes.append(([("name", tmpl)], reqs))
    # nested fields, shared keys (last one wins), missing sub-messages
    rule = [("name", ""), ("name", "{name=projects/*/**}"), ("parent", "{name=organizations/*}/**"),
            ("book.name", "{name=shelves/*/books/*}"), ("book.shelf.in", "{shelf_in=shelves/*}"),
            ("app_profile_id", "{name=*}"), ("book.class", ""), ("", "")]
    reqs = [
        {"name": "projects/p/x", "parent": "organizations/o/y"},
        {"name": "nomatch", "book": {"name": "shelves/s/books/b"}},
        {"book": {"shelf": {"in": "shelves/q"}, "class": "c"}},
        {"book": {}}, {"book": None}, {"book": {"shelf": None}}, {"book": "str"},
        {"app_profile_id": "prof", "name": "projects/p/x"},
        {"app_profile_id": "a/b", "name": ""},
        {"": "empty-field-name"},
        json.dumps({"name": "projects/p/x", "book": {"name": "shelves/s/books/b"}}),
        json.dumps({"book": {"shelf": {"in": "shelves/q/extra"}}}),
        {},
    ]
    probes.append((rule, reqs))
    probes.append(([], [{}, {"name": "x"}, "not json"]))
    return probes


# --------------------------------------------------------------------------- #
# Driver
# --------------------------------------------------------------------------- #


def main(argv):
    if len(argv) == 5 and argv[1] == "--worker":
        worker(argv[2], argv[3], argv[4])
        return 0
    if len(argv) != 2:
        print(__doc__)
        return 2
    checkout = os.path.realpath(argv[1])
    tmp = tempfile.mkdtemp(prefix="twin-demo-V06-")
    try:
        base = os.path.join(tmp, "base")
        os.mkdir(base)
        archive = subprocess.run(
            ["git", "-C", checkout, "archive", "HEAD"], check=True, stdout=subprocess.PIPE
        ).stdout
        subprocess.run(["tar", "-x", "-C", base], input=archive, check=True)

        yaml_path = os.path.join(tmp, "routing_v1.yaml")
        with open(yaml_path, "w") as f:
            f.write(_SERVICE_YAML)

        cases = build_cases(yaml_path)
        cases_path = os.path.join(tmp, "cases.pkl")
        with open(cases_path, "wb") as f:
            pickle.dump({"cases": cases, "probes": build_probes()}, f)

        outputs = {}
        env = dict(os.environ, PYTHONDONTWRITEBYTECODE="1", PYTHONHASHSEED="0")
        env.pop("PYTHONPATH", None)
        workdir = os.path.join(tmp, "cwd")
        os.mkdir(workdir)
        for label, tree in (("base", base), ("test", checkout)):
            out_path = os.path.join(tmp, f"out-{label}.pkl")
            subprocess.run(
                [sys.executable, os.path.abspath(__file__), "--worker", tree, cases_path, out_path],
                check=True, cwd=workdir, env=env,
            )
            with open(out_path, "rb") as f:
                outputs[label] = pickle.load(f)

        problems = []
        n_files = n_errors = 0
        for case in cases:
            name = case["name"]
            b, t = outputs["base"][name], outputs["test"][name]
            if "error" in b or "error" in t:
                n_errors += 1
                if b != t:
                    problems.append(f"{name}: outcomes differ: base={b.get('error')} test={t.get('error')}")
                continue
            bf, tf = b["files"], t["files"]
            if not bf:
                problems.append(f"{name}: no output files")
            for fname in sorted(set(bf) | set(tf)):
                n_files += 1
                if fname not in bf:
                    problems.append(f"{name}: only in test: {fname}")
                elif fname not in tf:
                    problems.append(f"{name}: only in base: {fname}")
                elif bf[fname] != tf[fname]:
                    problems.append(f"{name}: differs: {fname}")

        # direct probes of RoutingParameter / RoutingRule.resolve
        bp, tp = outputs["base"]["__probes__"], outputs["test"]["__probes__"]
        n_probes = sum(len(e["resolve"]) + len(e["regex"]) + len(e["key"]) for e in bp)
        if len(bp) != len(tp):
            problems.append("probes: different number of results")
        for i, (be, te) in enumerate(zip(bp, tp)):
            for what in ("regex", "key", "resolve"):
                for j, (bo, to) in enumerate(zip(be[what], te[what])):
                    if bo != to:
                        problems.append(f"probe #{i} {what}[{j}]: base={bo!r} test={to!r}")
        n_ok = sum(1 for e in bp for o in e["resolve"] if o[0] == "ok" and o[1])
        n_raised = sum(1 for e in bp for w in ("regex", "resolve") for o in e[w] if o[0] == "raised")
        if n_ok < 20 or n_raised < 5:
            problems.append(f"sanity: probes too weak (non-empty={n_ok}, raised={n_raised})")

        # sanity: the refactored code must really have been exercised
        def blob(case, suffix):
            return "\n".join(
                content for fname, content in outputs["test"][case]["files"].items()
                if fname.endswith(suffix)
            )

        for suffix in ("services/routing_service/client.py", "services/routing_service/async_client.py"):
            text = blob("explicit_grpc_rest_yaml", suffix)
            for needle in ('header_params["routing_id"]', "routing_param_regex = re.compile(",
                           "request.book.class_", "if request.from_:",
                           '("class", request.class_),',
                           'version_header.to_api_version_header("2024-06-01_preview")',
                           "if not request.request_id:", "if 'opt_request_id' not in request:",
                           "            requests,\n            retry=retry,",
                           "            request,\n            retry=retry,",
                           "metadata=metadata,"):
                if needle not in text:
                    problems.append(f"sanity: {needle!r} not found in {suffix}")
        text = blob("explicit_grpc_rest_yaml", "test_routing_service.py")
        if "expected_headers = {" not in text:
            problems.append("sanity: resolved routing headers not found in the generated unit tests")
        text = blob("implicit_grpc_rest", "services/implicit_service/async_client.py")
        for needle in ('("book.class", request.book.class_),', '("from", request.from_),'):
            if needle not in text:
                problems.append(f"sanity: {needle!r} not found in the implicit-routing async client")
        if "bare_key_template" in outputs["test"] and "files" in outputs["test"]["bare_key_template"]:
            pass  # generated fine in both trees and compared above

        if problems:
            print("DIFFERENCES FOUND:")
            for p in problems:
                print("  " + p)
            return 1
        print(
            f"OK: {len(cases)} API descriptions, {n_files} generated files byte-identical and "
            f"{n_probes} direct routing probes identical between HEAD and the working tree "
            f"({n_errors} odd-annotation cases failed identically)"
        )
        return 0
    finally:
        shutil.rmtree(tmp, ignore_errors=True)


if __name__ == "__main__":
    sys.exit(main(sys.argv))
