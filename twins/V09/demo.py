#!/usr/bin/env python
"""Twin V09 (property C09: default retry / timeout come from the gRPC service config).

Usage:  /venv/bin/python demo.py <path-to-a-checkout-with-the-change>

1. exports the pristine HEAD of the checkout (`git archive HEAD | tar -x`);
2. builds several API descriptions (FileDescriptorProtos made in Python), gRPC
   service configs and service yamls that exercise `Options.build`
   (retry-config absent / given once / given several times),
   `_get_retry_and_timeout` / `_to_float` (both early returns, every branch),
   the `_prep_wrapped_messages` table of transports/base.py.j2 (now rendered by
   the `wrapped_method_entry` macro, for API methods and for mixin methods) and
   the `prep_wrapped_messages_async_method` / `async_default_retry` macros of
   _shared_macros.j2 (grpc_asyncio and rest_asyncio transports, with and
   without mixins);
3. runs the generator of BOTH trees, each in its own subprocess, over all cases;
4. compares every output file (names and bytes), a dump of the parsed
   (retry, timeout) of every method, and the exception of malformed configs.

Exit 0 + a one-line summary if everything is identical, exit 1 otherwise.
"""
import itertools
import json
import os
import pickle
import shutil
import subprocess
import sys
import tempfile

from google.api import annotations_pb2, client_pb2, field_behavior_pb2
from google.longrunning import operations_pb2
from google.protobuf import descriptor_pb2 as dpb

F = dpb.FieldDescriptorProto

# ---------------------------------------------------------------------------
# Worker, run once per tree in a fresh interpreter.
# ---------------------------------------------------------------------------
WORKER = r'''
import os, pickle, sys, traceback

tree, infile, outfile = sys.argv[1:4]
tree = os.path.realpath(tree)
inside = lambda p: os.path.realpath(p).startswith(tree + os.sep)

# The venv has an editable install of another checkout: drop its import finder,
# its path hook / path entry and anything else that could provide `gapic`;
# put the tree under test first.
sys.meta_path[:] = [
    f for f in sys.meta_path
    if "__editable__" not in (str(getattr(f, "__module__", "")) + str(getattr(f, "__name__", "")))
]
sys.path_hooks[:] = [
    h for h in sys.path_hooks
    if "__editable__" not in (str(getattr(h, "__module__", "")) + str(getattr(h, "__qualname__", "")))
]
sys.path_importer_cache.clear()
keep = []
for p in sys.path:
    if "__editable__" in p or p in ("", ".", os.getcwd()):
        continue
    if os.path.isdir(os.path.join(p, "gapic")):
        continue
    keep.append(p)
sys.path[:] = [tree] + keep
for name in list(sys.modules):
    assert name != "gapic" and not name.startswith("gapic."), name

import pypandoc


def _convert_text(text, to, format=None, extra_args=(), **kw):
    return text


pypandoc.convert_text = _convert_text   # same stub for both trees

import gapic
assert [os.path.realpath(p) for p in gapic.__path__] == [os.path.join(tree, "gapic")], list(gapic.__path__)

from google.protobuf import descriptor_pb2
from gapic.schema import api as gapic_api
from gapic.generator import generator
from gapic.utils import Options

with open(infile, "rb") as f:
    cases = pickle.load(f)

results = {}
for case in cases:
    files = {}
    try:
        fdps = [descriptor_pb2.FileDescriptorProto.FromString(b) for b in case["fdps"]]
        opts = Options.build(case["opts"])
        assert opts.templates and all(inside(t) for t in opts.templates), opts.templates
        schema = gapic_api.API.build(fdps, package=case["package"], opts=opts)
        lines = []
        for sname in sorted(schema.services):
            svc = schema.services[sname]
            for mname in sorted(svc.methods):
                m = svc.methods[mname]
                r = m.retry
                if r is not None:
                    r = (type(r).__name__, r.max_attempts, r.initial_backoff, r.max_backoff,
                         r.backoff_multiplier, type(r.retryable_exceptions).__name__,
                         # sorted: the iteration order of a set of classes depends on
                         # their addresses, i.e. it varies from process to process
                         sorted(e.__name__ for e in r.retryable_exceptions))
                lines.append("%s/%s retry=%r timeout=%r" % (sname, mname, r, m.timeout))
        files["__schema__/retry_timeout.txt"] = "\n".join(lines)
        gen = generator.Generator(opts)
        assert all(inside(p) for p in gen._env.loader.searchpath), gen._env.loader.searchpath
        response = gen.get_response(schema, opts)
        for out in response.file:
            assert out.name not in files, out.name
            files[out.name] = out.content
    except Exception as exc:   # recorded and compared as well
        files = {"__exception__": "%s: %s" % (type(exc).__name__, exc)}
        if not case.get("expect_error"):
            files["__traceback__"] = traceback.format_exc()
    results[case["name"]] = files

n_mods = 0
for name, mod in list(sys.modules.items()):
    if name == "gapic" or name.startswith("gapic."):
        n_mods += 1
        fn = getattr(mod, "__file__", None)
        assert fn is None or inside(fn), (name, fn)
        for p in getattr(mod, "__path__", []):
            assert inside(p), (name, p)
assert n_mods > 10, n_mods

with open(outfile, "wb") as f:
    pickle.dump(results, f)
'''


# ---------------------------------------------------------------------------
# Descriptor helpers
# ---------------------------------------------------------------------------
def field(name, number, type_=F.TYPE_STRING, label=F.LABEL_OPTIONAL, type_name=None,
          oneof_index=None, required=False):
    f = F(name=name, number=number, type=type_, label=label)
    if type_name:
        f.type_name = type_name
    if oneof_index is not None:
        f.oneof_index = oneof_index
    if required:
        f.options.Extensions[field_behavior_pb2.field_behavior].append(
            field_behavior_pb2.REQUIRED)
    return f


def message(name, fields, oneofs=(), nested=()):
    m = dpb.DescriptorProto(name=name, field=fields)
    for o in oneofs:
        m.oneof_decl.add(name=o)
    m.nested_type.extend(nested)
    return m


def map_entry(name):
    e = dpb.DescriptorProto(name=name, field=[field("key", 1), field("value", 2)])
    e.options.map_entry = True
    return e


def method(name, inp, out, http=None, body=None, cs=False, ss=False, signature=None,
           lro=None):
    m = dpb.MethodDescriptorProto(name=name, input_type=inp, output_type=out,
                                  client_streaming=cs, server_streaming=ss)
    if http:
        verb, uri = http
        rule = m.options.Extensions[annotations_pb2.http]
        setattr(rule, verb, uri)
        if body:
            rule.body = body
    if signature is not None:
        m.options.Extensions[client_pb2.method_signature].append(signature)
    if lro:
        info = m.options.Extensions[operations_pb2.operation_info]
        info.response_type, info.metadata_type = lro
    return m


def service(name, methods, host="example.googleapis.com", scopes=None):
    s = dpb.ServiceDescriptorProto(name=name, method=methods)
    if host:
        s.options.Extensions[client_pb2.default_host] = host
    if scopes:
        s.options.Extensions[client_pb2.oauth_scopes] = scopes
    return s


def file_(name, package, messages=(), services=(), enums=(), deps=()):
    return dpb.FileDescriptorProto(name=name, package=package, message_type=messages,
                                   service=services, enum_type=enums,
                                   dependency=list(deps), syntax="proto3")


def closure(*modules):
    """The files of the given *_pb2 modules and their dependencies, dependencies first."""
    seen, order = set(), []

    def visit(fd):
        if fd.name in seen:
            return
        seen.add(fd.name)
        for dep in fd.dependencies:
            visit(dep)
        fdp = dpb.FileDescriptorProto()
        fd.CopyToProto(fdp)
        order.append(fdp)

    for mod in modules:
        visit(mod.DESCRIPTOR)
    return order


ALL_CODES = [
    "OK", "CANCELLED", "UNKNOWN", "INVALID_ARGUMENT", "DEADLINE_EXCEEDED", "NOT_FOUND",
    "ALREADY_EXISTS", "PERMISSION_DENIED", "RESOURCE_EXHAUSTED", "FAILED_PRECONDITION",
    "ABORTED", "OUT_OF_RANGE", "UNIMPLEMENTED", "INTERNAL", "UNAVAILABLE", "DATA_LOSS",
    "UNAUTHENTICATED",
]


# ---------------------------------------------------------------------------
# API 1: google.cloud.catalog.v1 - unary / paged / Empty / LRO, gRPC + REST, mixins
# ---------------------------------------------------------------------------
def catalog_api():
    pkg = "google.cloud.catalog.v1"
    p = "." + pkg
    msgs = [
        message("Entry", [field("name", 1), field("display_name", 2),
                          field("labels", 3, F.TYPE_MESSAGE, F.LABEL_REPEATED,
                                p + ".Entry.LabelsEntry"),
                          field("aliases", 4, label=F.LABEL_REPEATED)],
                nested=[map_entry("LabelsEntry")]),
        message("GetEntryRequest", [field("name", 1, required=True)]),
        message("DeleteEntryRequest", [field("name", 1, required=True)]),
        message("ListEntriesRequest", [field("parent", 1), field("page_size", 2, F.TYPE_INT32),
                                       field("page_token", 3)]),
        message("ListEntriesResponse", [field("entries", 1, F.TYPE_MESSAGE, F.LABEL_REPEATED,
                                              p + ".Entry"), field("next_page_token", 2)]),
        message("ImportEntriesRequest", [field("parent", 1),
                                         field("entry", 2, F.TYPE_MESSAGE, type_name=p + ".Entry")]),
        message("ImportEntriesMetadata", [field("done_count", 1, F.TYPE_INT32)]),
    ]
    svc = service("Catalog", [
        method("GetEntry", p + ".GetEntryRequest", p + ".Entry",
               http=("get", "/v1/{name=projects/*/entries/*}"), signature="name"),
        method("ListEntries", p + ".ListEntriesRequest", p + ".ListEntriesResponse",
               http=("get", "/v1/{parent=projects/*}/entries"), signature="parent"),
        method("DeleteEntry", p + ".DeleteEntryRequest", ".google.protobuf.Empty",
               http=("delete", "/v1/{name=projects/*/entries/*}")),
        method("ImportEntries", p + ".ImportEntriesRequest", ".google.longrunning.Operation",
               http=("post", "/v1/{parent=projects/*}/entries:import"), body="*",
               lro=("Entry", "ImportEntriesMetadata")),
        method("UpdateEntry", p + ".ImportEntriesRequest", p + ".Entry",
               http=("patch", "/v1/{parent=projects/*}/entries"), body="entry"),
    ], host="catalog.googleapis.com",
        scopes="https://www.googleapis.com/auth/cloud-platform")
    fdp = file_("google/cloud/catalog/v1/catalog.proto", pkg, msgs, [svc],
                deps=["google/longrunning/operations.proto", "google/protobuf/empty.proto"])
    return closure(operations_pb2) + [fdp], pkg


def catalog_config():
    svc = "google.cloud.catalog.v1.Catalog"
    return {
        "methodConfig": [
            # names only the service: never equals a {service, method} selector
            {"name": [{"service": svc}], "timeout": "99s",
             "retryPolicy": {"retryableStatusCodes": ["ABORTED"]}},
            # several methods per entry, fractional durations, every status code
            {"name": [{"service": svc, "method": "GetEntry"},
                      {"service": svc, "method": "ListEntries"}],
             "timeout": "45.75s",
             "retryPolicy": {"maxAttempts": 6, "initialBackoff": "0.2s",
                             "maxBackoff": "64.5s", "backoffMultiplier": 1.25,
                             "retryableStatusCodes": ALL_CODES}},
            # timeout, no retryPolicy
            {"name": [{"service": svc, "method": "DeleteEntry"}], "timeout": "9s"},
            # retryPolicy, no timeout (-> deadline=None)
            {"name": [{"service": svc, "method": "ImportEntries"}],
             "retryPolicy": {"initialBackoff": "2s", "maxBackoff": "20s",
                             "backoffMultiplier": 3,
                             "retryableStatusCodes": ["UNAVAILABLE", "DEADLINE_EXCEEDED",
                                                      "INTERNAL"]}},
            # second entry for GetEntry: the first one has to win
            {"name": [{"service": svc, "method": "GetEntry"}], "timeout": "1s"},
            # mixin methods named in the config stay without defaults
            {"name": [{"service": "google.longrunning.Operations", "method": "GetOperation"},
                      {"service": "google.cloud.location.Locations", "method": "GetLocation"}],
             "timeout": "5s", "retryPolicy": {"retryableStatusCodes": ["UNAVAILABLE"]}},
        ],
    }


def catalog_yaml(mixins=("location", "iam", "operations"), async_rest=True):
    apis = [{"name": "google.cloud.catalog.v1.Catalog"}]
    rules = []
    if "location" in mixins:
        apis.append({"name": "google.cloud.location.Locations"})
        rules += [
            {"selector": "google.cloud.location.Locations.GetLocation",
             "get": "/v1/{name=projects/*/locations/*}"},
            {"selector": "google.cloud.location.Locations.ListLocations",
             "get": "/v1/{name=projects/*}/locations"},
        ]
    if "iam" in mixins:
        apis.append({"name": "google.iam.v1.IAMPolicy"})
        rules += [
            {"selector": "google.iam.v1.IAMPolicy.GetIamPolicy",
             "get": "/v1/{resource=projects/*/entries/*}:getIamPolicy"},
            {"selector": "google.iam.v1.IAMPolicy.SetIamPolicy",
             "post": "/v1/{resource=projects/*/entries/*}:setIamPolicy", "body": "*"},
            {"selector": "google.iam.v1.IAMPolicy.TestIamPermissions",
             "post": "/v1/{resource=projects/*/entries/*}:testIamPermissions", "body": "*"},
        ]
    if "operations" in mixins:
        apis.append({"name": "google.longrunning.Operations"})
        rules += [
            {"selector": "google.longrunning.Operations.GetOperation",
             "get": "/v1/{name=projects/*/operations/*}"},
            {"selector": "google.longrunning.Operations.ListOperations",
             "get": "/v1/{name=projects/*}/operations"},
            {"selector": "google.longrunning.Operations.CancelOperation",
             "post": "/v1/{name=projects/*/operations/*}:cancel", "body": "*"},
            {"selector": "google.longrunning.Operations.DeleteOperation",
             "delete": "/v1/{name=projects/*/operations/*}"},
        ]
    cfg = {"type": "google.api.Service", "config_version": 3,
           "name": "catalog.googleapis.com", "title": "Catalog API", "apis": apis,
           "http": {"rules": rules}}
    if async_rest:
        cfg["publishing"] = {"library_settings": [{
            "version": "google.cloud.catalog.v1",
            "python_settings": {"experimental_features": {"rest_async_io_enabled": True}},
        }]}
    return cfg


# ---------------------------------------------------------------------------
# API 2: foo.bar.v1 - several services, streaming, reserved words, and one method
# per combination of present / absent / zero backoff parameters
# ---------------------------------------------------------------------------
COMBOS = list(itertools.product((False, True), repeat=3))


def pipe_api():
    pkg = "foo.bar.v1"
    p = "." + pkg
    msgs = [
        message("Chunk", [field("data", 1, F.TYPE_BYTES), field("class", 2),
                          field("retry", 3, F.TYPE_INT32), field("timeout", 4, F.TYPE_DOUBLE)]),
        message("Ack", [field("ok", 1, F.TYPE_BOOL)]),
        message("Query", [field("text", 1), field("id", 2, F.TYPE_INT64, oneof_index=0),
                          field("alias", 3, oneof_index=0)], oneofs=["key"]),
    ]
    pipe = service("Pipe", [
        method("Import", p + ".Query", p + ".Ack"),      # reserved word when snake-cased
        method("Class", p + ".Query", p + ".Ack"),
        method("Close", p + ".Query", p + ".Ack"),       # clashes with transport.close
        method("Download", p + ".Query", p + ".Chunk", ss=True),
        method("Upload", p + ".Chunk", p + ".Ack", cs=True),
        method("Chat", p + ".Chunk", p + ".Chunk", cs=True, ss=True),
    ], host="pipe.example.com")
    knobs = service("Knobs", [
        method("Combo%d" % i, p + ".Query", p + ".Ack") for i in range(len(COMBOS))
    ] + [method("Zeros", p + ".Query", p + ".Ack"), method("Import", p + ".Query", p + ".Ack")],
        host=None)
    idle = service("Idle", [], host="idle.example.com")
    return [file_("foo/bar/v1/pipe.proto", pkg, msgs, [pipe, knobs, idle])], pkg


def pipe_config():
    pipe, knobs = "foo.bar.v1.Pipe", "foo.bar.v1.Knobs"
    entries = [
        # nanosecond suffix; duplicated codes; OK maps to the base exception class
        {"name": [{"service": pipe, "method": "Import"}, {"service": knobs, "method": "Import"}],
         "timeout": "2500000000n",
         "retryPolicy": {"initialBackoff": "125000000n", "maxBackoff": "0s",
                         "retryableStatusCodes": ["UNAVAILABLE", "OK", "UNAVAILABLE"]}},
        # zero timeout is "no timeout"; empty retryPolicy still makes a Retry
        {"name": [{"service": pipe, "method": "Download"}], "timeout": "0s", "retryPolicy": {}},
        {"name": [{"service": pipe, "method": "Chat"}], "timeout": "",
         "retryPolicy": {"maxAttempts": 2, "backoffMultiplier": 0, "retryableStatusCodes": []}},
        # right method with wrong service / package / case: no match
        {"name": [{"service": "foo.bar.Pipe", "method": "Upload"},
                  {"service": "v1.Pipe", "method": "Upload"},
                  {"service": pipe, "method": "upload"},
                  {"service": pipe, "method": "Upload", "extra": 1}], "timeout": "3s"},
        {"name": [{"service": pipe, "method": "Close"}], "timeout": "3.5s",
         "retryPolicy": {"initialBackoff": ".25s", "maxBackoff": "2e1s", "backoffMultiplier": 1.75,
                         "retryableStatusCodes": ["DATA_LOSS", "ABORTED", "CANCELLED"]}},
        # explicit zeros everywhere
        {"name": [{"service": knobs, "method": "Zeros"}], "timeout": "0.0s",
         "retryPolicy": {"maxAttempts": 0, "initialBackoff": "0s", "maxBackoff": "0n",
                         "backoffMultiplier": 0.0, "retryableStatusCodes": ["NOT_FOUND"]}},
    ]
    # every subset of {initialBackoff, maxBackoff, backoffMultiplier}
    for i, (has_initial, has_max, has_mult) in enumerate(COMBOS):
        policy = {"retryableStatusCodes": ["UNAVAILABLE", "RESOURCE_EXHAUSTED"][: 1 + i % 2]}
        if has_initial:
            policy["initialBackoff"] = "%d.5s" % i
        if has_max:
            policy["maxBackoff"] = "%d0s" % (i + 1)
        if has_mult:
            policy["backoffMultiplier"] = 1 + i / 8
        entries.append({"name": [{"service": knobs, "method": "Combo%d" % i}],
                        "timeout": "%ds" % (10 + i), "retryPolicy": policy})
    return {"methodConfig": entries, "loadBalancingConfig": [{"round_robin": {}}]}


# ---------------------------------------------------------------------------
# API 3: acme.shop.v1 (+ sub-package audit) - enums, oneofs, maps; REST only
# ---------------------------------------------------------------------------
def shop_api():
    pkg = "acme.shop.v1"
    p = "." + pkg
    kind = dpb.EnumDescriptorProto(name="Kind", value=[
        dpb.EnumValueDescriptorProto(name="KIND_UNSPECIFIED", number=0),
        dpb.EnumValueDescriptorProto(name="SMALL", number=1),
        dpb.EnumValueDescriptorProto(name="LARGE", number=2),
    ])
    msgs = [
        message("Item", [field("name", 1), field("kind", 2, F.TYPE_ENUM, type_name=p + ".Kind"),
                         field("attrs", 3, F.TYPE_MESSAGE, F.LABEL_REPEATED,
                               p + ".Item.AttrsEntry"),
                         field("price", 4, F.TYPE_DOUBLE, oneof_index=0),
                         field("free", 5, F.TYPE_BOOL, oneof_index=0)],
                oneofs=["cost"], nested=[map_entry("AttrsEntry")]),
        message("GetItemRequest", [field("name", 1),
                                   field("view", 2, F.TYPE_ENUM, type_name=p + ".Kind")]),
        message("ListItemsRequest", [field("parent", 1), field("page_size", 2, F.TYPE_INT32),
                                     field("page_token", 3)]),
        message("ListItemsResponse", [field("items", 1, F.TYPE_MESSAGE, F.LABEL_REPEATED,
                                            p + ".Item"), field("next_page_token", 2)]),
    ]
    shop = service("Shop", [
        method("GetItem", p + ".GetItemRequest", p + ".Item",
               http=("get", "/v1/{name=items/*}"), signature="name"),
        method("ListItems", p + ".ListItemsRequest", p + ".ListItemsResponse",
               http=("get", "/v1/{parent=stores/*}/items")),
        method("PutItem", p + ".Item", p + ".Item", http=("put", "/v1/{name=items/*}"), body="*"),
    ], host="shop.acme.test:8443")
    main = file_("acme/shop/v1/shop.proto", pkg, msgs, [shop], enums=[kind])
    sub = "acme.shop.v1.audit"
    sp = "." + sub
    audit = service("AuditLog", [
        method("Record", sp + ".Entry", sp + ".Entry", http=("post", "/v1/audit"), body="*"),
        method("Fetch", sp + ".Entry", sp + ".Entry", http=("get", "/v1/audit/{id}")),
    ], host="shop.acme.test")
    subfile = file_("acme/shop/v1/audit/audit.proto", sub,
                    [message("Entry", [field("id", 1),
                                       field("item", 2, F.TYPE_MESSAGE, type_name=p + ".Item")])],
                    [audit], deps=["acme/shop/v1/shop.proto"])
    return [main, subfile], pkg


def shop_config():
    return {"methodConfig": [
        {"name": [{"service": "acme.shop.v1.Shop", "method": "GetItem"},
                  {"service": "acme.shop.v1.audit.AuditLog", "method": "Fetch"}],
         "timeout": "30s",
         "retryPolicy": {"maxAttempts": 3, "initialBackoff": "0.5s", "maxBackoff": "16s",
                         "backoffMultiplier": 2.0,
                         "retryableStatusCodes": ["UNKNOWN", "UNAVAILABLE", "UNIMPLEMENTED",
                                                  "UNAUTHENTICATED"]}},
        {"name": [{"service": "acme.shop.v1.Shop", "method": "ListItems"}], "timeout": "600s",
         "retryPolicy": {"maxBackoff": "4s", "retryableStatusCodes": ["ABORTED"]}},
        # sub-package service addressed through the parent package: no match
        {"name": [{"service": "acme.shop.v1.AuditLog", "method": "Record"}], "timeout": "5s"},
        {"name": [{"service": "acme.shop.v1.audit.AuditLog", "method": "Record"}],
         "timeout": "12.125s"},
    ]}


# ---------------------------------------------------------------------------
def build_cases(tmp):
    def dump(name, data):
        path = os.path.join(tmp, name + ".json")   # JSON is valid YAML, too
        with open(path, "w") as f:
            json.dump(data, f)
        return path

    def ser(fdps):
        return [f.SerializeToString() for f in fdps]

    cat, cat_pkg = catalog_api()
    pipe, pipe_pkg = pipe_api()
    shop, shop_pkg = shop_api()
    cat_cfg = dump("catalog-retry", catalog_config())
    pipe_cfg = dump("pipe-retry", pipe_config())
    shop_cfg = dump("shop-retry", shop_config())
    empty_cfg = dump("empty-retry", {})
    nomethods_cfg = dump("nomethods-retry", {"methodConfig": []})
    yaml_all = dump("catalog-yaml-all", catalog_yaml())
    # Not a valid service config (the multiplier has to be a number), but the generator
    # does not check it: a value that renders as several lines shows that the macros add
    # no indentation of their own to what they render.
    svc = "google.cloud.catalog.v1.Catalog"
    odd_cfg = dump("catalog-odd-retry", {"methodConfig": [
        {"name": [{"service": svc, "method": "GetEntry"}], "timeout": "7s",
         "retryPolicy": {"initialBackoff": "1s", "backoffMultiplier": "(1.5 +\n0.5\n\n)",
                         "retryableStatusCodes": ["UNAVAILABLE"]}},
        {"name": [{"service": svc, "method": "ListEntries"}],
         "retryPolicy": {"maxAttempts": "many", "backoffMultiplier": [1, 2],
                         "retryableStatusCodes": ("INTERNAL",)}},
    ]})
    yaml_ops = dump("catalog-yaml-ops", catalog_yaml(mixins=("operations",), async_rest=False))
    yaml_loc = dump("catalog-yaml-loc", catalog_yaml(mixins=("location",)))

    cases = [
        dict(name="catalog/grpc+rest,all-mixins,async-rest", fdps=ser(cat), package=cat_pkg,
             opts="retry-config=%s,service-yaml=%s,transport=grpc+rest" % (cat_cfg, yaml_all)),
        dict(name="catalog/rest-only,location-mixin,async-rest", fdps=ser(cat), package=cat_pkg,
             opts="retry-config=%s,service-yaml=%s,transport=rest,rest-numeric-enums"
                  % (cat_cfg, yaml_loc)),
        dict(name="catalog/grpc,operations-mixin,no-retry-config", fdps=ser(cat), package=cat_pkg,
             opts="service-yaml=%s,transport=grpc,autogen-snippets=false" % yaml_ops),
        dict(name="catalog/defaults,no-yaml,last-config-wins", fdps=ser(cat), package=cat_pkg,
             opts="retry-config=%s,retry-config=%s" % (empty_cfg, cat_cfg)),
        dict(name="catalog/empty-config", fdps=ser(cat), package=cat_pkg,
             opts="retry-config=%s,autogen-snippets=false" % empty_cfg),
        dict(name="pipe/grpc,all-backoff-combinations", fdps=ser(pipe), package=pipe_pkg,
             opts="retry-config=%s,transport=grpc" % pipe_cfg),
        dict(name="pipe/unrelated-config", fdps=ser(pipe), package=pipe_pkg,
             opts="retry-config=%s,transport=grpc,autogen-snippets=false" % cat_cfg),
        dict(name="pipe/no-method-configs", fdps=ser(pipe), package=pipe_pkg,
             opts="retry-config=%s,transport=grpc,autogen-snippets=false" % nomethods_cfg),
        dict(name="shop/rest,numeric-enums", fdps=ser(shop), package=shop_pkg,
             opts="retry-config=%s,transport=rest,rest-numeric-enums,autogen-snippets=false"
                  % shop_cfg),
        dict(name="pipe/no-retry-config-at-all", fdps=ser(pipe), package=pipe_pkg,
             opts="transport=grpc+rest"),
        dict(name="pipe/three-configs,last-wins", fdps=ser(pipe), package=pipe_pkg,
             opts="retry-config=%s,retry-config=%s,retry-config=%s,autogen-snippets=false"
                  % (pipe_cfg, cat_cfg, pipe_cfg)),
        dict(name="catalog/multi-line-values,all-mixins,async-rest", fdps=ser(cat),
             package=cat_pkg,
             opts="retry-config=%s,service-yaml=%s,transport=grpc+rest,autogen-snippets=false"
                  % (odd_cfg, yaml_all)),
        dict(name="shop/grpc+rest,old-naming", fdps=ser(shop), package=shop_pkg,
             opts="retry-config=%s,old-naming,transport=grpc+rest,autogen-snippets=false"
                  % shop_cfg),
    ]

    # Malformed configs: both trees have to fail in the same way (same first error).
    sel = [{"service": "foo.bar.v1.Pipe", "method": "Import"}]
    bad = {
        "bad-status-code": {"methodConfig": [
            {"name": sel, "retryPolicy": {"retryableStatusCodes": ["UNAVAILABLE", "NOPE"]}}]},
        "bad-timeout-and-bad-code": {"methodConfig": [
            {"name": sel, "timeout": "soon", "retryPolicy": {"retryableStatusCodes": ["NOPE"]}}]},
        "bad-max-backoff": {"methodConfig": [
            {"name": sel, "timeout": "1.5s", "retryPolicy": {"maxBackoff": "later"}}]},
        "bad-initial-then-max-then-code": {"methodConfig": [
            {"name": sel, "retryPolicy": {"initialBackoff": "1.5n", "maxBackoff": "x",
                                          "retryableStatusCodes": ["NOPE"]}}]},
        "entry-without-name": {"methodConfig": [{"timeout": "1s"}, {"name": sel}]},
        "codes-not-iterable": {"methodConfig": [
            {"name": sel, "retryPolicy": {"retryableStatusCodes": 7}}]},
        "numeric-timeout": {"methodConfig": [{"name": sel, "timeout": 30}]},
        "policy-is-null": {"methodConfig": [{"name": sel, "retryPolicy": None}]},
        "policy-is-list": {"methodConfig": [{"name": sel, "timeout": "1s", "retryPolicy": []}]},
    }
    for key, data in bad.items():
        cases.append(dict(name="malformed/" + key, fdps=ser(pipe), package=pipe_pkg,
                          opts="retry-config=%s,transport=grpc,autogen-snippets=false"
                               % dump("bad-" + key, data),
                          expect_error=True))

    # The service config file itself is unusable / has an unexpected shape.
    not_json = os.path.join(tmp, "not-json.json")
    with open(not_json, "w") as f:
        f.write("{methodConfig: ")
    for key, path, fails in [
        ("missing-file", os.path.join(tmp, "does-not-exist.json"), True),
        ("not-json", not_json, True),
        ("missing-file-then-good", "%s,retry-config=%s"
         % (os.path.join(tmp, "does-not-exist.json"), pipe_cfg), False),
        ("top-level-empty-list", dump("cfg-empty-list", []), False),
        ("top-level-list", dump("cfg-list", [{"methodConfig": []}]), True),
        ("top-level-null", dump("cfg-null", None), False),
        ("method-config-null", dump("cfg-mc-null", {"methodConfig": None}), True),
        ("matching-entry-names-only", dump("cfg-names-only", {"methodConfig": [
            {"name": sel}]}), False),
    ]:
        case = dict(name="config-file/" + key, fdps=ser(pipe), package=pipe_pkg,
                    opts="retry-config=%s,transport=grpc,autogen-snippets=false" % path)
        if fails:
            case["expect_error"] = True
        cases.append(case)
    return cases


def run_tree(tree, tmp, tag, infile):
    outfile = os.path.join(tmp, "out-%s.pkl" % tag)
    env = dict(os.environ, PYTHONHASHSEED="0", PYTHONDONTWRITEBYTECODE="1")
    env.pop("PYTHONPATH", None)
    proc = subprocess.run(
        [sys.executable, os.path.join(tmp, "worker.py"), tree, infile, outfile],
        cwd=tmp, env=env, stdout=subprocess.PIPE, stderr=subprocess.STDOUT, text=True)
    if proc.returncode != 0:
        print("worker failed for the %s tree:\n%s" % (tag, proc.stdout))
        raise SystemExit(2)
    with open(outfile, "rb") as f:
        return pickle.load(f)


def main(argv):
    if len(argv) != 2:
        print(__doc__)
        return 2
    checkout = os.path.realpath(argv[1])
    tmp = tempfile.mkdtemp(prefix="twin-V09-demo-")
    try:
        pristine = os.path.join(tmp, "pristine")
        os.mkdir(pristine)
        archive = subprocess.Popen(["git", "-C", checkout, "archive", "HEAD"],
                                   stdout=subprocess.PIPE)
        subprocess.check_call(["tar", "-x", "-C", pristine], stdin=archive.stdout)
        archive.stdout.close()
        if archive.wait() != 0:
            print("git archive failed")
            return 2

        with open(os.path.join(tmp, "worker.py"), "w") as f:
            f.write(WORKER)
        cases = build_cases(tmp)
        infile = os.path.join(tmp, "cases.pkl")
        with open(infile, "wb") as f:
            pickle.dump(cases, f)

        before = run_tree(pristine, tmp, "pristine", infile)
        after = run_tree(checkout, tmp, "changed", infile)

        problems = []
        n_files = 0
        seen = {"default_retry=retries.Retry(": 0, "default_retry=retries.AsyncRetry(": 0,
                "self.get_location: gapic_v1.method.wrap_method(": 0,
                "self.get_operation: self._wrap_method(": 0}
        async_rest = 0
        for case in cases:
            name = case["name"]
            a, b = before[name], after[name]
            if case.get("expect_error"):
                if "__exception__" not in a:
                    problems.append("%s: expected the pristine tree to fail" % name)
            elif "__exception__" in a:
                problems.append("%s: pristine tree failed: %s\n%s"
                                % (name, a["__exception__"], a.get("__traceback__", "")))
            for fn in sorted(set(a) | set(b)):
                n_files += 1
                if fn not in a:
                    problems.append("%s: only in changed tree: %s" % (name, fn))
                elif fn not in b:
                    problems.append("%s: only in pristine tree: %s" % (name, fn))
                elif a[fn] != b[fn]:
                    problems.append("%s: differs: %s" % (name, fn))
                else:
                    for needle in seen:
                        seen[needle] += needle in a[fn]
                    async_rest += fn.endswith("transports/rest_asyncio.py")

        # Sanity: the inputs really reach the refactored code.
        for needle, count in seen.items():
            if count < 2:
                problems.append("inputs too weak: %r found in %d files only" % (needle, count))
        if async_rest < 2:
            problems.append("inputs too weak: %d rest_asyncio transports" % async_rest)

        if problems:
            print("DIFFERENT: %d problem(s)" % len(problems))
            for p in problems:
                print("  " + p)
            return 1
        print("IDENTICAL: %d cases, %d output files compared byte for byte (%d with sync and "
              "%d with async default_retry tables, %d rest_asyncio transports)"
              % (len(cases), n_files, seen["default_retry=retries.Retry("],
                 seen["default_retry=retries.AsyncRetry("], async_rest))
        return 0
    finally:
        shutil.rmtree(tmp, ignore_errors=True)


if __name__ == "__main__":
    sys.exit(main(sys.argv))
