#!/usr/bin/env python
"""Differential check for the W04 (property C04) refactoring.

Usage:  /venv/bin/python demo.py <path-to-a-checkout-with-the-change>

The script exports the pristine HEAD of the checkout into a temp dir, builds a
handful of API descriptions that exercise the REST transcoding code, runs the
generator on each of them with BOTH trees (pristine export vs. working tree) in
separate subprocesses and compares all emitted files byte for byte.
"""
import os
import pickle
import shutil
import subprocess
import sys
import tempfile


# --------------------------------------------------------------------------- #
# Worker: runs inside a subprocess, with exactly one `gapic` tree importable.  #
# --------------------------------------------------------------------------- #
def _worker(tree: str, cases_path: str, out_path: str) -> None:
    tree = os.path.realpath(tree)

    # The venv has an editable install of another checkout: get rid of every
    # import finder / path entry that could provide `gapic`, then put the tree
    # under test first.
    sys.meta_path[:] = [
        finder
        for finder in sys.meta_path
        if "__editable__" not in getattr(finder, "__module__", "")
        and "__editable__" not in getattr(type(finder), "__module__", "")
        and "__editable__" not in getattr(finder, "__name__", "")
    ]
    for hook_dict in (sys.path_importer_cache,):
        hook_dict.clear()
    kept = []
    for entry in sys.path:
        real = os.path.realpath(entry or os.getcwd())
        if real != tree and os.path.isdir(os.path.join(real, "gapic")):
            continue
        if real == os.path.realpath(os.path.dirname(__file__)):
            # the directory of demo.py itself: nothing to import from there.
            continue
        kept.append(entry)
    sys.path[:] = [tree] + [e for e in kept if os.path.realpath(e or ".") != tree]
    for name in list(sys.modules):
        if name == "gapic" or name.startswith("gapic."):
            del sys.modules[name]

    # pandoc is not installed: stub the conversion identically for both runs.
    import pypandoc  # type: ignore

    def _fake_convert_text(text, to, format=None, extra_args=(), **kwargs):
        return "[[rst:{}:{}]] {}".format(to, ",".join(extra_args), text)

    pypandoc.convert_text = _fake_convert_text

    from google.protobuf import descriptor_pb2

    from gapic.generator import generator as generator_mod
    from gapic.schema import api as api_mod
    from gapic.utils import Options

    with open(cases_path, "rb") as fh:
        cases = pickle.load(fh)

    results = {}
    template_dirs = set()
    for case in cases:
        fds = [descriptor_pb2.FileDescriptorProto.FromString(b) for b in case["fds"]]
        opts = Options.build(case["opts"])
        api_schema = api_mod.API.build(fds, package=case["package"], opts=opts)
        gen = generator_mod.Generator(opts)
        for search_dir in gen._env.loader.searchpath:
            template_dirs.add(os.path.realpath(search_dir))
        response = gen.get_response(api_schema, opts)
        files = {}
        for out_file in response.file:
            assert out_file.name not in files, out_file.name
            files[out_file.name] = out_file.content
        results[case["name"]] = files

    # Every gapic module and every template directory must come from `tree`.
    prefix = tree + os.sep
    loaded = 0
    for name, module in sorted(sys.modules.items()):
        if name == "gapic" or name.startswith("gapic."):
            mod_file = getattr(module, "__file__", None)
            if mod_file is None:
                continue
            loaded += 1
            assert os.path.realpath(mod_file).startswith(prefix), (name, mod_file)
    assert loaded > 10, loaded
    assert template_dirs, "no template directory recorded"
    for template_dir in template_dirs:
        assert template_dir.startswith(prefix), (template_dir, tree)

    with open(out_path, "wb") as fh:
        pickle.dump(results, fh)


# --------------------------------------------------------------------------- #
# Descriptor construction helpers (parent process only).                      #
# --------------------------------------------------------------------------- #
def _build_cases(scratch: str):
    from google.api import annotations_pb2, client_pb2, field_behavior_pb2
    from google.api import http_pb2, resource_pb2, launch_stage_pb2
    from google.longrunning import operations_pb2
    from google.protobuf import any_pb2, descriptor_pb2, duration_pb2, empty_pb2
    from google.protobuf import field_mask_pb2, struct_pb2, timestamp_pb2
    from google.rpc import status_pb2

    FDP = descriptor_pb2.FieldDescriptorProto
    T = FDP.Type

    def dep(module):
        fd = descriptor_pb2.FileDescriptorProto()
        module.DESCRIPTOR.CopyToProto(fd)
        return fd

    dep_modules = [
        descriptor_pb2,
        any_pb2,
        duration_pb2,
        empty_pb2,
        field_mask_pb2,
        struct_pb2,
        timestamp_pb2,
        status_pb2,
        launch_stage_pb2,
        http_pb2,
        annotations_pb2,
        client_pb2,
        field_behavior_pb2,
        resource_pb2,
        operations_pb2,
    ]
    deps = [dep(m) for m in dep_modules]
    dep_names = [d.name for d in deps]

    def field(name, number, ftype, type_name=None, repeated=False, required=False,
              oneof_index=None, optional=False):
        f = FDP(name=name, number=number, type=ftype,
                label=FDP.LABEL_REPEATED if repeated else FDP.LABEL_OPTIONAL)
        if type_name:
            f.type_name = type_name
        if required:
            f.options.Extensions[field_behavior_pb2.field_behavior].append(
                field_behavior_pb2.REQUIRED)
        if oneof_index is not None:
            f.oneof_index = oneof_index
        if optional:
            f.proto3_optional = True
        return f

    def message(name, fields, nested=(), oneofs=(), map_entry=False):
        m = descriptor_pb2.DescriptorProto(name=name)
        m.field.extend(fields)
        m.nested_type.extend(nested)
        for oneof_name in oneofs:
            m.oneof_decl.add(name=oneof_name)
        if map_entry:
            m.options.map_entry = True
        return m

    def http_rule(verb, uri, body=None, additional=()):
        rule = http_pb2.HttpRule()
        if verb == "custom":
            rule.custom.kind = "HEAD"
            rule.custom.path = uri
        else:
            setattr(rule, verb, uri)
        if body is not None:
            rule.body = body
        for extra in additional:
            rule.additional_bindings.append(extra)
        return rule

    def method(name, input_type, output_type, rule=None, client_streaming=False,
               server_streaming=False, signatures=(), lro=None):
        m = descriptor_pb2.MethodDescriptorProto(
            name=name, input_type=input_type, output_type=output_type,
            client_streaming=client_streaming, server_streaming=server_streaming)
        if rule is not None:
            m.options.Extensions[annotations_pb2.http].CopyFrom(rule)
        for sig in signatures:
            m.options.Extensions[client_pb2.method_signature].append(sig)
        if lro:
            info = m.options.Extensions[operations_pb2.operation_info]
            info.response_type, info.metadata_type = lro
        return m

    def service(name, methods, host="library.googleapis.com"):
        s = descriptor_pb2.ServiceDescriptorProto(name=name)
        s.method.extend(methods)
        if host:
            s.options.Extensions[client_pb2.default_host] = host
            s.options.Extensions[client_pb2.oauth_scopes] = (
                "https://www.googleapis.com/auth/cloud-platform")
        return s

    def comment(fd, path, text):
        loc = fd.source_code_info.location.add()
        loc.path.extend(path)
        loc.leading_comments = text

    # ---------------------------------------------------------------- library
    def library_file(pkg="google.cloud.lib.v1", fname="google/cloud/lib/v1/library.proto"):
        p = "." + pkg
        fd = descriptor_pb2.FileDescriptorProto(name=fname, package=pkg, syntax="proto3")
        fd.dependency.extend(dep_names)

        genre = descriptor_pb2.EnumDescriptorProto(name="Genre")
        for i, vname in enumerate(["GENRE_UNSPECIFIED", "FICTION", "SCIENCE"]):
            genre.value.add(name=vname, number=i)
        fd.enum_type.append(genre)

        labels_entry = message("LabelsEntry", [
            field("key", 1, T.TYPE_STRING), field("value", 2, T.TYPE_STRING)],
            map_entry=True)
        book = message("Book", [
            field("name", 1, T.TYPE_STRING),
            field("title", 2, T.TYPE_STRING),
            field("genre", 3, T.TYPE_ENUM, p + ".Genre"),
            field("labels", 4, T.TYPE_MESSAGE, p + ".Book.LabelsEntry", repeated=True),
            field("tags", 5, T.TYPE_STRING, repeated=True),
            field("class", 6, T.TYPE_STRING),
            field("isbn", 7, T.TYPE_INT64, oneof_index=0),
            field("doi", 8, T.TYPE_STRING, oneof_index=0),
            field("update_time", 9, T.TYPE_MESSAGE, ".google.protobuf.Timestamp"),
        ], nested=[labels_entry], oneofs=["identifier"])
        book.options.Extensions[resource_pb2.resource].type = "library.googleapis.com/Book"
        book.options.Extensions[resource_pb2.resource].pattern.append(
            "shelves/{shelf}/books/{book}")

        get_req = message("GetBookRequest", [
            field("name", 1, T.TYPE_STRING, required=True),
            field("view", 2, T.TYPE_ENUM, p + ".Genre"),
        ])
        create_req = message("CreateBookRequest", [
            field("parent", 1, T.TYPE_STRING, required=True),
            field("book", 2, T.TYPE_MESSAGE, p + ".Book", required=True),
            field("book_id", 3, T.TYPE_STRING, required=True),
            field("copies", 4, T.TYPE_INT32, required=True),
            field("validate_only", 5, T.TYPE_BOOL, required=True),
            field("price", 6, T.TYPE_DOUBLE, required=True),
            field("genre", 7, T.TYPE_ENUM, p + ".Genre", required=True),
            field("stamp", 8, T.TYPE_MESSAGE, ".google.protobuf.Timestamp", required=True),
            field("blob", 9, T.TYPE_BYTES, required=True),
            field("big", 10, T.TYPE_UINT64, required=True),
            field("ratio", 11, T.TYPE_FLOAT, required=True),
            field("request_id", 12, T.TYPE_STRING, optional=True, oneof_index=0),
        ], oneofs=["_request_id"])
        update_req = message("UpdateBookRequest", [
            field("book", 1, T.TYPE_MESSAGE, p + ".Book", required=True),
            field("update_mask", 2, T.TYPE_MESSAGE, ".google.protobuf.FieldMask"),
            field("force", 3, T.TYPE_BOOL, required=True),
        ])
        delete_req = message("DeleteBookRequest", [
            field("name", 1, T.TYPE_STRING, required=True),
            field("etag", 2, T.TYPE_STRING),
        ])
        list_req = message("ListBooksRequest", [
            field("parent", 1, T.TYPE_STRING, required=True),
            field("page_size", 2, T.TYPE_INT32),
            field("page_token", 3, T.TYPE_STRING),
            field("filter", 4, T.TYPE_STRING, required=True),
        ])
        list_resp = message("ListBooksResponse", [
            field("books", 1, T.TYPE_MESSAGE, p + ".Book", repeated=True),
            field("next_page_token", 2, T.TYPE_STRING),
        ])
        move_req = message("MoveBookRequest", [
            field("from", 1, T.TYPE_STRING, required=True),
            field("import", 2, T.TYPE_STRING, required=True),
            field("class", 3, T.TYPE_MESSAGE, p + ".Book"),
            field("count", 4, T.TYPE_SINT32, required=True),
        ])
        archive_req = message("ArchiveBooksRequest", [
            field("parent", 1, T.TYPE_STRING, required=True),
            field("reason", 2, T.TYPE_STRING),
        ])
        archive_meta = message("ArchiveBooksMetadata", [
            field("progress", 1, T.TYPE_INT32)])
        archive_resp = message("ArchiveBooksResponse", [
            field("archived", 1, T.TYPE_INT32)])
        note = message("Note", [field("text", 1, T.TYPE_STRING), field("shelf", 2, T.TYPE_STRING)])
        fd.message_type.extend([
            book, get_req, create_req, update_req, delete_req, list_req, list_resp,
            move_req, archive_req, archive_meta, archive_resp, note])

        methods = [
            method("GetBook", p + ".GetBookRequest", p + ".Book",
                   http_rule("get", "/v1/{name=shelves/*/books/*}"), signatures=["name"]),
            method("CreateBook", p + ".CreateBookRequest", p + ".Book",
                   http_rule("post", "/v1/{parent=shelves/*}/books", body="book"),
                   signatures=["parent,book,book_id"]),
            method("UpdateBook", p + ".UpdateBookRequest", p + ".Book",
                   http_rule("patch", "/v1/{book.name=shelves/*/books/*}", body="book",
                             additional=[
                                 http_rule("put", "/v1/{book.name=archives/*/books/**}", body="*"),
                                 http_rule("custom", ""),
                             ]),
                   signatures=["book,update_mask"]),
            method("DeleteBook", p + ".DeleteBookRequest", ".google.protobuf.Empty",
                   http_rule("delete", "/v1/{name=shelves/*/books/*}")),
            method("ListBooks", p + ".ListBooksRequest", p + ".ListBooksResponse",
                   http_rule("get", "/v1/{parent=shelves/*}/books",
                             additional=[http_rule("get", "/v1/{parent=archives/*}/books")]),
                   signatures=["parent"]),
            method("MoveBook", p + ".MoveBookRequest", p + ".Book",
                   http_rule("post", "/v1/{from=shelves/*/books/*}:move/{import}", body="class")),
            method("ArchiveBooks", p + ".ArchiveBooksRequest", ".google.longrunning.Operation",
                   http_rule("post", "/v1/{parent=shelves/*}/books:archive", body="*"),
                   lro=("ArchiveBooksResponse", "ArchiveBooksMetadata")),
            method("StreamBooks", p + ".ListBooksRequest", p + ".Book",
                   http_rule("get", "/v1/{parent=shelves/*}/books:stream"),
                   server_streaming=True),
            method("UploadNotes", p + ".Note", p + ".Book",
                   http_rule("post", "/v1/notes:upload", body="*"), client_streaming=True),
            method("Chat", p + ".Note", p + ".Note",
                   client_streaming=True, server_streaming=True),
            method("Ping", p + ".Note", p + ".Note"),
            method("Legacy", p + ".Note", p + ".Note", http_rule("custom", "")),
            method("Import", p + ".Note", p + ".Note",
                   http_rule("post", "/v1/{shelf}/notes:import", body="*")),
        ]
        fd.service.append(service("Library", methods))
        comment(fd, [6, 0], "A simple *library* service with `markup` in its docs.\n")
        comment(fd, [6, 0, 2, 0], "Gets a book.\n")
        comment(fd, [4, 0], "A single book in the library.\n")
        comment(fd, [4, 1], "Request for [GetBook][google.cloud.lib.v1.Library.GetBook].\n")
        return fd

    # -------------------------------------------------- several services + sub
    def multi_files():
        pkg = "google.cloud.depot.v2"
        p = "." + pkg
        common = descriptor_pb2.FileDescriptorProto(
            name="google/cloud/depot/v2/common.proto", package=pkg, syntax="proto3")
        common.dependency.extend(dep_names)
        common.message_type.extend([
            message("Crate", [
                field("name", 1, T.TYPE_STRING),
                field("weight", 2, T.TYPE_DOUBLE),
                field("inner", 3, T.TYPE_MESSAGE, p + ".Crate.Inner"),
            ], nested=[message("Inner", [field("id", 1, T.TYPE_STRING),
                                         field("global", 2, T.TYPE_STRING)])]),
        ])
        svc = descriptor_pb2.FileDescriptorProto(
            name="google/cloud/depot/v2/depot.proto", package=pkg, syntax="proto3")
        svc.dependency.extend(dep_names + [common.name])
        svc.message_type.extend([
            message("GetCrateRequest", [
                field("crate", 1, T.TYPE_MESSAGE, p + ".Crate", required=True),
                field("depth", 2, T.TYPE_FIXED32, required=True),
            ]),
            message("PutCrateRequest", [
                field("crate", 1, T.TYPE_MESSAGE, p + ".Crate"),
                field("parent", 2, T.TYPE_STRING),
            ]),
        ])
        svc.service.append(service("Depot", [
            method("GetCrate", p + ".GetCrateRequest", p + ".Crate",
                   http_rule("get", "/v2/{crate.inner.id=depots/*/crates/*}/{crate.inner.global}/{depth}")),
            method("PutCrate", p + ".PutCrateRequest", p + ".Crate",
                   http_rule("put", "/v2/{parent=depots/*}/crates", body="crate")),
            method("Wait", ".google.longrunning.GetOperationRequest", ".google.longrunning.Operation",
                   http_rule("get", "/v2/{name=operations/*}")),
            method("Echo", ".google.protobuf.Struct", ".google.protobuf.Struct",
                   http_rule("post", "/v2/echo", body="*")),
        ], host="depot.googleapis.com"))
        svc.service.append(service("Audit", [
            method("Check", p + ".PutCrateRequest", ".google.protobuf.Empty"),
        ], host=None))

        subpkg = pkg + ".admin"
        sp = "." + subpkg
        sub = descriptor_pb2.FileDescriptorProto(
            name="google/cloud/depot/v2/admin/admin.proto", package=subpkg, syntax="proto3")
        sub.dependency.extend(dep_names + [common.name])
        sub.message_type.extend([
            message("PurgeRequest", [
                field("parent", 1, T.TYPE_STRING, required=True),
                field("older_than", 2, T.TYPE_MESSAGE, ".google.protobuf.Duration", required=True),
                field("dry_run", 3, T.TYPE_BOOL),
            ]),
            message("PurgeResponse", [field("count", 1, T.TYPE_INT64)]),
        ])
        sub.service.append(service("Admin", [
            method("Purge", sp + ".PurgeRequest", sp + ".PurgeResponse",
                   http_rule("delete", "/v2/{parent=depots/*}:purge")),
            method("PurgeAll", sp + ".PurgeRequest", sp + ".PurgeResponse"),
        ], host="depot.googleapis.com"))
        return [common, svc, sub]

    # --------------------------------------------------- no annotations at all
    def plain_file():
        pkg = "acme.plain.v1"
        p = "." + pkg
        fd = descriptor_pb2.FileDescriptorProto(
            name="acme/plain/v1/plain.proto", package=pkg, syntax="proto3")
        fd.message_type.extend([
            message("Ask", [field("q", 1, T.TYPE_STRING)]),
            message("Answer", [field("a", 1, T.TYPE_STRING)]),
        ])
        fd.service.append(service("Oracle", [
            method("Consult", p + ".Ask", p + ".Answer"),
            method("Listen", p + ".Ask", p + ".Answer", server_streaming=True),
        ], host=None))
        return fd

    yaml_path = os.path.join(scratch, "depot_v2.yaml")
    with open(yaml_path, "w") as fh:
        fh.write(
            "type: google.api.Service\n"
            "config_version: 3\n"
            "name: depot.googleapis.com\n"
            "apis:\n"
            "- name: google.cloud.depot.v2.Depot\n"
            "- name: google.cloud.location.Locations\n"
            "- name: google.longrunning.Operations\n"
            "http:\n"
            "  rules:\n"
            "  - selector: google.cloud.location.Locations.GetLocation\n"
            "    get: '/v2/{name=projects/*/locations/*}'\n"
            "  - selector: google.cloud.location.Locations.ListLocations\n"
            "    get: '/v2/{name=projects/*}/locations'\n"
            "  - selector: google.longrunning.Operations.CancelOperation\n"
            "    post: '/v2/{name=projects/*/locations/*/operations/*}:cancel'\n"
            "    body: '*'\n"
            "  - selector: google.longrunning.Operations.GetOperation\n"
            "    get: '/v2/{name=projects/*/locations/*/operations/*}'\n"
            "    additional_bindings:\n"
            "    - get: '/v2/{name=operations/*}'\n"
            "  - selector: google.longrunning.Operations.ListOperations\n"
            "    get: '/v2/{name=projects/*/locations/*}/operations'\n"
            "  - selector: google.longrunning.Operations.DeleteOperation\n"
            "    delete: '/v2/{name=projects/*/locations/*/operations/*}'\n"
            "publishing:\n"
            "  library_settings:\n"
            "  - version: google.cloud.depot.v2\n"
            "    python_settings:\n"
            "      experimental_features:\n"
            "        rest_async_io_enabled: true\n"
        )
    lro_yaml_path = os.path.join(scratch, "lib_v1.yaml")
    with open(lro_yaml_path, "w") as fh:
        fh.write(
            "type: google.api.Service\n"
            "config_version: 3\n"
            "name: library.googleapis.com\n"
            "http:\n"
            "  rules:\n"
            "  - selector: google.longrunning.Operations.GetOperation\n"
            "    get: '/v1/{name=shelves/*/operations/*}'\n"
            "  - selector: google.longrunning.Operations.CancelOperation\n"
            "    post: '/v1/{name=shelves/*/operations/*}:cancel'\n"
            "    body: '*'\n"
            "  - selector: some.other.Service.Method\n"
            "    get: '/v1/other'\n"
        )

    def ser(fds):
        return [fd.SerializeToString(deterministic=True) for fd in fds]

    lib = library_file()
    multi = multi_files()
    plain = plain_file()
    cases = [
        dict(name="library-grpc+rest", fds=ser(deps + [lib]), package="google.cloud.lib.v1",
             opts="transport=grpc+rest,metadata,service-yaml=" + lro_yaml_path),
        dict(name="library-rest-numeric-enums", fds=ser(deps + [lib]),
             package="google.cloud.lib.v1",
             opts="transport=rest,rest-numeric-enums,autogen-snippets=false"),
        dict(name="depot-multi-service-mixins-async-rest", fds=ser(deps + multi),
             package="google.cloud.depot.v2",
             # (snippet generation cannot cope with sub-package services, in either tree)
             opts="transport=grpc+rest,autogen-snippets=false,service-yaml=" + yaml_path),
        dict(name="depot-rest-only-iam", fds=ser(deps + multi),
             package="google.cloud.depot.v2",
             opts="transport=rest,add-iam-methods,autogen-snippets=false,service-yaml=" + yaml_path),
        dict(name="plain-grpc-only", fds=ser([plain]), package="acme.plain.v1",
             opts="transport=grpc"),
        dict(name="plain-rest-without-bindings", fds=ser([plain]), package="acme.plain.v1",
             opts="transport=grpc+rest,autogen-snippets=false"),
    ]
    return cases


def main(argv) -> int:
    if len(argv) >= 2 and argv[1] == "--worker":
        _worker(argv[2], argv[3], argv[4])
        return 0
    if len(argv) != 2:
        print(__doc__)
        return 2

    checkout = os.path.realpath(argv[1])
    tmp = tempfile.mkdtemp(prefix="twin-W04-")
    try:
        pristine = os.path.join(tmp, "pristine")
        os.mkdir(pristine)
        archive = subprocess.Popen(
            ["git", "-C", checkout, "archive", "HEAD"], stdout=subprocess.PIPE)
        subprocess.check_call(["tar", "-x", "-C", pristine], stdin=archive.stdout)
        archive.stdout.close()
        if archive.wait() != 0:
            raise RuntimeError("git archive failed")

        scratch = os.path.join(tmp, "inputs")
        os.mkdir(scratch)
        cases = _build_cases(scratch)
        cases_path = os.path.join(tmp, "cases.pkl")
        with open(cases_path, "wb") as fh:
            pickle.dump(cases, fh)

        outputs = {}
        env = dict(os.environ)
        env.pop("PYTHONPATH", None)
        env["PYTHONDONTWRITEBYTECODE"] = "1"
        env["PYTHONHASHSEED"] = "0"
        for label, tree in (("pristine", pristine), ("changed", checkout)):
            out_path = os.path.join(tmp, label + ".pkl")
            subprocess.check_call(
                [sys.executable, os.path.abspath(__file__), "--worker", tree, cases_path, out_path],
                cwd=tmp, env=env)
            with open(out_path, "rb") as fh:
                outputs[label] = pickle.load(fh)

        differing = []
        total = 0
        rest_files = 0
        for case in cases:
            before = outputs["pristine"][case["name"]]
            after = outputs["changed"][case["name"]]
            for fname in sorted(set(before) | set(after)):
                total += 1
                if fname.endswith(("rest.py", "rest_base.py", "rest_asyncio.py")):
                    rest_files += 1
                if fname not in before:
                    differing.append("{}: {} only emitted by the changed tree".format(case["name"], fname))
                elif fname not in after:
                    differing.append("{}: {} only emitted by the pristine tree".format(case["name"], fname))
                elif before[fname] != after[fname]:
                    differing.append("{}: {} differs".format(case["name"], fname))
        if differing:
            print("DIFFERENT: {} of {} files differ".format(len(differing), total))
            for line in differing:
                print("  " + line)
            return 1
        assert rest_files > 0, "no REST transport file was generated"
        print("IDENTICAL: {} cases, {} files ({} REST transport files) byte-identical".format(
            len(cases), total, rest_files))
        return 0
    finally:
        shutil.rmtree(tmp, ignore_errors=True)


if __name__ == "__main__":
    sys.exit(main(sys.argv))
