#!/usr/bin/env python
"""Differential demo for the T20 refactoring (comment wrapping / rst / whitespace).

Usage:  /venv/bin/python demo.py <path-to-a-checkout-with-the-change>

The working tree of <checkout> (with the uncommitted refactoring) is compared
against a pristine export of <checkout>'s HEAD.  Several API descriptions are
generated with both trees (each run in its own subprocess so that the two
copies of the ``gapic`` package never mix) and every output file is compared
byte for byte.  In addition the refactored helper functions themselves
(``wrap``, ``rst``, ``fix_whitespace``, ``Metadata.doc``, ``is_list_item``,
``get_subsequent_line_indentation_level``) are driven with a deterministic
pseudo-random corpus in both trees and their results compared.

Exit status 0 and a one-line summary when everything is identical, 1 (with a
list of the differing files) otherwise.
"""

import hashlib
import json
import os
import shutil
import subprocess
import sys
import tempfile

from google.api import annotations_pb2, client_pb2, field_behavior_pb2, resource_pb2
from google.longrunning import operations_pb2
from google.protobuf import descriptor_pb2 as dp
from google.protobuf import empty_pb2, field_mask_pb2, timestamp_pb2

F = dp.FieldDescriptorProto

# --------------------------------------------------------------------------
# Comment corpus: every feature the wrap/rst code looks at.
# --------------------------------------------------------------------------
LONG = (
    "The quick brown fox jumps over the lazy dog and then keeps running for "
    "quite a long while so that this sentence certainly needs re-flowing."
)
COMMENTS = [
    " A short one-liner.\n",
    " " + LONG + "\n " + LONG + "\n",
    " Ends with a colon:\n then text follows directly.\n\n And a new paragraph.\n",
    " A list follows:\n - first item " + LONG + "\n - second item\n + plus item\n"
    " 1. numbered item " + LONG + "\n 22. double digit item\n",
    " " + LONG + "\n - list directly after an over-long first line\n - more\n",
    " " + LONG + "\n1. Numbered directly after long first line " + LONG + "\n",
    " Has *emphasis*, `code`, a_b, [link](http://x/y-z) and a | pipe.\n"
    " Second markdown line " + LONG + "\n",
    ' Contains """triple quotes""" in plain text\n and continues here.\n',
    ' Ends with a "quote"\n',
    " Ends with a backslash \\\n",
    " Tabs\tinside\tthe text  and   runs   of   spaces.\n\tA tab-led line.\n",
    " https://example.com/a-very-long-url-with-hyphens-" + "x" * 90 + "/end\n next\n",
    " A_very_long_unbreakable_token_" + "y" * 100 + "\n",
    "\n\n Leading blank lines then text.\n\n\n Triple blank above.\n",
    " Short\n lines\n that\n stay.\n A much longer line follows here, "
    + LONG + " " + LONG + "\n tail.\n",
    " Values:\n   FOO: the foo\n   BAR: the bar:\n   BAZ\n",
    " -\n - \n +x\n 1.\n 1. \n 10.x\n",
    " Unicode café — dash, “quotes” and  nbsp.\n",
    " Required. The `name` of the thing.\n Format: projects/{project}/things/{thing}\n",
    "   \n",
]


class Commenter:
    """Hands out comments round-robin and records SourceCodeInfo locations."""

    def __init__(self, fdp, start=0, mode="leading"):
        self.fdp = fdp
        self.i = start
        self.mode = mode

    def add(self, path):
        if self.mode == "none":
            return
        text = COMMENTS[self.i % len(COMMENTS)]
        kind = self.mode
        if kind == "mixed":
            kind = ("leading", "trailing", "detached", "skip", "both")[self.i % 5]
        self.i += 1
        if kind == "skip":
            return
        loc = self.fdp.source_code_info.location.add(path=list(path))
        if kind == "leading":
            loc.leading_comments = text
        elif kind == "trailing":
            loc.trailing_comments = text
        elif kind == "detached":
            loc.leading_detached_comments.append(text)
            loc.leading_detached_comments.append(" second detached block\n")
        else:  # both
            loc.leading_comments = "   \n" if self.i % 2 else text
            loc.trailing_comments = " trailing sibling " + text
            loc.leading_detached_comments.append(" ignored detached\n")


def field(name, number, type_=F.TYPE_STRING, label=F.LABEL_OPTIONAL, type_name=None,
          oneof=None, required=False, ref=None, proto3_optional=False):
    f = F(name=name, number=number, type=type_, label=label,
          json_name="".join(w if i == 0 else w.title()
                            for i, w in enumerate(name.split("_"))))
    if type_name:
        f.type_name = type_name
    if oneof is not None:
        f.oneof_index = oneof
    if proto3_optional:
        f.proto3_optional = True
    if required:
        f.options.Extensions[field_behavior_pb2.field_behavior].append(
            field_behavior_pb2.REQUIRED)
    if ref:
        f.options.Extensions[resource_pb2.resource_reference].type = ref
    return f


def add_message(fdp, cm, name, fields, oneofs=(), resource=None, nested=(), enums=()):
    idx = len(fdp.message_type)
    m = fdp.message_type.add(name=name)
    cm.add([4, idx])
    for j, f in enumerate(fields):
        m.field.append(f)
        cm.add([4, idx, 2, j])
    for j, o in enumerate(oneofs):
        m.oneof_decl.add(name=o)
        cm.add([4, idx, 8, j])
    for j, (nname, nfields, map_entry) in enumerate(nested):
        n = m.nested_type.add(name=nname)
        if map_entry:
            n.options.map_entry = True
        else:
            cm.add([4, idx, 3, j])
        for k, nf in enumerate(nfields):
            n.field.append(nf)
            if not map_entry:
                cm.add([4, idx, 3, j, 2, k])
    for j, (ename, values) in enumerate(enums):
        e = m.enum_type.add(name=ename)
        cm.add([4, idx, 4, j])
        for k, v in enumerate(values):
            e.value.add(name=v, number=k)
            cm.add([4, idx, 4, j, 2, k])
    if resource:
        r = m.options.Extensions[resource_pb2.resource]
        r.type = resource[0]
        r.pattern.extend(resource[1])
    return m


def add_enum(fdp, cm, name, values):
    idx = len(fdp.enum_type)
    e = fdp.enum_type.add(name=name)
    cm.add([5, idx])
    for k, v in enumerate(values):
        e.value.add(name=v, number=k)
        cm.add([5, idx, 2, k])


def add_service(fdp, cm, name, host, methods, scopes=None):
    idx = len(fdp.service)
    s = fdp.service.add(name=name)
    cm.add([6, idx])
    s.options.Extensions[client_pb2.default_host] = host
    if scopes:
        s.options.Extensions[client_pb2.oauth_scopes] = scopes
    for j, spec in enumerate(methods):
        m = s.method.add(name=spec["name"], input_type=spec["in"], output_type=spec["out"])
        m.client_streaming = spec.get("cs", False)
        m.server_streaming = spec.get("ss", False)
        cm.add([6, idx, 2, j])
        if "http" in spec:
            verb, uri, body = spec["http"]
            rule = m.options.Extensions[annotations_pb2.http]
            setattr(rule, verb, uri)
            if body:
                rule.body = body
            for averb, auri, abody in spec.get("extra_http", ()):
                ar = rule.additional_bindings.add()
                setattr(ar, averb, auri)
                if abody:
                    ar.body = abody
        for sig in spec.get("sigs", ()):
            m.options.Extensions[client_pb2.method_signature].append(sig)
        if "lro" in spec:
            info = m.options.Extensions[operations_pb2.operation_info]
            info.response_type, info.metadata_type = spec["lro"]
    return s


def well_known():
    """Descriptors of everything our files import (dependencies first)."""
    seen, out = set(), []

    def visit(fd):
        if fd.name in seen:
            return
        seen.add(fd.name)
        for dep in fd.dependencies:
            visit(dep)
        out.append(dp.FileDescriptorProto.FromString(fd.serialized_pb))

    for mod in (annotations_pb2, client_pb2, field_behavior_pb2, resource_pb2,
                operations_pb2, empty_pb2, field_mask_pb2, timestamp_pb2):
        visit(mod.DESCRIPTOR)
    return out


DEPS = [
    "google/api/annotations.proto", "google/api/client.proto",
    "google/api/field_behavior.proto", "google/api/resource.proto",
    "google/longrunning/operations.proto", "google/protobuf/empty.proto",
    "google/protobuf/field_mask.proto", "google/protobuf/timestamp.proto",
]


def new_file(name, package, extra_deps=()):
    fdp = dp.FileDescriptorProto(name=name, package=package, syntax="proto3")
    fdp.dependency.extend(DEPS + list(extra_deps))
    return fdp


# --------------------------------------------------------------------------
# The API descriptions.
# --------------------------------------------------------------------------
def api_library(mode="leading", start=0):
    """Resources, paging, LRO, maps/repeated/oneof, reserved words, flattening."""
    pkg = "google.example.library.v1"
    fdp = new_file("google/example/library/v1/library.proto", pkg)
    cm = Commenter(fdp, start=start, mode=mode)
    cm.add([12])  # syntax statement
    P = "." + pkg
    add_enum(fdp, cm, "Genre", ["GENRE_UNSPECIFIED", "FICTION", "NONFICTION", "CLASSIC"])
    add_message(
        fdp, cm, "Book",
        [
            field("name", 1),
            field("class", 2),
            field("from", 3, F.TYPE_INT32),
            field("tags", 4, label=F.LABEL_REPEATED),
            field("labels", 5, F.TYPE_MESSAGE, F.LABEL_REPEATED, P + ".Book.LabelsEntry"),
            field("genre", 6, F.TYPE_ENUM, type_name=P + ".Genre"),
            field("isbn", 7, oneof=0),
            field("barcode", 8, F.TYPE_INT64, oneof=0),
            field("create_time", 9, F.TYPE_MESSAGE, type_name=".google.protobuf.Timestamp"),
            field("cover", 10, F.TYPE_MESSAGE, type_name=P + ".Book.Cover"),
            field("subtitle", 11, oneof=1, proto3_optional=True),
            field("raw", 12, F.TYPE_BYTES),
            field("price", 13, F.TYPE_DOUBLE),
            field("in_print", 14, F.TYPE_BOOL),
        ],
        oneofs=["identifier", "_subtitle"],
        resource=("library.example.com/Book", ["shelves/{shelf}/books/{book}"]),
        nested=[
            ("LabelsEntry", [field("key", 1), field("value", 2)], True),
            ("Cover", [field("colour", 1), field("kind", 2, F.TYPE_ENUM,
                                                 type_name=P + ".Book.Binding")], False),
        ],
        enums=[("Binding", ["BINDING_UNSPECIFIED", "HARD", "SOFT"])],
    )
    add_message(fdp, cm, "Shelf", [field("name", 1), field("theme", 2)],
                resource=("library.example.com/Shelf", ["shelves/{shelf}"]))
    add_message(fdp, cm, "GetBookRequest",
                [field("name", 1, required=True, ref="library.example.com/Book")])
    add_message(fdp, cm, "CreateBookRequest", [
        field("parent", 1, required=True, ref="library.example.com/Shelf"),
        field("book", 2, F.TYPE_MESSAGE, type_name=P + ".Book", required=True),
        field("book_id", 3),
    ])
    add_message(fdp, cm, "UpdateBookRequest", [
        field("book", 1, F.TYPE_MESSAGE, type_name=P + ".Book", required=True),
        field("update_mask", 2, F.TYPE_MESSAGE, type_name=".google.protobuf.FieldMask"),
    ])
    add_message(fdp, cm, "DeleteBookRequest",
                [field("name", 1, required=True, ref="library.example.com/Book")])
    add_message(fdp, cm, "ListBooksRequest", [
        field("parent", 1, required=True, ref="library.example.com/Shelf"),
        field("page_size", 2, F.TYPE_INT32),
        field("page_token", 3),
        field("filter", 4),
    ])
    add_message(fdp, cm, "ListBooksResponse", [
        field("books", 1, F.TYPE_MESSAGE, F.LABEL_REPEATED, P + ".Book"),
        field("next_page_token", 2),
    ])
    add_message(fdp, cm, "ImportBooksRequest", [
        field("parent", 1, required=True), field("uris", 2, label=F.LABEL_REPEATED)])
    add_message(fdp, cm, "ImportBooksResponse", [field("count", 1, F.TYPE_INT32)])
    add_message(fdp, cm, "ImportBooksMetadata", [field("progress", 1, F.TYPE_FLOAT)])
    add_service(
        fdp, cm, "LibraryService", "library.example.com",
        [
            dict(name="GetBook", **{"in": P + ".GetBookRequest"}, out=P + ".Book",
                 http=("get", "/v1/{name=shelves/*/books/*}", None), sigs=["name"]),
            dict(name="CreateBook", **{"in": P + ".CreateBookRequest"}, out=P + ".Book",
                 http=("post", "/v1/{parent=shelves/*}/books", "book"),
                 sigs=["parent,book,book_id", "parent,book"]),
            dict(name="UpdateBook", **{"in": P + ".UpdateBookRequest"}, out=P + ".Book",
                 http=("patch", "/v1/{book.name=shelves/*/books/*}", "book"),
                 sigs=["book,update_mask"]),
            dict(name="DeleteBook", **{"in": P + ".DeleteBookRequest"},
                 out=".google.protobuf.Empty",
                 http=("delete", "/v1/{name=shelves/*/books/*}", None), sigs=["name"]),
            dict(name="ListBooks", **{"in": P + ".ListBooksRequest"},
                 out=P + ".ListBooksResponse",
                 http=("get", "/v1/{parent=shelves/*}/books", None), sigs=["parent"]),
            dict(name="ImportBooks", **{"in": P + ".ImportBooksRequest"},
                 out=".google.longrunning.Operation",
                 http=("post", "/v1/{parent=shelves/*}/books:import", "*"),
                 extra_http=[("post", "/v1/{parent=archives/*}/books:import", "*")],
                 lro=("ImportBooksResponse", "ImportBooksMetadata")),
        ],
        scopes="https://www.googleapis.com/auth/cloud-platform,"
               "https://www.googleapis.com/auth/library",
    )
    return pkg, [fdp]


def api_streaming(mode="none"):
    """All four streaming shapes; by default without any SourceCodeInfo."""
    pkg = "example.chat.v1beta1"
    fdp = new_file("example/chat/v1beta1/chat.proto", pkg)
    cm = Commenter(fdp, start=3, mode=mode)
    P = "." + pkg
    add_message(fdp, cm, "Utterance", [
        field("text", 1), field("lambda", 2), field("parts", 3, label=F.LABEL_REPEATED),
        field("meta", 4, F.TYPE_MESSAGE, F.LABEL_REPEATED, P + ".Utterance.MetaEntry"),
    ], nested=[("MetaEntry", [field("key", 1), field("value", 2, F.TYPE_INT64)], True)])
    add_message(fdp, cm, "Reply", [field("text", 1), field("final", 2, F.TYPE_BOOL)])
    add_service(fdp, cm, "Chat", "chat.example.com", [
        dict(name="Say", **{"in": P + ".Utterance"}, out=P + ".Reply",
             http=("post", "/v1beta1/say", "*"), sigs=["text", "text,lambda"]),
        dict(name="Listen", **{"in": P + ".Utterance"}, out=P + ".Reply", ss=True,
             http=("post", "/v1beta1/listen", "*")),
        dict(name="Dictate", **{"in": P + ".Utterance"}, out=P + ".Reply", cs=True),
        dict(name="Converse", **{"in": P + ".Utterance"}, out=P + ".Reply", cs=True, ss=True),
    ])
    return pkg, [fdp]


def api_multi(mode="mixed"):
    """Two files, a sub-package, two services, cross-file references."""
    pkg = "acme.store.v2"
    common = new_file("acme/store/v2/common/types.proto", pkg + ".common")
    cmc = Commenter(common, start=7, mode=mode)
    add_enum(common, cmc, "Currency", ["CURRENCY_UNSPECIFIED", "EUR", "USD"])
    add_message(common, cmc, "Money", [
        field("units", 1, F.TYPE_INT64), field("nanos", 2, F.TYPE_INT32),
        field("currency", 3, F.TYPE_ENUM, type_name=".acme.store.v2.common.Currency"),
    ])
    main = new_file("acme/store/v2/store.proto", pkg, ["acme/store/v2/common/types.proto"])
    cm = Commenter(main, start=11, mode=mode)
    P = "." + pkg
    add_message(main, cm, "Item", [
        field("name", 1), field("price", 2, F.TYPE_MESSAGE,
                                type_name=".acme.store.v2.common.Money"),
        field("global", 3), field("variants", 4, F.TYPE_MESSAGE, F.LABEL_REPEATED, P + ".Item"),
    ], resource=("store.acme.com/Item", ["items/{item}", "stores/{store}/items/{item}"]))
    add_message(main, cm, "GetItemRequest",
                [field("name", 1, required=True, ref="store.acme.com/Item"),
                 field("view", 2, F.TYPE_ENUM, type_name=P + ".GetItemRequest.View")],
                enums=[("View", ["VIEW_UNSPECIFIED", "BASIC", "FULL"])])
    add_message(main, cm, "ListItemsRequest", [
        field("page_size", 1, F.TYPE_INT32), field("page_token", 2),
        field("currency", 3, F.TYPE_ENUM, type_name=".acme.store.v2.common.Currency")])
    add_message(main, cm, "ListItemsResponse", [
        field("items", 1, F.TYPE_MESSAGE, F.LABEL_REPEATED, P + ".Item"),
        field("next_page_token", 2)])
    add_message(main, cm, "Order", [
        field("id", 1), field("total", 2, F.TYPE_MESSAGE,
                              type_name=".acme.store.v2.common.Money")])
    add_service(main, cm, "Catalog", "store.acme.com", [
        dict(name="GetItem", **{"in": P + ".GetItemRequest"}, out=P + ".Item",
             http=("get", "/v2/{name=items/*}", None),
             extra_http=[("get", "/v2/{name=stores/*/items/*}", None)], sigs=["name"]),
        dict(name="ListItems", **{"in": P + ".ListItemsRequest"},
             out=P + ".ListItemsResponse", http=("get", "/v2/items", None)),
    ])
    add_service(main, cm, "Orders", "orders.acme.com:8443", [
        dict(name="PlaceOrder", **{"in": P + ".Order"}, out=P + ".Order",
             http=("post", "/v2/orders", "*"), sigs=["id,total"]),
        dict(name="CancelOrder", **{"in": P + ".Order"}, out=".google.protobuf.Empty",
             http=("post", "/v2/orders/{id}:cancel", "*")),
    ])
    return pkg, [common, main]


def cases():
    lib = api_library("leading", 0)
    return [
        ("library-default", lib, ""),
        ("library-grpc+rest", api_library("leading", 5), "transport=grpc+rest,metadata"),
        ("library-mixed-nosnippets", api_library("mixed", 2),
         "autogen-snippets=false,transport=grpc+rest,rest-numeric-enums"),
        ("streaming-nocomments", api_streaming("none"), "transport=grpc"),
        ("streaming-trailing", api_streaming("trailing"), "transport=grpc+rest,lazy-import"),
        ("multi-rest-numeric", api_multi("mixed"), "transport=rest,rest-numeric-enums"),
        ("multi-detached-oldnaming", api_multi("detached"),
         "old-naming,python-gapic-namespace=acme,python-gapic-name=shop"),
    ]


# --------------------------------------------------------------------------
# Child process: runs ONE tree's generator on every case + the function fuzz.
# --------------------------------------------------------------------------
RUNNER = r'''
import json, random, sys, warnings
tree, job_path, out_path = sys.argv[1:4]
sys.path.insert(0, tree)
warnings.simplefilter("ignore")

import pypandoc
def _fake_convert_text(text, to, format=None, extra_args=()):
    # Deterministic stand-in for pandoc (not installed): identical in both runs.
    return "\n" + text.replace("`", "``") + "  [" + to + "/" + str(format) + "/" + ",".join(extra_args) + "]\n\n"
pypandoc.convert_text = _fake_convert_text

import gapic.utils.lines, gapic.schema.metadata, gapic.generator.formatter
for _n in ("gapic.utils.lines", "gapic.utils.rst", "gapic.schema.metadata", "gapic.generator.formatter"):
    assert sys.modules[_n].__file__.startswith(tree + "/"), sys.modules[_n].__file__
from google.protobuf import descriptor_pb2
from gapic.schema import api as api_mod, metadata
from gapic.generator import generator, formatter
from gapic.utils import Options, lines, rst as rst_fn, wrap as wrap_fn

job = json.load(open(job_path))
result = {}
for case in job["cases"]:
    fds = descriptor_pb2.FileDescriptorSet.FromString(bytes.fromhex(case["fds"]))
    opts = Options.build(case["opts"])
    schema = api_mod.API.build(list(fds.file), package=case["package"], opts=opts)
    res = generator.Generator(opts).get_response(schema, opts)
    files = {}
    for f in res.file:
        assert f.name not in files, f.name
        files[f.name] = f.content
    result[case["name"]] = files

# ---- direct differential fuzz of the refactored functions ------------------
rng = random.Random(20)
words = ["a", "is", "the", "word", "longer-hyphenated-word", "x" * 40, "y" * 95,
         "-", "+", "1.", "12.", "123.", "item:", "colon:", "`code`", "*em*", "a_b",
         "[l]", "|", '"', '"""', "\\", "café", "　", "\x0c", "http://a/b-c"]
seps = [" ", " ", " ", "  ", "\t", "\n", "\n", "\n ", "\n\n", "\n\n\n", ":\n", " \n", "\n- ", "\n+ ", "\n1. ", "\n  "]
def text():
    n = rng.choice([0, 1, 2, 5, 12, 30, 60])
    s = rng.choice(["", "", " ", "\n", "- ", "1. "])
    for _ in range(n):
        s += rng.choice(words) + rng.choice(seps)
    return s
fuzz = []
def rec(fn, *a, **kw):
    try:
        r = fn(*a, **kw)
    except Exception as e:  # identical failures count as identical behaviour
        r = "EXC:" + type(e).__name__ + ":" + str(e)
    fuzz.append(repr(r))
for _ in range(4000):
    t = text()
    width = rng.choice([1, 4, 10, 20, 40, 72, 80, 100])
    indent = rng.choice([0, 0, 2, 4, 8, 12])
    offset = rng.choice([None, 0, 3, indent, indent + 3, width - 1, width, width + 5])
    rec(wrap_fn, t, width, offset=offset, indent=indent)
    rec(wrap_fn, t, width=width, indent=indent)
    rec(rst_fn, t, width, indent, rng.choice([None, True, False]))
    rec(rst_fn, t)
    rec(lines.is_list_item, t); rec(lines.is_list_item, t.strip())
    rec(lines.get_subsequent_line_indentation_level, t)
    rec(lines.get_subsequent_line_indentation_level, t.strip())
for s in ["", "-", "- ", "+ ", "-  ", "- a", "+ a", "1.", "1. ", "1. a", "12. ", "123. x", "a\n- b", "\n", " ", "1.  "]:
    rec(lines.is_list_item, s); rec(lines.get_subsequent_line_indentation_level, s)
    rec(wrap_fn, s, 10); rec(rst_fn, s)

code_bits = ["class A:", "def f():", "@dec", "# c", "_x = 1", "x = 1", "    def g(self):", "    @p",
             "        return 1", "    # n", "    _y = 2", '    """doc', '    """', "", "", "  ", "    ", "\t",
             "        ", "   odd", "\x0c", "pass  ", 's = """', '  """']
for _ in range(3000):
    src = "".join(rng.choice(code_bits) + rng.choice(["\n", "\n", "\n\n", " \n", "\n\n\n\n", "\r\n", ""])
                  for _ in range(rng.choice([0, 1, 3, 8, 20])))
    rec(formatter.fix_whitespace, src)
for files in result.values():
    for content in files.values():
        rec(formatter.fix_whitespace, content)
        rec(formatter.fix_whitespace, content.replace("\n", "\n\n\n  \n"))

for _ in range(1500):
    loc = descriptor_pb2.SourceCodeInfo.Location()
    if rng.random() < .5: loc.leading_comments = rng.choice(["", " ", "\n", text()])
    if rng.random() < .5: loc.trailing_comments = rng.choice(["", " ", "\n", text()])
    for _ in range(rng.choice([0, 0, 1, 3])): loc.leading_detached_comments.append(rng.choice(["", " ", text()]))
    rec(lambda: metadata.Metadata(documentation=loc).doc)
rec(lambda: metadata.Metadata().doc)

result["__functions__"] = {"fuzz/%05d" % i: r for i, r in enumerate(fuzz)}
json.dump(result, open(out_path, "w"))
'''


def main():
    if len(sys.argv) != 2:
        print(__doc__)
        return 2
    checkout = os.path.abspath(sys.argv[1])
    tmp = tempfile.mkdtemp(prefix="twin-T20-demo-")
    try:
        base = os.path.join(tmp, "base")
        os.mkdir(base)
        archive = subprocess.Popen(["git", "-C", checkout, "archive", "HEAD"],
                                   stdout=subprocess.PIPE)
        subprocess.check_call(["tar", "-x", "-C", base], stdin=archive.stdout)
        if archive.wait() != 0:
            raise RuntimeError("git archive failed")

        deps = well_known()
        job = {"cases": []}
        for name, (pkg, fdps), opts in cases():
            fds = dp.FileDescriptorSet(file=deps + fdps)
            job["cases"].append({"name": name, "package": pkg, "opts": opts,
                                 "fds": fds.SerializeToString(deterministic=True).hex()})
        job_path = os.path.join(tmp, "job.json")
        with open(job_path, "w") as fh:
            json.dump(job, fh)
        runner = os.path.join(tmp, "runner.py")
        with open(runner, "w") as fh:
            fh.write(RUNNER)

        env = dict(os.environ, PYTHONHASHSEED="0", PYTHONDONTWRITEBYTECODE="1")
        env.pop("PYTHONPATH", None)
        outs = {}
        procs = []
        for label, tree in (("base", base), ("changed", checkout)):
            out = os.path.join(tmp, label + ".json")
            procs.append((label, out, subprocess.Popen(
                [sys.executable, runner, tree, job_path, out], cwd=tmp, env=env)))
        for label, out, proc in procs:
            if proc.wait() != 0:
                print("FAIL: generator run for the %s tree exited %d" % (label, proc.returncode))
                return 1
            with open(out) as fh:
                outs[label] = json.load(fh)

        diffs = []
        nfiles = 0
        digest = hashlib.sha256()
        a, b = outs["base"], outs["changed"]
        for case in sorted(set(a) | set(b)):
            fa, fb = a.get(case, {}), b.get(case, {})
            for fname in sorted(set(fa) | set(fb)):
                nfiles += 1
                if fname not in fa:
                    diffs.append("%s: %s only with the change" % (case, fname))
                elif fname not in fb:
                    diffs.append("%s: %s only in the baseline" % (case, fname))
                elif fa[fname] != fb[fname]:
                    diffs.append("%s: %s differs" % (case, fname))
                else:
                    digest.update(fname.encode() + b"\0" + fa[fname].encode() + b"\0")
        ncases = len(job["cases"])
        nfuzz = len(a.get("__functions__", {}))
        if set(a) != {c["name"] for c in job["cases"]} | {"__functions__"} or nfuzz == 0:
            diffs.append("internal: missing cases in the baseline output")
        if diffs:
            print("DIFFERENT: %d of %d outputs differ" % (len(diffs), nfiles))
            for d in diffs[:200]:
                print("  " + d)
            return 1
        print("IDENTICAL: %d APIs, %d generated files and %d direct function results "
              "match byte for byte (sha256 %s)"
              % (ncases, nfiles - nfuzz, nfuzz, digest.hexdigest()[:16]))
        return 0
    finally:
        shutil.rmtree(tmp, ignore_errors=True)


if __name__ == "__main__":
    sys.exit(main())
