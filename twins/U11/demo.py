#!/usr/bin/env python
"""Differential check for the U11 refactoring (property C11: emitted file set).

Usage:  /venv/bin/python demo.py <path-to-a-checkout-with-the-change>

The checkout's HEAD is exported to a temp dir (pristine tree); the checkout's
working tree is the refactored tree.  A set of CodeGeneratorRequests is built
in Python (no protoc), each is fed through ``gapic.cli.generate.generate`` with
both trees in separate subprocesses, and the two CodeGeneratorResponses are
compared: ordered file names, file contents (byte for byte), supported_features
and - for requests that must fail - the exception type and message.

Exit 0 + one summary line when everything is identical, exit 1 otherwise.
"""
import os
import pickle
import shutil
import subprocess
import sys
import tempfile

# --------------------------------------------------------------------------
# Worker: runs inside a subprocess, with exactly one tree providing `gapic`.
# --------------------------------------------------------------------------


def _isolate(tree):
    """Make `tree` the only provider of the `gapic` package."""
    import importlib

    tree = os.path.realpath(tree)
    assert not any(
        m == "gapic" or m.startswith("gapic.") for m in sys.modules
    ), "gapic imported too early"
    # Drop the editable-install finder (it maps `gapic` to /repo/gapic) ...
    sys.meta_path[:] = [
        f
        for f in sys.meta_path
        if "editable" not in (getattr(f, "__module__", "") or "").lower()
        and "editable" not in getattr(f, "__name__", "").lower()
    ]
    sys.path_hooks[:] = [
        h
        for h in sys.path_hooks
        if "editable" not in (getattr(h, "__module__", "") or "").lower()
        and "editable" not in getattr(h, "__qualname__", "").lower()
    ]
    # ... and every sys.path entry that has (or pretends to have) a gapic dir.
    kept = []
    for entry in sys.path:
        if "__editable__" in entry or "__path_hook__" in entry:
            continue
        probe = entry or os.getcwd()
        if os.path.isdir(os.path.join(probe, "gapic")):
            continue
        kept.append(entry)
    sys.path[:] = [tree] + kept
    sys.path_importer_cache.clear()
    importlib.invalidate_caches()
    return tree


def _check_origin(tree):
    """Assert that every loaded gapic module and the templates come from tree."""
    prefix = os.path.join(tree, "gapic") + os.sep
    seen = 0
    for name, mod in sorted(sys.modules.items()):
        if name != "gapic" and not name.startswith("gapic."):
            continue
        seen += 1
        fname = getattr(mod, "__file__", None)
        if fname:
            assert os.path.realpath(fname).startswith(prefix), (name, fname)
        paths = [os.path.realpath(p) for p in getattr(mod, "__path__", [])]
        for p in paths:
            assert (p + os.sep).startswith(prefix), (name, p)
    assert seen > 10, seen
    from gapic.utils import Options

    for tdir in Options.build("").templates:
        assert (os.path.realpath(tdir) + os.sep).startswith(prefix), tdir
    return seen


def worker(tree, cases_path, out_path):
    import warnings

    tree = _isolate(tree)
    warnings.simplefilter("ignore")

    import pypandoc

    def _fake_convert_text(source, to=None, format=None, *args, **kwargs):
        return source

    pypandoc.convert_text = _fake_convert_text

    from google.protobuf.compiler import plugin_pb2
    from gapic.cli import generate as cli_generate

    with open(cases_path, "rb") as f:
        cases = pickle.load(f)

    workdir = tempfile.mkdtemp(prefix="u11-worker-", dir=os.path.dirname(out_path))
    results = {}
    for name, req_bytes in cases:
        req_file = os.path.join(workdir, "req.bin")
        res_file = os.path.join(workdir, "res.bin")
        with open(req_file, "wb") as f:
            f.write(req_bytes)
        if os.path.exists(res_file):
            os.unlink(res_file)
        try:
            cli_generate.generate.main(
                args=["--request", req_file, "--output", res_file],
                standalone_mode=False,
            )
        except Exception as exc:  # expected for the deliberately bad requests
            results[name] = {"error": f"{type(exc).__name__}: {exc}"}
            continue
        with open(res_file, "rb") as f:
            res = plugin_pb2.CodeGeneratorResponse.FromString(f.read())
        results[name] = {
            "names": [f.name for f in res.file],
            "files": [(f.name, f.content.encode("utf-8")) for f in res.file],
            "features": res.supported_features,
            "res_error": res.error,
        }
    nmods = _check_origin(tree)
    shutil.rmtree(workdir, ignore_errors=True)
    with open(out_path, "wb") as f:
        pickle.dump({"results": results, "gapic_modules": nmods}, f)


# --------------------------------------------------------------------------
# Request builders (parent process; needs only protobuf + googleapis protos).
# --------------------------------------------------------------------------


def _dep_files():
    """FileDescriptorProtos of the well-known dependencies, topologically."""
    from google.protobuf import descriptor_pb2
    from google.api import (
        annotations_pb2,
        client_pb2,
        field_behavior_pb2,
        resource_pb2,
    )
    from google.longrunning import operations_pb2
    from google.protobuf import (
        empty_pb2,
        field_mask_pb2,
        timestamp_pb2,
    )

    out, seen = [], set()

    def visit(fd):
        if fd.name in seen:
            return
        seen.add(fd.name)
        for dep in fd.dependencies:
            visit(dep)
        out.append(descriptor_pb2.FileDescriptorProto.FromString(fd.serialized_pb))

    for mod in (
        annotations_pb2,
        client_pb2,
        field_behavior_pb2,
        resource_pb2,
        operations_pb2,
        empty_pb2,
        field_mask_pb2,
        timestamp_pb2,
    ):
        visit(mod.DESCRIPTOR)
    return out


class B:
    """Tiny helpers around descriptor_pb2."""

    from google.protobuf import descriptor_pb2 as pb

    T = pb.FieldDescriptorProto

    @classmethod
    def field(cls, name, number, type_, type_name=None, repeated=False, oneof=None,
              required=False, optional=False, resource_ref=None):
        from google.api import field_behavior_pb2, resource_pb2

        f = cls.pb.FieldDescriptorProto(
            name=name,
            number=number,
            type=type_,
            label=cls.T.LABEL_REPEATED if repeated else cls.T.LABEL_OPTIONAL,
            json_name=name,
        )
        if type_name:
            f.type_name = type_name
        if oneof is not None:
            f.oneof_index = oneof
        if optional:
            f.proto3_optional = True
        if required:
            f.options.Extensions[field_behavior_pb2.field_behavior].append(
                field_behavior_pb2.REQUIRED
            )
        if resource_ref:
            f.options.Extensions[resource_pb2.resource_reference].type = resource_ref
        return f

    @classmethod
    def message(cls, name, fields=(), oneofs=(), nested=(), enums=(), resource=None):
        from google.api import resource_pb2

        m = cls.pb.DescriptorProto(name=name)
        m.field.extend(fields)
        for o in oneofs:
            m.oneof_decl.add(name=o)
        m.nested_type.extend(nested)
        m.enum_type.extend(enums)
        if resource:
            r = m.options.Extensions[resource_pb2.resource]
            r.type, pattern = resource
            r.pattern.append(pattern)
        return m

    @classmethod
    def map_entry(cls, name, value_type, value_type_name=None):
        e = cls.pb.DescriptorProto(name=name)
        e.field.append(cls.field("key", 1, cls.T.TYPE_STRING))
        e.field.append(cls.field("value", 2, value_type, value_type_name))
        e.options.map_entry = True
        return e

    @classmethod
    def enum(cls, name, values):
        e = cls.pb.EnumDescriptorProto(name=name)
        for i, v in enumerate(values):
            e.value.add(name=v, number=i)
        return e

    @classmethod
    def method(cls, name, inp, out, http=None, signature=None, lro=None,
               client_streaming=False, server_streaming=False):
        from google.api import annotations_pb2, client_pb2
        from google.longrunning import operations_pb2

        m = cls.pb.MethodDescriptorProto(
            name=name,
            input_type=inp,
            output_type=out,
            client_streaming=client_streaming,
            server_streaming=server_streaming,
        )
        if http:
            verb, uri, body = http
            rule = m.options.Extensions[annotations_pb2.http]
            setattr(rule, verb, uri)
            if body:
                rule.body = body
        if signature is not None:
            m.options.Extensions[client_pb2.method_signature].append(signature)
        if lro:
            info = m.options.Extensions[operations_pb2.operation_info]
            info.response_type, info.metadata_type = lro
        return m

    @classmethod
    def service(cls, name, methods, host="example.googleapis.com", scopes=None):
        from google.api import client_pb2

        s = cls.pb.ServiceDescriptorProto(name=name)
        s.method.extend(methods)
        if host:
            s.options.Extensions[client_pb2.default_host] = host
        if scopes:
            s.options.Extensions[client_pb2.oauth_scopes] = scopes
        return s

    @classmethod
    def file(cls, name, package, deps=(), messages=(), enums=(), services=()):
        f = cls.pb.FileDescriptorProto(name=name, package=package, syntax="proto3")
        f.dependency.extend(deps)
        f.message_type.extend(messages)
        f.enum_type.extend(enums)
        f.service.extend(services)
        return f


def _request(files, targets, parameter):
    from google.protobuf.compiler import plugin_pb2

    req = plugin_pb2.CodeGeneratorRequest(parameter=parameter)
    req.file_to_generate.extend(targets)
    req.proto_file.extend(_dep_files())
    req.proto_file.extend(files)
    return req.SerializeToString()


API_DEPS = (
    "google/api/annotations.proto",
    "google/api/client.proto",
    "google/api/field_behavior.proto",
    "google/api/resource.proto",
)


def _library_files(pkg, directory, types_name="book_types.proto",
                   svc_name="library.proto", with_annotations=True,
                   with_streaming=True, with_lro=True):
    """A rich API: resource, map, oneof, enum, paging, LRO, streaming."""
    T = B.T
    p = "." + pkg
    types_path = f"{directory}/{types_name}"
    svc_path = f"{directory}/{svc_name}"

    book = B.message(
        "Book",
        fields=[
            B.field("name", 1, T.TYPE_STRING),
            B.field("labels", 2, T.TYPE_MESSAGE, p + ".Book.LabelsEntry", repeated=True),
            B.field("tags", 3, T.TYPE_STRING, repeated=True),
            B.field("isbn", 4, T.TYPE_STRING, oneof=0),
            B.field("internal_id", 5, T.TYPE_INT64, oneof=0),
            B.field("genre", 6, T.TYPE_ENUM, p + ".Genre"),
            B.field("cover", 7, T.TYPE_MESSAGE, p + ".Book.Cover"),
            B.field("create_time", 8, T.TYPE_MESSAGE, ".google.protobuf.Timestamp"),
            B.field("class", 9, T.TYPE_STRING),
            B.field("from", 10, T.TYPE_STRING),
            B.field("rating", 11, T.TYPE_DOUBLE, oneof=1, optional=True),
            B.field("chapters", 12, T.TYPE_MESSAGE, p + ".Book.ChaptersEntry", repeated=True),
        ],
        oneofs=["identifier", "_rating"],
        nested=[
            B.map_entry("LabelsEntry", T.TYPE_STRING),
            B.map_entry("ChaptersEntry", T.TYPE_MESSAGE, p + ".Book.Cover"),
            B.message(
                "Cover",
                fields=[B.field("material", 1, T.TYPE_ENUM, p + ".Book.Cover.Material")],
                enums=[B.enum("Material", ["MATERIAL_UNSPECIFIED", "PAPER", "HARD"])],
            ),
        ],
        resource=("example.googleapis.com/Book", "shelves/{shelf}/books/{book}")
        if with_annotations
        else None,
    )
    types_file = B.file(
        types_path,
        pkg,
        deps=["google/api/resource.proto", "google/protobuf/timestamp.proto"],
        messages=[book, B.message("OperationMetadata", [B.field("progress", 1, T.TYPE_INT32)])],
        enums=[B.enum("Genre", ["GENRE_UNSPECIFIED", "FICTION", "None"])],
    )

    ref = "example.googleapis.com/Book" if with_annotations else None
    msgs = [
        B.message("GetBookRequest", [
            B.field("name", 1, T.TYPE_STRING, required=with_annotations, resource_ref=ref)]),
        B.message("ListBooksRequest", [
            B.field("parent", 1, T.TYPE_STRING),
            B.field("page_size", 2, T.TYPE_INT32),
            B.field("page_token", 3, T.TYPE_STRING),
            B.field("filter", 4, T.TYPE_STRING, oneof=0, optional=True)],
            oneofs=["_filter"]),
        B.message("ListBooksResponse", [
            B.field("books", 1, T.TYPE_MESSAGE, p + ".Book", repeated=True),
            B.field("next_page_token", 2, T.TYPE_STRING)]),
        B.message("CreateBookRequest", [
            B.field("parent", 1, T.TYPE_STRING),
            B.field("book", 2, T.TYPE_MESSAGE, p + ".Book"),
            B.field("update_mask", 3, T.TYPE_MESSAGE, ".google.protobuf.FieldMask")]),
        B.message("DeleteBookRequest", [B.field("name", 1, T.TYPE_STRING)]),
    ]
    A = with_annotations
    methods = [
        B.method("GetBook", p + ".GetBookRequest", p + ".Book",
                 http=("get", "/v1/{name=shelves/*/books/*}", None) if A else None,
                 signature="name" if A else None),
        B.method("ListBooks", p + ".ListBooksRequest", p + ".ListBooksResponse",
                 http=("get", "/v1/{parent=shelves/*}/books", None) if A else None,
                 signature="parent" if A else None),
        B.method("DeleteBook", p + ".DeleteBookRequest", ".google.protobuf.Empty",
                 http=("delete", "/v1/{name=shelves/*/books/*}", None) if A else None),
    ]
    if with_lro:
        methods.append(
            B.method("CreateBook", p + ".CreateBookRequest", ".google.longrunning.Operation",
                     http=("post", "/v1/{parent=shelves/*}/books", "book") if A else None,
                     signature="parent,book" if A else None,
                     lro=("Book", "OperationMetadata")))
    if with_streaming:
        methods.append(
            B.method("StreamBooks", p + ".ListBooksRequest", p + ".Book",
                     http=("get", "/v1/{parent=shelves/*}/books:stream", None) if A else None,
                     server_streaming=True))
        methods.append(
            B.method("Chat", p + ".Book", p + ".Book",
                     client_streaming=True, server_streaming=True))
    svc_file = B.file(
        svc_path,
        pkg,
        deps=list(API_DEPS) + [
            types_path,
            "google/longrunning/operations.proto",
            "google/protobuf/empty.proto",
            "google/protobuf/field_mask.proto",
        ],
        messages=msgs,
        services=[B.service(
            "Library", methods,
            host="library.googleapis.com" if A else None,
            scopes="https://www.googleapis.com/auth/cloud-platform" if A else None)],
    )
    return [types_file, svc_file]


def _simple_service_file(path, pkg, svc_names, deps=(), msg_prefix="", http_prefix="/v1"):
    T = B.T
    p = "." + pkg
    req = B.message(msg_prefix + "PingRequest", [B.field("name", 1, T.TYPE_STRING)])
    res = B.message(msg_prefix + "PingResponse", [B.field("payload", 1, T.TYPE_BYTES)])
    services = []
    for s in svc_names:
        services.append(B.service(s, [
            B.method("Ping", f"{p}.{msg_prefix}PingRequest", f"{p}.{msg_prefix}PingResponse",
                     http=("post", f"{http_prefix}/{{name=things/*}}:ping{s}", "*"),
                     signature="name"),
            B.method("Watch", f"{p}.{msg_prefix}PingRequest", f"{p}.{msg_prefix}PingResponse",
                     http=("get", f"{http_prefix}/{{name=things/*}}:watch{s}", None),
                     server_streaming=True),
        ], host="things.example.com"))
    return B.file(path, pkg, deps=list(API_DEPS) + list(deps), messages=[req, res],
                  services=services)


def build_cases(tmpdir):
    T = B.T
    cases = []

    # 1. google.cloud.library.v1: two target files, many dependency-only files,
    #    default transports, default options.
    files = _library_files("google.cloud.library.v1", "google/cloud/library/v1")
    cases.append(("library_v1_default", _request(files, [f.name for f in files], "")))

    # 2. Same API, only ONE of the two files listed in file_to_generate (the
    #    other still belongs to the package), grpc+rest, numeric enums, metadata,
    #    unknown / foreign options, repeated keys.
    cases.append(("library_v1_rest_opts", _request(
        files, [files[1].name],
        "transport=grpc+rest,rest-numeric-enums,metadata,foo=bar,go-gapic-package=x,"
        "python-gapic-bogus=1,transport=rest,lazy-import")))

    # 3. Unversioned package without namespace; file names needing sanitising
    #    (dots, keyword, clash after sanitising); no annotations; no snippets.
    f_import = B.file("acme/import.proto", "acme",
                      messages=[B.message("Imported", [B.field("x", 1, T.TYPE_INT32)])])
    f_clash = B.file("acme/my_weird.proto", "acme",
                     messages=[B.message("Plain", [B.field("y", 1, T.TYPE_STRING)])])
    f_dots = B.file("acme/my.weird.proto", "acme",
                    deps=["acme/import.proto"],
                    messages=[B.message("Dotted", [
                        B.field("imported", 1, T.TYPE_MESSAGE, ".acme.Imported")])],
                    enums=[B.enum("Mode", ["MODE_UNSPECIFIED", "ON"])])
    f_empty = B.file("acme/nothing_here.proto", "acme")
    lib = _library_files("acme", "acme", types_name="request.proto",
                         svc_name="acme_service.proto", with_annotations=False,
                         with_lro=False)
    files3 = [f_import, f_clash, f_dots, f_empty] + lib
    cases.append(("acme_unversioned", _request(
        files3, [f.name for f in files3], "autogen-snippets=false,transport=grpc")))

    # 4. Sub-packages, several services (two in one file), name / namespace /
    #    warehouse overrides (repeated keys), metadata.
    pkg = "google.ads.thing.v3"
    res_file = B.file(
        "google/ads/thing/v3/resources/campaign.proto", pkg + ".resources",
        messages=[B.message("Campaign", [
            B.field("resource_name", 1, T.TYPE_STRING),
            B.field("status", 2, T.TYPE_ENUM, f".{pkg}.enums.StatusEnum.Status")])],
        deps=["google/ads/thing/v3/enums/status.proto"])
    enum_file = B.file(
        "google/ads/thing/v3/enums/status.proto", pkg + ".enums",
        messages=[B.message("StatusEnum", enums=[
            B.enum("Status", ["UNSPECIFIED", "ENABLED", "REMOVED"])])])
    svc_a = _simple_service_file(
        "google/ads/thing/v3/services/campaign_service.proto", pkg + ".services",
        ["CampaignService", "CampaignBudgetService"],
        deps=[res_file.name], http_prefix="/v3")
    svc_b = _simple_service_file(
        "google/ads/thing/v3/services/ad_service.proto", pkg + ".services",
        ["AdService"], msg_prefix="Ad", http_prefix="/v3")
    top = B.file("google/ads/thing/v3/common.proto", pkg,
                 messages=[B.message("Money", [B.field("micros", 1, T.TYPE_INT64)])])
    files4 = [enum_file, res_file, top, svc_a, svc_b]
    cases.append(("ads_subpackages_overrides", _request(
        files4, [f.name for f in files4],
        "python-gapic-namespace=Acme.Corp,python-gapic-name=ignored_name,"
        "python-gapic-name=thing_manager,warehouse-package-name=acme-thing,"
        "metadata,transport=grpc+rest,autogen-snippets=false")))

    # 5. Same files, sub-packages only (char-wise common prefix ends inside a
    #    segment: "...v3.services" / "...v3.shared"), old naming.
    shared = B.file("google/ads/thing/v3/shared/money.proto", pkg + ".shared",
                    messages=[B.message("Money", [B.field("micros", 1, T.TYPE_INT64)])])
    svc_c = _simple_service_file(
        "google/ads/thing/v3/services/ad_service.proto", pkg + ".services",
        ["AdService"], deps=[shared.name], http_prefix="/v3")
    files5 = [shared, svc_c]
    cases.append(("ads_charwise_prefix", _request(
        files5, [f.name for f in files5], "autogen-snippets=False")))
    # (snippet generation does not support services in sub-packages: this one
    # is rejected with a KeyError by both trees)
    cases.append(("ads_snippets_rejected", _request(files5, [f.name for f in files5], "")))
    cases.append(("ads_old_naming", _request(
        files4, [f.name for f in files4], "old-naming")))

    # 6. Three namespace segments, v1p1beta1, service yaml with experimental
    #    features; rest only.
    pkg6 = "alpha.beta.gamma.widgets.v1p1beta1"
    files6 = _library_files(pkg6, "alpha/beta/gamma/widgets/v1p1beta1",
                            with_streaming=False)
    yaml_async = os.path.join(tmpdir, "svc_async.yaml")
    with open(yaml_async, "w") as f:
        f.write(
            "type: google.api.Service\n"
            "config_version: 3\n"
            "name: widgets.example.com\n"
            "apis:\n"
            "- name: google.cloud.location.Locations\n"
            "publishing:\n"
            "  library_settings:\n"
            f"  - version: {pkg6}\n"
            "    python_settings:\n"
            "      experimental_features:\n"
            "        rest_async_io_enabled: true\n"
        )
    yaml_unversioned = os.path.join(tmpdir, "svc_unversioned.yaml")
    with open(yaml_unversioned, "w") as f:
        f.write(
            "type: google.api.Service\n"
            "config_version: 3\n"
            "name: widgets.example.com\n"
            "publishing:\n"
            "  library_settings:\n"
            f"  - version: {pkg6}\n"
            "    python_settings:\n"
            "      experimental_features:\n"
            "        unversioned_package_disabled: true\n"
        )
    names6 = [f.name for f in files6]
    cases.append(("widgets_rest_async", _request(
        files6, names6, f"transport=rest,service-yaml={yaml_async}")))
    cases.append(("widgets_grpc_rest_async", _request(
        files6, names6, f"transport=grpc+rest,service-yaml={yaml_async},rest-numeric-enums")))
    cases.append(("widgets_rest_only_no_async", _request(files6, names6, "transport=rest")))
    cases.append(("widgets_unversioned_disabled", _request(
        files6, names6, f"service-yaml={yaml_unversioned}")))

    # 7. v1beta1, single namespace segment, service without methods, a file
    #    with only an enum, and a target file that also appears twice in
    #    file_to_generate.
    pkg7 = "example.tiny.v1beta1"
    f_enum = B.file("example/tiny/v1beta1/kinds.proto", pkg7,
                    enums=[B.enum("Kind", ["KIND_UNSPECIFIED", "A"])])
    f_svc = B.file("example/tiny/v1beta1/tiny.proto", pkg7, deps=list(API_DEPS),
                   services=[B.service("Hollow", [], host="tiny.example.com")])
    cases.append(("tiny_v1beta1", _request(
        [f_enum, f_svc], [f_enum.name, f_svc.name, f_svc.name], "transport=grpc+rest")))

    # 8. Must fail: no common root package / nothing to generate.
    fa = B.file("foo/v1/a.proto", "foo.v1",
                messages=[B.message("A", [B.field("x", 1, T.TYPE_INT32)])])
    fb = B.file("bar/v1/b.proto", "bar.v1",
                messages=[B.message("Bm", [B.field("x", 1, T.TYPE_INT32)])])
    cases.append(("error_no_common_package", _request([fa, fb], [fa.name, fb.name], "")))
    cases.append(("nothing_listed_to_generate", _request([fa], [], "")))
    # Differently versioned packages under one root (versions conflict).
    fc = B.file("foo/v2/c.proto", "foo.v2",
                messages=[B.message("C", [B.field("x", 1, T.TYPE_INT32)])])
    cases.append(("two_versions_one_root", _request([fa, fc], [fa.name, fc.name], "")))
    return cases


# --------------------------------------------------------------------------
# Parent
# --------------------------------------------------------------------------


def main(argv):
    if len(argv) >= 2 and argv[1] == "--worker":
        worker(argv[2], argv[3], argv[4])
        return 0
    if len(argv) != 2:
        print(__doc__)
        return 2
    checkout = os.path.realpath(argv[1])
    tmpdir = tempfile.mkdtemp(prefix="u11-demo-")
    try:
        pristine = os.path.join(tmpdir, "pristine")
        os.mkdir(pristine)
        archive = subprocess.Popen(
            ["git", "-C", checkout, "archive", "HEAD"], stdout=subprocess.PIPE
        )
        subprocess.check_call(["tar", "-x", "-C", pristine], stdin=archive.stdout)
        archive.stdout.close()
        if archive.wait() != 0:
            raise RuntimeError("git archive failed")

        cases = build_cases(tmpdir)
        cases_path = os.path.join(tmpdir, "cases.pkl")
        with open(cases_path, "wb") as f:
            pickle.dump(cases, f)

        env = dict(os.environ)
        env.pop("PYTHONPATH", None)
        env["PYTHONHASHSEED"] = "0"
        env["PYTHONDONTWRITEBYTECODE"] = "1"
        procs = {}
        for label, tree in (("pristine", pristine), ("changed", checkout)):
            out_path = os.path.join(tmpdir, f"out-{label}.pkl")
            procs[label] = (
                subprocess.Popen(
                    [sys.executable, os.path.abspath(__file__), "--worker", tree,
                     cases_path, out_path],
                    cwd=tmpdir, env=env,
                ),
                out_path,
            )
        outs = {}
        for label, (proc, out_path) in procs.items():
            if proc.wait() != 0:
                print(f"worker for the {label} tree failed (exit {proc.returncode})")
                return 1
            with open(out_path, "rb") as f:
                outs[label] = pickle.load(f)

        a, b = outs["pristine"]["results"], outs["changed"]["results"]
        problems = []
        n_files = n_errors = 0
        for name, _ in cases:
            ra, rb = a[name], b[name]
            if ("error" in ra) or ("error" in rb):
                if ra != rb:
                    problems.append(f"{name}: outcome differs: {ra.get('error')!r} vs {rb.get('error')!r}")
                else:
                    n_errors += 1
                continue
            if ra["names"] != rb["names"]:
                only_a = sorted(set(ra["names"]) - set(rb["names"]))
                only_b = sorted(set(rb["names"]) - set(ra["names"]))
                problems.append(
                    f"{name}: file name lists differ (only pristine: {only_a}; "
                    f"only changed: {only_b}; same set, other order/multiplicity: "
                    f"{not only_a and not only_b})")
            if ra["features"] != rb["features"] or ra["res_error"] != rb["res_error"]:
                problems.append(f"{name}: supported_features / error differ")
            da, db = dict(ra["files"]), dict(rb["files"])
            for fname in sorted(set(da) & set(db)):
                if da[fname] != db[fname]:
                    problems.append(f"{name}: content differs: {fname}")
            if not ra["names"]:
                problems.append(f"{name}: generated nothing (test input is useless)")
            n_files += len(ra["names"])
        if problems:
            print(f"DIFFERENT: {len(problems)} problem(s)")
            for p in problems:
                print("  " + p)
            return 1
        print(
            f"IDENTICAL: {len(cases)} requests ({n_errors} rejected identically), "
            f"{n_files} output files compared byte for byte; gapic modules checked: "
            f"{outs['pristine']['gapic_modules']}/{outs['changed']['gapic_modules']}"
        )
        return 0
    finally:
        shutil.rmtree(tmpdir, ignore_errors=True)


if __name__ == "__main__":
    sys.exit(main(sys.argv))
