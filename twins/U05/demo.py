#!/usr/bin/env python
"""Differential demo for the U05 behaviour-preserving refactoring (property C05).

Usage:  /venv/bin/python demo.py <path-to-a-checkout-with-the-change>

* exports the checkout's HEAD (``git archive HEAD``) into a temp dir  -> "base" tree
* uses the checkout's working tree (with the uncommitted change)       -> "new" tree
* builds several API descriptions (FileDescriptorProtos built in Python),
  runs the generator on each of them with BOTH trees (in subprocesses, so the
  two copies of the ``gapic`` package never mix) and compares every generated
  file byte for byte (names and contents).

Exit 0 + one summary line when everything is identical, exit 1 otherwise.
"""
import hashlib
import os
import pickle
import shutil
import subprocess
import sys
import tempfile


# --------------------------------------------------------------------------
# Worker: runs inside a subprocess, with exactly one tree importable.
# --------------------------------------------------------------------------
def _isolate(tree):
    """Make `tree` the only provider of the `gapic` namespace package."""
    tree = os.path.realpath(tree)
    # Drop editable-install finders (the venv has an editable install of
    # another checkout) and their path hooks.
    sys.meta_path[:] = [
        f
        for f in sys.meta_path
        if "editable" not in (getattr(f, "__module__", "") or "").lower()
        and "editable" not in getattr(f, "__name__", type(f).__name__).lower()
    ]
    sys.path_hooks[:] = [
        h
        for h in sys.path_hooks
        if "editable" not in (getattr(h, "__module__", "") or "").lower()
        and "editable" not in (getattr(h, "__qualname__", "") or "").lower()
    ]
    keep = []
    for entry in sys.path:
        if "__editable__" in entry:
            continue
        real = os.path.realpath(entry or os.getcwd())
        if real != tree and os.path.isdir(os.path.join(real, "gapic")):
            continue
        if real == tree:
            continue
        keep.append(entry)
    sys.path[:] = [tree] + keep
    sys.path_importer_cache.clear()
    for name in list(sys.modules):
        if name == "gapic" or name.startswith("gapic."):
            del sys.modules[name]
    return tree


def worker(tree, in_path, out_path):
    tree = _isolate(tree)

    # pandoc is not installed: stub the conversion identically for both runs.
    import pypandoc  # type: ignore

    def _convert_text(text, to, format=None, extra_args=(), **kw):
        return "\n".join(line.rstrip() for line in str(text).split("\n"))

    pypandoc.convert_text = _convert_text

    from google.protobuf import descriptor_pb2

    import gapic
    from gapic.generator import Generator
    from gapic.schema.api import API
    from gapic.utils import Options

    assert [os.path.realpath(p) for p in gapic.__path__] == [
        os.path.join(tree, "gapic")
    ], list(gapic.__path__)

    with open(in_path, "rb") as fh:
        cases = pickle.load(fh)

    results = {}
    for case in cases:
        fdps = [descriptor_pb2.FileDescriptorProto.FromString(b) for b in case["files"]]
        opts = Options.build(case["options"])
        for tdir in opts.templates:
            assert os.path.realpath(tdir).startswith(tree + os.sep), tdir
        api = API.build(fdps, package=case["package"], opts=opts)
        response = Generator(opts).get_response(api, opts)
        files = {}
        for f in response.file:
            assert f.name not in files, f.name
            files[f.name] = f.content
        # Also record what the refactored schema helpers return directly
        # (``include_optional=True`` is not used by any default template).
        lines = []
        for svc_name, svc in api.services.items():
            for m_name, m in svc.methods.items():
                lines.append("%s.%s" % (svc_name, m_name))
                lines.append("  flattened: %r" % [
                    (k, f.name, str(f.ident)) for k, f in m.flattened_fields.items()])
                lines.append("  to_key: %r" % list(m.flattened_field_to_key.items()))
                lines.append("  legacy: %r" % list(m.legacy_flattened_fields))
                for flag in (False, True):
                    groups = m.flattened_oneof_fields(include_optional=flag)
                    lines.append("  oneofs(%s): %s %r" % (
                        flag, type(groups).__name__,
                        [(k, [f.name for f in v]) for k, v in groups.items()]))
        files["__schema_helpers__.txt"] = "\n".join(lines) + "\n"
        results[case["name"]] = files

    for name, mod in sorted(sys.modules.items()):
        if name == "gapic" or name.startswith("gapic."):
            origin = getattr(mod, "__file__", None)
            if origin is None:  # the namespace package itself
                paths = [os.path.realpath(p) for p in mod.__path__]
                assert all(p.startswith(tree + os.sep) for p in paths), (name, paths)
            else:
                assert os.path.realpath(origin).startswith(tree + os.sep), (
                    name,
                    origin,
                )

    with open(out_path, "wb") as fh:
        pickle.dump(results, fh)


# --------------------------------------------------------------------------
# Descriptor construction helpers (parent process only).
# --------------------------------------------------------------------------
def build_cases():
    from google.api import annotations_pb2, client_pb2, field_behavior_pb2
    from google.longrunning import operations_pb2
    from google.protobuf import descriptor_pb2 as dp
    from google.protobuf import empty_pb2, field_mask_pb2, struct_pb2

    F = dp.FieldDescriptorProto
    OPT, REP = F.LABEL_OPTIONAL, F.LABEL_REPEATED

    def dep_closure(*modules):
        """FileDescriptorProtos of the modules and their deps, deps first."""
        seen, out = set(), []

        def visit(fd):
            if fd.name in seen:
                return
            seen.add(fd.name)
            for d in fd.dependencies:
                visit(d)
            fdp = dp.FileDescriptorProto()
            fd.CopyToProto(fdp)
            out.append(fdp)

        for m in modules:
            visit(m.DESCRIPTOR)
        return out

    common = dep_closure(
        annotations_pb2,
        client_pb2,
        field_behavior_pb2,
        operations_pb2,
        empty_pb2,
        field_mask_pb2,
        struct_pb2,
    )
    common_names = [f.name for f in common]

    def fld(name, number, type_, label=OPT, type_name=None, oneof=None,
            optional=False, required=False):
        f = F(name=name, number=number, type=type_, label=label)
        if type_name:
            f.type_name = type_name
        if oneof is not None:
            f.oneof_index = oneof
        if optional:
            f.proto3_optional = True
        if required:
            f.options.Extensions[field_behavior_pb2.field_behavior].append(
                field_behavior_pb2.FieldBehavior.Value("REQUIRED")
            )
        return f

    def s(name, number, **kw):
        return fld(name, number, F.TYPE_STRING, **kw)

    def i32(name, number, **kw):
        return fld(name, number, F.TYPE_INT32, **kw)

    def msgf(name, number, type_name, **kw):
        return fld(name, number, F.TYPE_MESSAGE, type_name=type_name, **kw)

    def enumf(name, number, type_name, **kw):
        return fld(name, number, F.TYPE_ENUM, type_name=type_name, **kw)

    def message(name, fields, oneofs=(), maps=(), pkg=None):
        """maps: (field_name, number, value_field_proto_factory)"""
        m = dp.DescriptorProto(name=name)
        for o in oneofs:
            m.oneof_decl.add(name=o)
        m.field.extend(fields)
        for map_name, number, value in maps:
            entry_name = (
                "".join(p.capitalize() for p in map_name.split("_")) + "Entry"
            )
            entry = m.nested_type.add(name=entry_name)
            entry.options.map_entry = True
            entry.field.append(s("key", 1))
            entry.field.append(value)
            m.field.append(
                msgf(map_name, number, ".%s.%s.%s" % (pkg, name, entry_name), label=REP)
            )
        return m

    def method(name, inp, out, sigs=(), http=None, cs=False, ss=False,
               lro=None, deprecated=False):
        m = dp.MethodDescriptorProto(
            name=name, input_type=inp, output_type=out,
            client_streaming=cs, server_streaming=ss,
        )
        for sig in sigs:
            m.options.Extensions[client_pb2.method_signature].append(sig)
        if http:
            rule = m.options.Extensions[annotations_pb2.http]
            verb, path, body = http
            setattr(rule, verb, path)
            if body:
                rule.body = body
        if lro:
            info = m.options.Extensions[operations_pb2.operation_info]
            info.response_type, info.metadata_type = lro
        if deprecated:
            m.options.deprecated = True
        return m

    def service(name, host, methods):
        svc = dp.ServiceDescriptorProto(name=name)
        svc.options.Extensions[client_pb2.default_host] = host
        svc.options.Extensions[client_pb2.oauth_scopes] = (
            "https://www.googleapis.com/auth/cloud-platform"
        )
        svc.method.extend(methods)
        return svc

    def add_docs(fdp):
        """Attach leading comments to every top-level message, field,
        service and method so that the docstring loops render real text."""
        sci = fdp.source_code_info
        for mi, m in enumerate(fdp.message_type):
            sci.location.add(path=[4, mi], span=[0, 0, 0],
                             leading_comments=" The %s message.\n" % m.name)
            for fi, f in enumerate(m.field):
                sci.location.add(
                    path=[4, mi, 2, fi], span=[0, 0, 0],
                    leading_comments=" The %s of the %s.\n Second line.\n"
                    % (f.name.replace("_", " "), m.name),
                )
        for si, svc in enumerate(fdp.service):
            sci.location.add(path=[6, si], span=[0, 0, 0],
                             leading_comments=" The %s service.\n" % svc.name)
            for mi, m in enumerate(svc.method):
                sci.location.add(path=[6, si, 2, mi], span=[0, 0, 0],
                                 leading_comments=" Calls %s.\n" % m.name)
        return fdp

    def proto_file(name, package, deps, messages=(), enums=(), services=()):
        fdp = dp.FileDescriptorProto(name=name, package=package, syntax="proto3")
        fdp.dependency.extend(deps)
        fdp.message_type.extend(messages)
        fdp.enum_type.extend(enums)
        fdp.service.extend(services)
        return add_docs(fdp)

    def enum(name, *values):
        e = dp.EnumDescriptorProto(name=name)
        for i, v in enumerate(values):
            e.value.add(name=v, number=i)
        return e

    def ser(fdps):
        return [f.SerializeToString(deterministic=True) for f in fdps]

    EMPTY = ".google.protobuf.Empty"
    OPERATION = ".google.longrunning.Operation"
    cases = []

    # ---------------------------------------------------------------- API 1
    # Library: every flattened-field shape with a request in the API package.
    P = "example.library.v1"
    D = "." + P
    lib_msgs = [
        message("Book", [
            s("name", 1), s("title", 2), i32("pages", 3),
            s("class", 4), msgf("spec", 5, D + ".Spec"),
        ]),
        message("Spec", [s("from", 1), s("language", 2), msgf("inner", 3, D + ".Inner")]),
        message("Inner", [s("code", 1), s("tags", 2, label=REP)]),
        message("Meta", [s("progress", 1)]),
        message("GetBookRequest", [s("name", 1, required=True)]),
        message("DeleteBookRequest", [s("name", 1), fld("force", 2, F.TYPE_BOOL)]),
        message("CreateBookRequest", [
            s("parent", 1, required=True), msgf("book", 2, D + ".Book", required=True),
            s("book_id", 3),
        ]),
        message("UpdateBookRequest", [
            msgf("book", 1, D + ".Book"),
            msgf("update_mask", 2, ".google.protobuf.FieldMask"),
        ]),
        message("ListBooksRequest", [
            s("parent", 1), i32("page_size", 2), s("page_token", 3), s("filter", 4),
        ]),
        message("ListBooksResponse", [
            msgf("books", 1, D + ".Book", label=REP), s("next_page_token", 2),
        ]),
        # reserved words, builtins and the generator's own reserved names
        message("WeirdRequest", [
            s("class", 1), s("from", 2), i32("in", 3), s("request", 4),
            s("timeout", 5), s("type", 6), msgf("spec", 7, D + ".Spec"),
            s("import", 8, label=REP),
        ]),
        # repeated / map / struct / enum / oneof / proto3 optional
        message("ShapesRequest", [
            s("names", 1, label=REP),
            msgf("books", 2, D + ".Book", label=REP),
            msgf("values", 3, ".google.protobuf.Value", label=REP),
            msgf("value", 4, ".google.protobuf.Value"),
            enumf("genre", 5, D + ".Genre"),
            enumf("genres", 6, D + ".Genre", label=REP),
            s("by_title", 7, oneof=0), i32("by_pages", 8, oneof=0),
            msgf("by_book", 9, D + ".Book", oneof=0),
            s("nickname", 10, oneof=1, optional=True),
            fld("payload", 11, F.TYPE_BYTES),
            fld("ratio", 12, F.TYPE_DOUBLE),
            msgf("payload_struct", 13, ".google.protobuf.Struct"),
        ], oneofs=("selector", "_nickname"), maps=[
            ("labels", 20, s("value", 2)),
            ("books_by_id", 21, msgf("value", 2, D + ".Book")),
            ("counts", 22, i32("value", 2)),
        ], pkg=P),
        message("ShapesResponse", [s("summary", 1)]),
        message("NoSigRequest", [s("name", 1), s("extra", 2)]),
    ]
    lib_methods = [
        method("GetBook", D + ".GetBookRequest", D + ".Book", ["name"],
               ("get", "/v1/{name=books/*}", None)),
        method("CreateBook", D + ".CreateBookRequest", D + ".Book",
               ["parent,book,book_id", "parent,book"],
               ("post", "/v1/{parent=shelves/*}/books", "book")),
        method("UpdateBook", D + ".UpdateBookRequest", D + ".Book",
               ["book,update_mask", "book.name, book.title ,book.class,book.spec.from,book.spec.inner.tags"],
               ("patch", "/v1/{book.name=books/*}", "book")),
        method("DeleteBook", D + ".DeleteBookRequest", EMPTY, ["name", "name,force"],
               ("delete", "/v1/{name=books/*}", None)),
        method("ListBooks", D + ".ListBooksRequest", D + ".ListBooksResponse",
               ["parent", "parent,filter"], ("get", "/v1/{parent=shelves/*}/books", None)),
        method("Weird", D + ".WeirdRequest", D + ".Book",
               ["class,from,in,request,timeout,type,import", "spec.from,spec.language"],
               ("post", "/v1/weird", "*")),
        method("Shapes", D + ".ShapesRequest", D + ".ShapesResponse",
               ["names,books,values,value,genre,genres",
                "by_title,by_pages,by_book,nickname",
                "payload,ratio,payload_struct,labels,books_by_id,counts"],
               ("post", "/v1/shapes", "*")),
        method("NoSig", D + ".NoSigRequest", D + ".Book", [], ("post", "/v1/nosig", "*")),
        method("EmptySig", D + ".NoSigRequest", D + ".Book", [""], ("post", "/v1/emptysig", "*")),
        method("EmptyAndReal", D + ".NoSigRequest", D + ".Book", ["", "name", "name,,extra"],
               ("post", "/v1/emptyandreal", "*")),
        method("WatchBooks", D + ".ListBooksRequest", D + ".Book", ["parent,filter"],
               ("get", "/v1/{parent=shelves/*}/books:watch", None), ss=True),
        method("UploadBooks", D + ".CreateBookRequest", D + ".Book", ["parent"], cs=True),
        method("ChatBooks", D + ".CreateBookRequest", D + ".Book", ["parent,book"],
               cs=True, ss=True),
        method("ImportBooks", D + ".CreateBookRequest", OPERATION, ["parent,book_id"],
               ("post", "/v1/{parent=shelves/*}/books:import", "*"), lro=("Book", "Meta")),
        method("OldGetBook", D + ".GetBookRequest", D + ".Book", ["name"],
               ("get", "/v1/{name=oldbooks/*}", None), deprecated=True),
        method("Ping", EMPTY, EMPTY, [], ("post", "/v1/ping", "*")),
    ]
    lib_file = proto_file(
        "example/library/v1/library.proto", P, common_names, lib_msgs,
        [enum("Genre", "GENRE_UNSPECIFIED", "FICTION", "POETRY")],
        [service("Library", "library.example.com", lib_methods)],
    )
    lib_files = ser(common + [lib_file])
    cases.append(dict(name="library/default", package=P, files=lib_files, options=""))
    cases.append(dict(name="library/grpc+rest", package=P, files=lib_files,
                      options="transport=grpc+rest"))

    # ---------------------------------------------------------------- API 2
    # Cross-package: the requests live in a dependency package, so they are
    # not proto-plus wrapped (keyword expansion / extend / update branches).
    TP, SP = "example.crosstypes", "example.cross.v1"
    types_file = proto_file(
        "example/crosstypes/types.proto", TP, common_names,
        [
            message("Filter", [s("expr", 1)]),
            message("LookupRequest", [
                s("name", 1), s("tags", 2, label=REP), i32("count", 3),
                msgf("filter", 4, "." + TP + ".Filter"),
                enumf("kind", 5, "." + TP + ".Kind"),
                i32("numbers", 6, label=REP), fld("exact", 7, F.TYPE_BOOL),
                msgf("filters", 8, "." + TP + ".Filter", label=REP),
            ], maps=[("labels", 9, s("value", 2))], pkg=TP),
            message("LookupResponse", [s("result", 1)]),
            message("OnlyRepeatedRequest", [s("ids", 1, label=REP)]),
        ],
        [enum("Kind", "KIND_UNSPECIFIED", "FAST", "SLOW")],
    )
    TD, SD = "." + TP, "." + SP
    cross_file = proto_file(
        "example/cross/v1/service.proto", SP,
        common_names + ["example/crosstypes/types.proto"],
        [message("LocalRequest", [s("name", 1), s("aliases", 2, label=REP)]),
         message("LocalResponse", [s("result", 1)])],
        [],
        [service("Finder", "finder.example.com", [
            method("Lookup", TD + ".LookupRequest", TD + ".LookupResponse",
                   ["name,tags,count,filter,kind,numbers,exact,filters,labels", "name"],
                   ("post", "/v1/lookup", "*")),
            method("LookupRepeated", TD + ".OnlyRepeatedRequest", TD + ".LookupResponse",
                   ["ids"], ("post", "/v1/lookupRepeated", "*")),
            method("LookupNoSig", TD + ".LookupRequest", TD + ".LookupResponse", [],
                   ("post", "/v1/lookupNoSig", "*")),
            method("LookupStream", TD + ".LookupRequest", TD + ".LookupResponse",
                   ["name,tags"], ("post", "/v1/lookupStream", "*"), ss=True),
            method("LookupVoid", TD + ".LookupRequest", EMPTY, ["tags,name"],
                   ("post", "/v1/lookupVoid", "*")),
            method("LookupUpload", TD + ".LookupRequest", TD + ".LookupResponse",
                   ["name"], cs=True),
            method("Local", SD + ".LocalRequest", SD + ".LocalResponse",
                   ["name,aliases"], ("post", "/v1/local", "*")),
            method("LocalToShared", SD + ".LocalRequest", TD + ".LookupResponse",
                   ["aliases"], ("post", "/v1/localToShared", "*")),
            method("Drop", EMPTY, EMPTY, [], ("post", "/v1/drop", "*")),
            method("LongLookup", TD + ".LookupRequest", OPERATION, ["name,count"],
                   ("post", "/v1/longLookup", "*"),
                   lro=("example.crosstypes.LookupResponse", "example.crosstypes.Filter")),
        ])],
    )
    cross_files = ser(common + [types_file, cross_file])
    cases.append(dict(name="cross/default", package=SP, files=cross_files, options=""))
    cases.append(dict(name="cross/rest-nosnippets", package=SP, files=cross_files,
                      options="transport=rest,autogen-snippets=false"))

    # ---------------------------------------------------------------- API 3
    # Several services, a sub-package whose service uses requests of the
    # parent package (different package inside the same API), REST options.
    MP = "example.multi.v1"
    MD = "." + MP
    multi_a = proto_file(
        "example/multi/v1/alpha.proto", MP, common_names,
        [
            message("Item", [s("name", 1), s("notes", 2, label=REP)],
                    maps=[("attrs", 3, s("value", 2))], pkg=MP),
            message("PutItemRequest", [
                s("parent", 1), msgf("item", 2, MD + ".Item"),
                s("aliases", 3, label=REP), enumf("mode", 4, MD + ".Mode"),
            ], maps=[("annotations", 5, s("value", 2))], pkg=MP),
            message("ListItemsRequest", [s("parent", 1), i32("page_size", 2), s("page_token", 3)]),
            message("ListItemsResponse", [msgf("items", 1, MD + ".Item", label=REP),
                                          s("next_page_token", 2)]),
        ],
        [enum("Mode", "MODE_UNSPECIFIED", "STRICT", "LAX")],
        [
            service("Alpha", "alpha.example.com", [
                method("PutItem", MD + ".PutItemRequest", MD + ".Item",
                       ["parent,item,aliases,mode,annotations", "item.name,item.notes,item.attrs"],
                       ("post", "/v1/{parent=boxes/*}/items", "item")),
                method("ListItems", MD + ".ListItemsRequest", MD + ".ListItemsResponse",
                       ["parent"], ("get", "/v1/{parent=boxes/*}/items", None)),
            ]),
            service("Gamma", "gamma.example.com", [
                method("Touch", MD + ".PutItemRequest", EMPTY, ["parent"],
                       ("post", "/v1/touch", "*")),
                method("Plain", MD + ".ListItemsRequest", MD + ".Item", [],
                       ("post", "/v1/plain", "*")),
            ]),
        ],
    )
    SUBP = MP + ".sub"
    multi_b = proto_file(
        "example/multi/v1/sub/beta.proto", SUBP,
        common_names + ["example/multi/v1/alpha.proto"],
        [message("SubRequest", [s("name", 1), s("paths", 2, label=REP),
                                msgf("item", 3, MD + ".Item")]),
         message("SubResponse", [s("ok", 1)])],
        [],
        [service("Beta", "beta.example.com", [
            method("PutViaSub", MD + ".PutItemRequest", "." + SUBP + ".SubResponse",
                   ["parent,item,aliases,mode,annotations"], ("post", "/v1/sub/put", "*")),
            method("SubOwn", "." + SUBP + ".SubRequest", "." + SUBP + ".SubResponse",
                   ["name,paths,item", "item.name"], ("post", "/v1/sub/own", "*")),
            method("SubStream", MD + ".ListItemsRequest", MD + ".Item", ["parent,page_size"],
                   ("post", "/v1/sub/stream", "*"), ss=True),
        ])],
    )
    multi_files = ser(common + [multi_a, multi_b])
    # (snippet generation does not support services in sub-packages - the
    # generator raises KeyError at HEAD too - so snippets are off here.)
    cases.append(dict(name="multi/rest-numeric", package=MP, files=multi_files,
                      options="transport=rest,rest-numeric-enums,autogen-snippets=false"))
    cases.append(dict(name="multi/grpc+rest", package=MP, files=multi_files,
                      options="transport=grpc+rest,autogen-snippets=false"))

    # ---------------------------------------------------------------- API 4
    # No flattening anywhere, streaming only / void only, no http rules.
    BP = "example.bare.v1"
    BD = "." + BP
    bare = proto_file(
        "example/bare/v1/bare.proto", BP, common_names,
        [message("Ask", [s("q", 1)]), message("Answer", [s("a", 1)])],
        [],
        [service("Bare", "bare.example.com", [
            method("Unary", BD + ".Ask", BD + ".Answer"),
            method("Void", BD + ".Ask", EMPTY),
            method("Up", BD + ".Ask", BD + ".Answer", cs=True),
            method("Down", BD + ".Ask", BD + ".Answer", ss=True),
            method("Both", BD + ".Ask", BD + ".Answer", cs=True, ss=True),
        ])],
    )
    cases.append(dict(name="bare/default", package=BP, files=ser(common + [bare]),
                      options=""))
    return cases


# --------------------------------------------------------------------------
# Driver
# --------------------------------------------------------------------------
def main(argv):
    if len(argv) == 5 and argv[1] == "--worker":
        worker(argv[2], argv[3], argv[4])
        return 0
    if len(argv) != 2:
        print(__doc__)
        return 2

    checkout = os.path.realpath(argv[1])
    tmp = tempfile.mkdtemp(prefix="twin-demo-U05-")
    try:
        base = os.path.join(tmp, "base")
        os.mkdir(base)
        archive = subprocess.Popen(
            ["git", "-C", checkout, "archive", "HEAD"], stdout=subprocess.PIPE
        )
        subprocess.check_call(["tar", "-x", "-C", base], stdin=archive.stdout)
        archive.stdout.close()
        if archive.wait() != 0:
            raise RuntimeError("git archive failed")

        cases = build_cases()
        in_path = os.path.join(tmp, "cases.pkl")
        with open(in_path, "wb") as fh:
            pickle.dump(cases, fh)

        env = dict(os.environ)
        env.pop("PYTHONPATH", None)
        env["PYTHONDONTWRITEBYTECODE"] = "1"
        env["PYTHONHASHSEED"] = "0"
        procs = {}
        for label, tree in (("base", base), ("new", checkout)):
            out_path = os.path.join(tmp, label + ".pkl")
            procs[label] = (
                subprocess.Popen(
                    [sys.executable, os.path.abspath(__file__), "--worker",
                     tree, in_path, out_path],
                    cwd=tmp, env=env,
                ),
                out_path,
            )
        outputs = {}
        for label, (proc, out_path) in procs.items():
            if proc.wait() != 0:
                print("FAIL: generator run on the %s tree exited with %d"
                      % (label, proc.returncode))
                return 1
            with open(out_path, "rb") as fh:
                outputs[label] = pickle.load(fh)

        differing, total = [], 0
        digest = hashlib.sha256()
        for case in cases:
            name = case["name"]
            old, new = outputs["base"][name], outputs["new"][name]
            assert old, "no output for " + name
            for fname in sorted(set(old) | set(new)):
                total += 1
                if fname not in old:
                    differing.append("%s: %s only generated by the changed tree" % (name, fname))
                elif fname not in new:
                    differing.append("%s: %s only generated by the HEAD tree" % (name, fname))
                elif old[fname] != new[fname]:
                    differing.append("%s: %s differs" % (name, fname))
                else:
                    digest.update(fname.encode() + b"\0" + old[fname].encode() + b"\0")
        if differing:
            print("FAIL: %d of %d generated files differ:" % (len(differing), total))
            for line in differing:
                print("  " + line)
            return 1
        print("OK: %d API runs, %d generated files byte-identical between HEAD and the "
              "changed tree (sha256 %s)" % (len(cases), total, digest.hexdigest()[:16]))
        return 0
    finally:
        shutil.rmtree(tmp, ignore_errors=True)


if __name__ == "__main__":
    sys.exit(main(sys.argv))
